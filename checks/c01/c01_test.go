package c01

import (
	"testing"

	"pgregory.net/rapid"

	"github.com/NVIDIA/KAI-scheduler/zz_verif/sim"
	kit "github.com/NVIDIA/KAI-scheduler/zz_verif/verifkit"
)

func TestMain(m *testing.M) { kit.Main(m) }

func profile() sim.Profile {
	pf := sim.DefaultProfile()
	pf.MaxGroups = 8
	pf.PRunning = 6
	pf.PTerminating = 3
	pf.PBinding = 2
	pf.PSmallPodSlots = 3
	pf.PFaults = 3
	pf.PMIG = 2
	pf.MaxCycles = 4
	pf.PDRA = 3
	return pf
}

func TestCheckNodesNeverOversubscribed(t *testing.T) {
	sim.CheckProperty(t, "C01", kit.Budget{Quick: 8000, Thorough: 400000},
		func(t *rapid.T) *sim.World { return sim.GenWorld(t, profile()) }, sim.JudgeNodes(false))
}

// DRA devices under eviction pressure: small clusters, contention between queues, most worlds with claims
func contentionProfile() sim.Profile {
	pf := sim.DefaultProfile()
	pf.MaxNodes = 3
	pf.MaxGroups = 8
	pf.PRunning = 7
	pf.PTerminating = 2
	pf.PBinding = 2
	pf.PFaults = 1
	pf.MaxCycles = 3
	pf.Contention = true
	pf.PDRA = 7
	return pf
}

func TestCheckDevicesUnderContention(t *testing.T) {
	sim.CheckProperty(t, "C01", kit.Budget{Quick: 3000, Thorough: 150000},
		func(t *rapid.T) *sim.World { return sim.GenWorld(t, contentionProfile()) }, sim.JudgeNodes(false))
}

// DRA devices through their whole life in one scheduler process (kit/sim/families.go): never handed to two pods
func TestCheckDRALifecycleFamilies(t *testing.T) {
	sim.CheckProperty(t, "C01", kit.Budget{Quick: 800, Thorough: 40000}, sim.GenDRALifecycleFamily, sim.JudgeNodes(false))
}

func TestReplay(t *testing.T) { sim.ReplayProperty(t, sim.JudgeNodes(false), 20) }
