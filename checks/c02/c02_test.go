package c02

import (
	"testing"

	"pgregory.net/rapid"

	"github.com/NVIDIA/KAI-scheduler/zz_verif/sim"
	kit "github.com/NVIDIA/KAI-scheduler/zz_verif/verifkit"
)

func TestMain(m *testing.M) { kit.Main(m) }

// profile "sharing": few GPU nodes, most workloads are sharing requests, several cycles so that groups fill,
// drain (terminating sharers) and are re-used.
func profile() sim.Profile {
	pf := sim.DefaultProfile()
	pf.MaxNodes = 3
	pf.MaxGroups = 9
	pf.PSharing = 8
	pf.PWholeGPU = 6
	pf.PRunning = 6
	pf.PTerminating = 3
	pf.PBinding = 2
	pf.PConstraints = 1
	pf.PTopology = 0
	pf.PMIG = 0
	pf.PFaults = 1
	pf.MinCycles = 2
	pf.MaxCycles = 5
	pf.GPUNodesOnly = true
	return pf
}

func TestCheckSharedGPUs(t *testing.T) {
	sim.CheckProperty(t, "C02", kit.Budget{Quick: 8000, Thorough: 400000},
		func(t *rapid.T) *sim.World { return sim.GenWorld(t, profile()) }, sim.JudgeNodes(true))
}

// the same oracle under eviction pressure: queues contend, gangs are nominated onto GPUs that are being released,
// later workloads of the cycle meet groups that exist only through nominations
func contentionProfile() sim.Profile {
	pf := profile()
	pf.PSharing = 7
	pf.PGang = 5
	pf.PTerminating = 4
	pf.MaxCycles = 3
	pf.Contention = true
	return pf
}

func TestCheckSharedGPUsUnderContention(t *testing.T) {
	sim.CheckProperty(t, "C02", kit.Budget{Quick: 4000, Thorough: 200000},
		func(t *rapid.T) *sim.World { return sim.GenWorld(t, contentionProfile()) }, sim.JudgeNodes(true))
}

func TestReplay(t *testing.T) { sim.ReplayProperty(t, sim.JudgeNodes(true), 20) }
