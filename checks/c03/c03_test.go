package c03

import (
	"testing"

	"pgregory.net/rapid"

	"github.com/NVIDIA/KAI-scheduler/zz_verif/sim"
	kit "github.com/NVIDIA/KAI-scheduler/zz_verif/verifkit"
)

func TestMain(m *testing.M) { kit.Main(m) }

// profile "gangs": gangs, elastic surplus, sub-groups, partially running gangs, fullish clusters, no API faults.
func profile() sim.Profile {
	pf := sim.DefaultProfile()
	pf.MaxGroups = 8
	pf.PGang = 7
	pf.PElastic = 4
	pf.PSubGroups = 4
	pf.PRunning = 6
	pf.PTerminating = 2
	pf.PFaults = 0
	pf.PMIG = 0
	pf.MaxCycles = 4
	pf.NoBindFailures = true
	return pf
}

func TestCheckGangIntegrity(t *testing.T) {
	sim.CheckProperty(t, "C03", kit.Budget{Quick: 8000, Thorough: 400000},
		func(t *rapid.T) *sim.World { return sim.GenWorld(t, profile()) }, sim.JudgeGangs)
}

// pod groups edited between cycles of a long-running scheduler right after it wrote their status (families.go)
func TestCheckSpecEditFamilies(t *testing.T) {
	sim.CheckProperty(t, "C03", kit.Budget{Quick: 1500, Thorough: 60000}, sim.GenSpecEditFamily, sim.JudgeGangs)
}

func TestReplay(t *testing.T) { sim.ReplayProperty(t, sim.JudgeGangs, 20) }
