package c04

import (
	"testing"

	"pgregory.net/rapid"

	"github.com/NVIDIA/KAI-scheduler/zz_verif/sim"
	kit "github.com/NVIDIA/KAI-scheduler/zz_verif/verifkit"
)

func TestMain(m *testing.M) { kit.Main(m) }

// profile "constraints": label / taint / condition assignments, selectors, affinities, tolerations,
// pod (anti-)affinity, node pools, topologies with required / preferred levels on groups and sub-groups.
func profile() sim.Profile {
	pf := sim.DefaultProfile()
	pf.MaxNodes = 6
	pf.MaxGroups = 8
	pf.PConstraints = 7
	pf.PTopology = 6
	pf.PSubGroups = 4
	pf.PGang = 5
	pf.PRunning = 5
	pf.PFaults = 0
	pf.PMIG = 0
	pf.PSmallPodSlots = 1
	pf.MaxCycles = 3
	pf.PPool = 3
	pf.NoBindFailures = true
	return pf
}

func TestCheckHardConstraints(t *testing.T) {
	sim.CheckProperty(t, "C04", kit.Budget{Quick: 8000, Thorough: 400000},
		func(t *rapid.T) *sim.World { return sim.GenWorld(t, profile()) }, sim.JudgeConstraints)
}

func TestReplay(t *testing.T) { sim.ReplayProperty(t, sim.JudgeConstraints, 20) }
