package c04

import (
	"testing"

	"pgregory.net/rapid"

	"github.com/NVIDIA/KAI-scheduler/zz_verif/sim"
	kit "github.com/NVIDIA/KAI-scheduler/zz_verif/verifkit"
)

func TestMain(m *testing.M) { kit.Main(m) }

// profile "constraints": label / taint / condition assignments, selectors, affinities, tolerations,
// pod (anti-)affinity, node pools, topologies with required / preferred levels on groups and sub-groups.
func profile() sim.Profile {
	pf := sim.DefaultProfile()
	// nodes are relabelled, cordoned and uncordoned between cycles
	pf.PMutations = 3
	pf.MutationKinds = []string{"node-label", "node-unschedulable"}
	pf.MaxNodes = 6
	pf.MaxGroups = 8
	pf.PConstraints = 7
	pf.PHeteroConstraints = 3
	pf.PTopology = 6
	pf.PSubGroups = 4
	pf.PGang = 5
	pf.PRunning = 5
	pf.PFaults = 0
	pf.PMIG = 0
	pf.PSmallPodSlots = 1
	pf.MaxCycles = 3
	pf.PPool = 3
	pf.NoBindFailures = true
	return pf
}

func TestCheckHardConstraints(t *testing.T) {
	sim.CheckProperty(t, "C04", kit.Budget{Quick: 8000, Thorough: 400000},
		func(t *rapid.T) *sim.World { return sim.GenWorld(t, profile()) }, sim.JudgeConstraints)
}

// topology families: a topology always exists, (nearly) every workload carries a required or preferred level, workloads
// start partly running inside ONE domain of their required level (sometimes with a terminating pod left behind in
// another domain), elastic and gang shapes with pending pods to place, small nodes so that the pinned domain is often full.
func topoProfile() sim.Profile {
	pf := profile()
	pf.TopoFamily = true
	pf.PTopology = 10
	pf.PConstraints = 2
	pf.PPool = 0
	pf.PRunning = 8
	pf.PElastic = 6
	pf.PGang = 6
	pf.PTerminating = 2
	pf.Fill = true
	pf.MaxGroups = 6
	return pf
}

func TestCheckTopologyFamilies(t *testing.T) {
	sim.CheckProperty(t, "C04", kit.Budget{Quick: 4000, Thorough: 200000},
		func(t *rapid.T) *sim.World { return sim.GenWorld(t, topoProfile()) }, sim.JudgeConstraints)
}

// anti-affinity families: holders of a required anti-affinity term and targets that only carry the forbidden label
// compete in full clusters, so that targets fail in allocate and are placed by reclaim / preempt / consolidation after
// holders were bound in the same cycle.
func antiProfile() sim.Profile {
	pf := sim.DefaultProfile()
	pf.AntiFamily = true
	pf.MaxNodes = 3
	pf.MaxGroups = 8
	pf.PRunning = 5
	pf.PTerminating = 1
	pf.PFaults = 0
	pf.PMIG = 0
	pf.PTopology = 0
	pf.PSubGroups = 1
	pf.PMinRuntime = 0
	pf.PWholeGPU = 8
	pf.PSharing = 2
	pf.Contention = true
	pf.Saturated = true
	pf.NoNodeProblems = true
	pf.NoBindFailures = true
	pf.MaxCycles = 2
	pf.Actions = [][]string{nil, nil, {"allocate", "reclaim"}, {"allocate", "preempt"}, {"allocate", "reclaim", "preempt"}, {"allocate", "consolidation", "reclaim", "preempt"}}
	return pf
}

func TestCheckAntiAffinityFamilies(t *testing.T) {
	sim.CheckProperty(t, "C04", kit.Budget{Quick: 3000, Thorough: 150000},
		func(t *rapid.T) *sim.World { return sim.GenWorld(t, antiProfile()) }, sim.JudgeConstraints)
}

func TestReplay(t *testing.T) { sim.ReplayProperty(t, sim.JudgeConstraints, 20) }
