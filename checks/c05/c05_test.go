package c05

import (
	"encoding/json"
	"fmt"
	"testing"

	"pgregory.net/rapid"

	"github.com/NVIDIA/KAI-scheduler/zz_verif/sim"
	kit "github.com/NVIDIA/KAI-scheduler/zz_verif/verifkit"
)

func TestMain(m *testing.M) { kit.Main(m) }

// clause (a): allocate only, constraint-free identical pods, healthy nodes; 1-3 cycles (each cycle is judged on its
// own), DRA device claims, one scheduler process for all cycles in part of the worlds, pods that finish between cycles.
func profileA() sim.Profile {
	pf := sim.DefaultProfile()
	pf.MaxGroups = 9
	pf.PConstraints = 0
	pf.NoNodeProblems = true
	pf.PMIG = 0
	pf.PTopology = 0
	pf.PFaults = 0
	pf.PRunning = 5
	pf.PTerminating = 2
	pf.PLimits = 5
	pf.MinCycles = 1
	pf.MaxCycles = 3
	pf.PDRA = 3
	pf.PPersistent = 6
	pf.PMutations = 4
	pf.MutationKinds = []string{"pod-finish", "pod-finish", "node-unschedulable", "queue-gpu", "pod-replace"}
	pf.NoBindFailures = true
	pf.Actions = [][]string{{"allocate"}}
	return pf
}

func TestCheckWorkConservation(t *testing.T) {
	sim.CheckProperty(t, "C05", kit.Budget{Quick: 6000, Thorough: 300000},
		func(t *rapid.T) *sim.World { return sim.GenWorld(t, profileA()) }, sim.JudgeWorkConservation)
}

// DRA devices through their whole life in one scheduler process (kit/sim/families.go): a device that is free in the
// API is given to the next pending pod that needs it
func TestCheckDRALifecycleFamilies(t *testing.T) {
	sim.CheckProperty(t, "C05", kit.Budget{Quick: 1200, Thorough: 50000}, sim.GenDRALifecycleFamily, sim.JudgeWorkConservation)
}

func TestCheckDisplacementFamilies(t *testing.T) {
	sim.CheckProperty(t, "C05", kit.Budget{Quick: 3000, Thorough: 150000}, sim.GenDisplacementFamily, sim.JudgeDisplacement)
}

func TestReplay(t *testing.T) {
	kit.ReplayMain(t, func(rf *kit.ReplayFile) kit.ReplayResult {
		var w sim.World
		if err := json.Unmarshal(rf.Case, &w); err != nil {
			t.Fatalf("bad case: %v", err)
		}
		judge := sim.JudgeWorkConservation
		if w.Family != "" && w.Family != "dra-lifecycle" {
			judge = sim.JudgeDisplacement
		}
		res := kit.ReplayResult{}
		for r := 0; r < 20; r++ {
			v := judge(&w)
			res.Runs++
			if len(v.Findings) > 0 {
				res.Bad++
				res.Violated, res.Signature = true, v.Findings[0].Sig
				res.Message = fmt.Sprintf("cycle %d: %s", v.Findings[0].Cycle, v.Findings[0].Msg)
			}
		}
		return res
	})
}
