package c06

import (
	"testing"

	"pgregory.net/rapid"

	"github.com/NVIDIA/KAI-scheduler/zz_verif/sim"
	kit "github.com/NVIDIA/KAI-scheduler/zz_verif/verifkit"
)

func TestMain(m *testing.M) { kit.Main(m) }

// profile "victims": full clusters, preemptible / non-preemptible mixes, priorities, queue trees with
// min-runtime settings on leaves and ancestors, both resolve methods, elastic workloads.
func profile() sim.Profile {
	pf := sim.DefaultProfile()
	// priority classes change and workloads are given another class between cycles (priority and default preemptibility follow)
	pf.PMutations = 3
	pf.MutationKinds = []string{"pc-set", "pg-priorityclass"}
	pf.MaxNodes = 3
	pf.MaxGroups = 10
	pf.PRunning = 8
	pf.PTerminating = 1
	pf.PBinding = 1
	pf.PNonPreemptible = 4
	pf.PMinRuntime = 6
	pf.PElastic = 4
	pf.PGang = 3
	pf.PFaults = 0
	pf.PMIG = 0
	pf.PTopology = 0
	pf.PConstraints = 1
	pf.PLimits = 2
	pf.MaxCycles = 4
	pf.Deep = true
	pf.Contention = true
	pf.Saturated = true
	pf.PWholeGPU = 9
	pf.PSharing = 2
	pf.PSmallPodSlots = 0
	pf.NoBindFailures = true
	return pf
}

func TestCheckEligibleVictims(t *testing.T) {
	sim.CheckProperty(t, "C06", kit.Budget{Quick: 8000, Thorough: 400000},
		func(t *rapid.T) *sim.World { return sim.GenWorld(t, profile()) }, sim.JudgeVictims)
}

// one scheduler process; the value of the running workloads' priority class is changed between cycles
func TestCheckPriorityFlipFamilies(t *testing.T) {
	sim.CheckProperty(t, "C06", kit.Budget{Quick: 1500, Thorough: 60000}, sim.GenPriorityFlipFamily, sim.JudgeVictims)
}

func TestReplay(t *testing.T) { sim.ReplayProperty(t, sim.JudgeVictims, 20) }
