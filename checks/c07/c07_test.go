package c07

import (
	"testing"

	"pgregory.net/rapid"

	"github.com/NVIDIA/KAI-scheduler/zz_verif/sim"
	kit "github.com/NVIDIA/KAI-scheduler/zz_verif/verifkit"
)

func TestMain(m *testing.M) { kit.Main(m) }

// profile "reclaim": queue trees with quotas / limits / weights / priorities, saturated GPU clusters,
// reclaimers of several shapes, saturation multipliers >= 1, actions allocate + reclaim.
func profile() sim.Profile {
	pf := sim.DefaultProfile()
	pf.MaxNodes = 3
	pf.MaxQueues = 6
	pf.MaxGroups = 9
	pf.PRunning = 7
	pf.PTerminating = 0
	pf.PBinding = 1
	pf.PNonPreemptible = 3
	pf.PMinRuntime = 0
	pf.PElastic = 4
	pf.PGang = 3
	pf.PFaults = 0
	pf.PMIG = 0
	pf.PTopology = 0
	pf.PConstraints = 0
	pf.PLimits = 2
	pf.PSharing = 2
	pf.PWholeGPU = 9
	pf.MaxCycles = 3
	pf.Deep = true
	pf.Contention = true
	pf.Saturated = true
	pf.NoBindFailures = true
	pf.Actions = [][]string{{"allocate", "reclaim"}, {"allocate", "reclaim"}, nil}
	return pf
}

func TestCheckReclaimFairness(t *testing.T) {
	sim.CheckProperty(t, "C07", kit.Budget{Quick: 8000, Thorough: 400000},
		func(t *rapid.T) *sim.World { return sim.GenWorld(t, profile()) }, sim.JudgeReclaim)
}

// one decision with victims inside the reclaimer's own department and in another department
func TestCheckTwoBranchReclaimFamilies(t *testing.T) {
	sim.CheckProperty(t, "C07", kit.Budget{Quick: 6000, Thorough: 150000}, sim.GenTwoBranchReclaimFamily, sim.JudgeReclaim)
}

func TestReplay(t *testing.T) { sim.ReplayProperty(t, sim.JudgeReclaim, 20) }
