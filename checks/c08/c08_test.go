package c08

import (
	"testing"

	"pgregory.net/rapid"

	"github.com/NVIDIA/KAI-scheduler/zz_verif/sim"
	kit "github.com/NVIDIA/KAI-scheduler/zz_verif/verifkit"
)

func TestMain(m *testing.M) { kit.Main(m) }

// profile "limits": limits and quotas at every level (incl. 0, -1, fractional GPUs), elastic growth,
// whole / fraction / gpu-memory workloads, all actions, several cycles.
func profile() sim.Profile {
	pf := sim.DefaultProfile()
	// administrators change GPU quotas, limits and weights of queues between cycles
	pf.PMutations = 3
	pf.MutationKinds = []string{"queue-gpu"}
	pf.MaxGroups = 9
	pf.PLimits = 8
	pf.PNonPreemptible = 5
	pf.PElastic = 5
	pf.PSharing = 4
	pf.PRunning = 5
	pf.PFaults = 0 // API write failures are outside C08's quantifier (inputs, histories)
	pf.PConstraints = 1
	pf.PTopology = 0
	pf.MaxCycles = 5
	pf.Deep = true
	pf.DeeperTrees = true
	return pf
}

func TestCheckQueueLimits(t *testing.T) {
	sim.CheckProperty(t, "C08", kit.Budget{Quick: 8000, Thorough: 400000},
		func(t *rapid.T) *sim.World { return sim.GenWorld(t, profile()) }, sim.JudgeQueueLimits)
}

// pod groups and queues edited between cycles of a long-running scheduler right after it wrote their status (families.go)
func TestCheckSpecEditFamilies(t *testing.T) {
	sim.CheckProperty(t, "C08", kit.Budget{Quick: 1500, Thorough: 60000}, sim.GenSpecEditFamily, sim.JudgeQueueLimits)
}

func TestReplay(t *testing.T) { sim.ReplayProperty(t, sim.JudgeQueueLimits, 20) }
