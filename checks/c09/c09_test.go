package c09

import (
	"encoding/json"
	"fmt"
	"math"
	"sort"
	"testing"
	"time"

	metav1 "k8s.io/apimachinery/pkg/apis/meta/v1"
	"pgregory.net/rapid"

	"github.com/NVIDIA/KAI-scheduler/pkg/scheduler/api/common_info"
	"github.com/NVIDIA/KAI-scheduler/pkg/scheduler/plugins/proportion"
	"github.com/NVIDIA/KAI-scheduler/pkg/scheduler/plugins/proportion/resource_division"
	rs "github.com/NVIDIA/KAI-scheduler/pkg/scheduler/plugins/proportion/resource_share"
	kit "github.com/NVIDIA/KAI-scheduler/zz_verif/verifkit"
)

const prop = "C09"

func TestMain(m *testing.M) { kit.Main(m) }

// ---------------------------------------------------------------------------------------------
// case

// Q is one sibling queue for one resource.
type Q struct {
	Name     string  `json:"name"`
	Deserved float64 `json:"deserved"` // -1 unlimited
	Limit    float64 `json:"limit"`    // -1 unlimited
	Weight   float64 `json:"weight"`
	Priority int     `json:"priority"`
	Request  float64 `json:"request"`
	Usage    float64 `json:"usage"`
	Created  int     `json:"created"` // seconds after epoch
	Parent   string  `json:"parent,omitempty"`
}

type Case struct {
	Domain string  `json:"domain"` // grid | free | tree
	Total  float64 `json:"total"`
	K      float64 `json:"k"`
	Queues []Q     `json:"queues"`
	Orders [][]int `json:"orders"` // insertion orders to evaluate
}

var epoch = time.Date(2020, 1, 1, 0, 0, 0, 0, time.UTC)

func (c *Case) build(order []int) map[common_info.QueueID]*rs.QueueAttributes {
	m := map[common_info.QueueID]*rs.QueueAttributes{}
	children := map[string][]common_info.QueueID{}
	for _, q := range c.Queues {
		if q.Parent != "" {
			children[q.Parent] = append(children[q.Parent], common_info.QueueID(q.Name))
		}
	}
	for _, i := range order {
		q := c.Queues[i]
		qa := &rs.QueueAttributes{
			UID: common_info.QueueID(q.Name), Name: q.Name, Priority: q.Priority,
			ParentQueue:       common_info.QueueID(q.Parent),
			ChildQueues:       children[q.Name],
			CreationTimestamp: metav1.NewTime(epoch.Add(time.Duration(q.Created) * time.Second)),
		}
		// the same numbers on all three resources: the division treats resources independently
		for _, r := range rs.AllResources {
			sh := qa.ResourceShare(r)
			sh.Deserved, sh.MaxAllowed, sh.OverQuotaWeight = q.Deserved, q.Limit, q.Weight
			sh.Request, sh.Usage = q.Request, q.Usage
		}
		m[qa.UID] = qa
	}
	return m
}

// ---------------------------------------------------------------------------------------------
// generators

func genGridAmount(t *rapid.T, label string, scale float64, allowUnlimited bool) float64 {
	kind := rapid.IntRange(0, 9).Draw(t, label+"Kind")
	switch {
	case kind == 0 && allowUnlimited:
		return -1
	case kind <= 1:
		return 0
	case kind <= 4: // fractional grid 0.1 / 0.01 / halves
		steps := []float64{0.1, 0.01, 0.5, 0.25}
		st := steps[rapid.IntRange(0, len(steps)-1).Draw(t, label+"Step")]
		n := rapid.IntRange(1, 120).Draw(t, label+"N")
		return float64(n) * st * scale
	default:
		return float64(rapid.IntRange(1, 70).Draw(t, label+"I")) * scale
	}
}

func genCase(t *rapid.T, domain string) *Case {
	c := &Case{Domain: domain}
	scale := []float64{1, 1, 1, 1000, 1e9}[rapid.IntRange(0, 4).Draw(t, "scale")]
	c.K = []float64{0, 0, 0.5, 1, 4}[rapid.IntRange(0, 4).Draw(t, "k")]
	n := rapid.IntRange(1, 8).Draw(t, "n")
	nPrio := rapid.IntRange(1, 3).Draw(t, "nPrio")
	if domain == "free" {
		c.Total = rapid.Float64Range(0, 100).Draw(t, "total") * scale
	} else {
		c.Total = genGridAmount(t, "total", scale, false)
	}
	for i := 0; i < n; i++ {
		q := Q{Name: fmt.Sprintf("q%d", i), Created: rapid.IntRange(0, 3).Draw(t, "created")}
		q.Priority = rapid.IntRange(0, nPrio-1).Draw(t, "prio")
		if domain == "free" {
			q.Deserved = pick(t, "dKind", -1, 0, rapid.Float64Range(0, 50).Draw(t, "d")*scale)
			q.Limit = pick(t, "lKind", -1, -1, rapid.Float64Range(0, 80).Draw(t, "l")*scale)
			q.Request = pick(t, "rKind", 0, rapid.Float64Range(0, 120).Draw(t, "r")*scale, rapid.Float64Range(0, 3).Draw(t, "r2")*scale)
			q.Weight = pick(t, "wKind", 0, 1, rapid.Float64Range(0, 5).Draw(t, "w"))
			q.Usage = pick(t, "uKind", 0, 0, rapid.Float64Range(0, 1.5).Draw(t, "u"))
		} else {
			q.Deserved = genGridAmount(t, "d", scale, true)
			if rapid.IntRange(0, 2).Draw(t, "limited") == 0 {
				q.Limit = genGridAmount(t, "l", scale, true)
			} else {
				q.Limit = -1
			}
			q.Request = genGridAmount(t, "r", scale, false)
			if rapid.IntRange(0, 3).Draw(t, "bigReq") == 0 {
				q.Request += float64(rapid.IntRange(50, 400).Draw(t, "rBig")) * scale
			}
			q.Weight = []float64{0, 1, 1, 1, 2, 3, 0.5}[rapid.IntRange(0, 6).Draw(t, "w")]
			q.Usage = float64(rapid.IntRange(0, 15).Draw(t, "u")) / 10 * float64(rapid.IntRange(0, 1).Draw(t, "uOn"))
		}
		c.Queues = append(c.Queues, q)
	}
	const K = 6
	for k := 0; k < K; k++ {
		c.Orders = append(c.Orders, rapid.Permutation(iota(n)).Draw(t, "order"))
	}
	return c
}

func pick(t *rapid.T, label string, vals ...float64) float64 {
	return vals[rapid.IntRange(0, len(vals)-1).Draw(t, label)]
}

func iota(n int) []int {
	s := make([]int, n)
	for i := range s {
		s[i] = i
	}
	return s
}

// ---------------------------------------------------------------------------------------------
// oracle: the documented contract, written without reference to the implementation

type facts struct{ surplusPos, remainder, law5, law6, leftover bool }

func capped(q Q) float64 {
	if q.Limit == -1 {
		return q.Request
	}
	return math.Min(q.Limit, q.Request)
}

func guaranteed(q Q, total float64) float64 {
	d := q.Deserved
	if d == -1 {
		d = total
	}
	return math.Min(d, capped(q))
}

// checkLaws checks laws (1)-(6) for one evaluation. fs[i] is the fair share of c.Queues[i].
func checkLaws(c *Case, qs []Q, total float64, fs []float64, strict bool) (string, string, facts) {
	var f facts
	scale := math.Max(1, total)
	for _, q := range qs {
		scale = math.Max(scale, math.Max(q.Request, math.Max(q.Deserved, q.Limit)))
	}
	tol := 1e-9 * scale
	sumG, sumSurplus := 0.0, 0.0
	for i, q := range qs {
		g := guaranteed(q, total)
		if math.IsNaN(fs[i]) || math.IsInf(fs[i], 0) {
			return "not-finite", fmt.Sprintf("queue %s fair share %v", q.Name, fs[i]), f
		}
		if fs[i] < g-tol {
			return "law1-below-guaranteed", fmt.Sprintf("queue %s: fair share %v < min(deserved, capped request) %v", q.Name, fs[i], g), f
		}
		if fs[i]-capped(q) >= 1+tol {
			return "law2-exceeds-request", fmt.Sprintf("queue %s: fair share %v exceeds capped request %v by >= 1", q.Name, fs[i], capped(q)), f
		}
		sumG += g
		sumSurplus += fs[i] - g
	}
	avail := math.Max(0, total-sumG)
	if sumSurplus > avail+tol*float64(len(qs)+1) {
		return "law3-surplus-exceeds-remaining", fmt.Sprintf("surplus handed out %v > remaining after deserved %v", sumSurplus, avail), f
	}
	f.surplusPos = avail > tol
	leftover := avail - sumSurplus
	f.leftover = leftover > 1e-6*scale

	// per priority: unsatisfied sets and effective weights (normalised inside the priority)
	byPrio := map[int][]int{}
	for i, q := range qs {
		byPrio[q.Priority] = append(byPrio[q.Priority], i)
	}
	unsat := func(i int) bool { return fs[i] < capped(qs[i])-1e-6*scale }
	effPos := func(i int, group []int) bool {
		tw := 0.0
		for _, j := range group {
			// the normalisation set is "queues that still want more", taken exactly (no tolerance):
			// a queue missing a tiny amount still takes part in the weights
			if fs[j] < capped(qs[j]) {
				tw += qs[j].Weight
			}
		}
		if tw == 0 || qs[i].Weight == 0 {
			return false
		}
		nw := qs[i].Weight / tw
		return nw+c.K*(nw-qs[i].Usage) > 1e-9
	}
	if f.leftover {
		for p, group := range byPrio {
			for _, i := range group {
				if unsat(i) && effPos(i, group) {
					return "law4-surplus-left-while-unsatisfied", fmt.Sprintf(
						"undistributed surplus %v although queue %s (priority %d, weight %v) is unsatisfied: fair share %v < capped request %v",
						leftover, qs[i].Name, p, qs[i].Weight, fs[i], capped(qs[i])), f
				}
			}
		}
	}
	if !strict {
		return "", "", f
	}
	// law 5: while priority P is unsatisfied, all lower priorities together get < |P| units
	for p, group := range byPrio {
		hasUnsat := false
		for _, i := range group {
			if unsat(i) && effPos(i, group) {
				hasUnsat = true
			}
		}
		if !hasUnsat {
			continue
		}
		f.law5 = true
		lower := 0.0
		for i, q := range qs {
			if q.Priority < p {
				lower += fs[i] - guaranteed(q, total)
			}
		}
		if lower >= float64(len(group))+tol {
			return "law5-lower-priority-served-first", fmt.Sprintf(
				"priority %d has an unsatisfied queue but lower priorities received surplus %v >= %d", p, lower, len(group)), f
		}
	}
	// law 6: same priority, same usage, both unsatisfied, no limit: surplus monotone in weight (up to 1)
	for _, group := range byPrio {
		for _, a := range group {
			for _, b := range group {
				qa, qb := qs[a], qs[b]
				if a == b || !unsat(a) || !unsat(b) || qa.Usage != qb.Usage || qa.Weight < qb.Weight {
					continue
				}
				if qa.Weight == 0 {
					continue
				}
				f.law6 = true
				sa, sb := fs[a]-guaranteed(qa, total), fs[b]-guaranteed(qb, total)
				if sa < sb-1-tol {
					return "law6-not-monotone-in-weight", fmt.Sprintf(
						"queues %s (weight %v, surplus %v) and %s (weight %v, surplus %v) of the same priority", qa.Name, qa.Weight, sa, qb.Name, qb.Weight, sb), f
				}
			}
		}
	}
	for i := range qs {
		g := guaranteed(qs[i], total)
		s := fs[i] - g
		if s > tol && math.Abs(s-math.Round(s)) > tol && fs[i] < capped(qs[i])-tol {
			f.remainder = true
		}
	}
	return "", "", f
}

// evaluate runs the real division once per insertion order and returns the fair shares
// (GPU resource; CPU and memory carry identical inputs and must agree with it).
func evaluate(c *Case) ([][]float64, string) {
	var out [][]float64
	for _, order := range c.Orders {
		m := c.build(order)
		total := rs.NewResourceQuantities(c.Total, c.Total, c.Total)
		resource_division.SetResourcesShare(total, c.K, m)
		// the three resources carry identical inputs and are divided independently (each with its own
		// map enumerations), so one call yields three evaluations of the same case
		for _, r := range rs.AllResources {
			fs := make([]float64, len(c.Queues))
			for i, q := range c.Queues {
				fs[i] = m[common_info.QueueID(q.Name)].ResourceShare(r).FairShare
			}
			out = append(out, fs)
		}
	}
	return out, ""
}

func judge(c *Case) (sig, msg string, f facts) {
	evals, _ := evaluate(c)
	strict := c.Domain != "free"
	for _, fs := range evals {
		s, m, ff := checkLaws(c, c.Queues, c.Total, fs, strict)
		f.surplusPos = f.surplusPos || ff.surplusPos
		f.remainder = f.remainder || ff.remainder
		f.law5 = f.law5 || ff.law5
		f.law6 = f.law6 || ff.law6
		f.leftover = f.leftover || ff.leftover
		if s != "" {
			return s, m + fmt.Sprintf(" | fair shares %v", fs), f
		}
	}
	if strict {
		scale := math.Max(1, c.Total)
		for k := 1; k < len(evals); k++ {
			for i := range evals[k] {
				if math.Abs(evals[k][i]-evals[0][i]) > 1e-6*scale {
					return "law8-order-dependent", fmt.Sprintf(
						"queue %s receives fair share %v under one enumeration order and %v under another (all: %v vs %v)",
						c.Queues[i].Name, evals[0][i], evals[k][i], evals[0], evals[k]), f
				}
			}
		}
	}
	return "", "", f
}

func nontrivial(c *Case, f facts) bool {
	uns := 0
	for _, q := range c.Queues {
		if capped(q) > guaranteed(q, c.Total) {
			uns++
		}
	}
	return (f.surplusPos && uns >= 2) || f.remainder
}

func record(c *Case, f facts) {
	classes := []string{"domain:" + c.Domain, fmt.Sprintf("queues:%d", len(c.Queues))}
	if f.surplusPos {
		classes = append(classes, "surplus>0")
	}
	if f.remainder {
		classes = append(classes, "remainder-handout")
	}
	if f.law5 {
		classes = append(classes, "law5-antecedent")
	}
	if f.law6 {
		classes = append(classes, "law6-antecedent")
	}
	if f.leftover {
		classes = append(classes, "undistributed-leftover")
	}
	if c.K > 0 {
		classes = append(classes, "k>0")
	}
	nt := nontrivial(c, f)
	kc := *c
	kc.Orders = nil
	kit.Eval(kit.HexKey(kc), nt, classes...)
	if nt && kit.WantSample() {
		kit.Sample(kc)
	}
}

func TestCheckSiblings(t *testing.T) {
	for _, domain := range []string{"grid", "free"} {
		b := kit.Budget{Quick: 120000, Thorough: 3000000}
		if domain == "free" {
			b = kit.Budget{Quick: 60000, Thorough: 1500000}
		}
		kit.Run(t, b, func(t *rapid.T) {
			c := genCase(t, domain)
			sig, msg, f := judge(c)
			record(c, f)
			if sig != "" {
				path := kit.Violation(prop, sig, msg, c, nil)
				t.Fatalf("VIOLATION %s: %s (%s)", sig, msg, path)
			}
		})
	}
}

// ---------------------------------------------------------------------------------------------
// hierarchy (law 7): children divide their parent's fair share, through the plugin's own recursion

func genTree(t *rapid.T) *Case {
	c := &Case{Domain: "tree"}
	c.K = []float64{0, 0, 1}[rapid.IntRange(0, 2).Draw(t, "k")]
	c.Total = genGridAmount(t, "total", 1, false)
	nTop := rapid.IntRange(1, 3).Draw(t, "nTop")
	id := 0
	var add func(parent string, depth int)
	add = func(parent string, depth int) {
		q := Q{Name: fmt.Sprintf("q%d", id), Parent: parent, Created: rapid.IntRange(0, 3).Draw(t, "created")}
		id++
		q.Priority = rapid.IntRange(0, 1).Draw(t, "prio")
		q.Deserved = genGridAmount(t, "d", 1, true)
		q.Limit = -1
		if rapid.IntRange(0, 2).Draw(t, "limited") == 0 {
			q.Limit = genGridAmount(t, "l", 1, true)
		}
		q.Weight = []float64{0, 1, 1, 2, 3}[rapid.IntRange(0, 4).Draw(t, "w")]
		idx := len(c.Queues)
		c.Queues = append(c.Queues, q)
		kids := 0
		if depth < 3 && id < 12 {
			kids = rapid.IntRange(0, 3).Draw(t, "kids")
		}
		if kids == 0 {
			c.Queues[idx].Request = genGridAmount(t, "r", 1, false)
			return
		}
		first := len(c.Queues)
		for k := 0; k < kids; k++ {
			add(q.Name, depth+1)
		}
		// a parent's request is the sum over its sub-tree (as the plugin accumulates it)
		for j := first; j < len(c.Queues); j++ {
			if c.Queues[j].Parent == q.Name {
				c.Queues[idx].Request += c.Queues[j].Request
			}
		}
	}
	for i := 0; i < nTop; i++ {
		add("", 1)
	}
	for k := 0; k < 4; k++ {
		c.Orders = append(c.Orders, rapid.Permutation(iota(len(c.Queues))).Draw(t, "order"))
	}
	return c
}

func judgeTree(c *Case) (string, string, bool) {
	var first []float64
	multi := false
	for _, order := range c.Orders {
		m := c.build(order)
		proportion.VerifSetFairShare(rs.NewResourceQuantities(c.Total, c.Total, c.Total), c.K, m)
		fs := make([]float64, len(c.Queues))
		for i, q := range c.Queues {
			fs[i] = m[common_info.QueueID(q.Name)].GPU.FairShare
		}
		// every sibling group obeys the laws with total := parent's fair share
		groups := map[string][]int{}
		for i, q := range c.Queues {
			groups[q.Parent] = append(groups[q.Parent], i)
		}
		names := make([]string, 0, len(groups))
		for p := range groups {
			names = append(names, p)
		}
		sort.Strings(names)
		for _, p := range names {
			idxs := groups[p]
			total := c.Total
			if p != "" {
				for i, q := range c.Queues {
					if q.Name == p {
						total = fs[i]
					}
				}
				if len(idxs) >= 2 {
					multi = true
				}
			}
			qs := make([]Q, len(idxs))
			sub := make([]float64, len(idxs))
			sumFS, sumG := 0.0, 0.0
			for k, i := range idxs {
				qs[k], sub[k] = c.Queues[i], fs[i]
				sumFS += fs[i]
				sumG += guaranteed(c.Queues[i], total)
			}
			if s, msg, _ := checkLaws(c, qs, total, sub, true); s != "" {
				return "law7-" + s, fmt.Sprintf("children of %q (parent fair share %v): %s | fair shares %v", p, total, msg, sub), multi
			}
			if sumFS > math.Max(total, sumG)+1e-9*math.Max(1, total) {
				return "law7-children-exceed-parent", fmt.Sprintf("children of %q sum to %v > parent's fair share %v (guaranteed parts %v)", p, sumFS, total, sumG), multi
			}
		}
		if first == nil {
			first = fs
		} else {
			for i := range fs {
				if math.Abs(fs[i]-first[i]) > 1e-6*math.Max(1, c.Total) {
					return "law8-order-dependent", fmt.Sprintf("tree: queue %s fair share %v vs %v under another enumeration order", c.Queues[i].Name, first[i], fs[i]), multi
				}
			}
		}
	}
	return "", "", multi
}

func TestCheckTree(t *testing.T) {
	kit.Run(t, kit.Budget{Quick: 20000, Thorough: 400000}, func(t *rapid.T) {
		c := genTree(t)
		sig, msg, multi := judgeTree(c)
		kc := *c
		kc.Orders = nil
		kit.Eval(kit.HexKey(kc), multi, "domain:tree", fmt.Sprintf("tree-queues:%d", len(c.Queues)))
		if multi && kit.WantSample() && len(c.Queues) <= 6 {
			kit.Sample(kc)
		}
		if sig != "" {
			path := kit.Violation(prop, sig, msg, c, nil)
			t.Fatalf("VIOLATION %s: %s (%s)", sig, msg, path)
		}
	})
}

// ---------------------------------------------------------------------------------------------
// replay (library-free path)

func TestReplay(t *testing.T) {
	kit.ReplayMain(t, func(rf *kit.ReplayFile) kit.ReplayResult {
		var c Case
		if err := json.Unmarshal(rf.Case, &c); err != nil {
			t.Fatalf("bad case: %v", err)
		}
		res := kit.ReplayResult{}
		// the enumeration order inside the division is Go's map order: sample it repeatedly
		for r := 0; r < 40; r++ {
			var sig, msg string
			if c.Domain == "tree" {
				sig, msg, _ = judgeTree(&c)
			} else {
				sig, msg, _ = judge(&c)
			}
			res.Runs++
			if sig != "" {
				res.Bad++
				res.Violated, res.Signature, res.Message = true, sig, msg
			}
		}
		return res
	})
}
