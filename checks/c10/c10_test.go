package c10

import (
	"encoding/json"
	"fmt"
	"os"
	"strings"
	"testing"
	"time"

	"pgregory.net/rapid"

	"github.com/NVIDIA/KAI-scheduler/zz_verif/sim"
	kit "github.com/NVIDIA/KAI-scheduler/zz_verif/verifkit"
)

const prop = "C10"

func TestMain(m *testing.M) { kit.Main(m) }

func profile() sim.Profile {
	pf := sim.DefaultProfile()
	pf.MaxGroups = 6
	pf.PTopology = 3
	pf.PSubGroups = 3
	pf.PFaults = 0
	pf.PDRA = 4
	pf.PSharing = 4
	pf.PBinding = 3
	pf.PMutations = 0
	pf.MinCycles = 1
	pf.MaxCycles = 2
	pf.PPersistent = 0 // hostile objects (NaN quotas ...) never compare equal between informer and store
	return pf
}

type Case struct {
	World   *sim.World `json:"world"`
	Hostile []string   `json:"hostile"`
}

func gen(t *rapid.T) *Case {
	w := sim.GenWorld(t, profile())
	applied := sim.Hostilize(t, w)
	applied = append(applied, sim.HostilizeRaw(t, w)...)
	sim.AddWitness(w)
	return &Case{World: w, Hostile: applied}
}

// judge: the cycle terminates without panic and the witness pod is bound in the first cycle.
func judge(c *Case) (sig, msg string, h *sim.History) {
	h = sim.Run(c.World, &sim.Options{CycleTimeout: 20 * time.Second})
	for _, rec := range h.Cycles {
		if rec.Hung {
			return "hang", fmt.Sprintf("cycle %d did not terminate (%s); hostile objects: %v", rec.Index, rec.HangKind, c.Hostile), h
		}
		if rec.Panic != "" {
			first := rec.Panic
			if i := strings.Index(first, "\n"); i > 0 {
				first = first[:i]
			}
			return "panic:" + firstFrame(rec.Panic), fmt.Sprintf("cycle %d panicked: %s; hostile objects: %v\n%s", rec.Index, first, c.Hostile, rec.Panic), h
		}
	}
	rec := h.Cycles[0]
	if rec.OpenErr != "" {
		return "session-open-failed", fmt.Sprintf("OpenSession failed, nothing is scheduled in this cycle: %s; hostile objects: %v", rec.OpenErr, c.Hostile), h
	}
	for _, call := range rec.Calls {
		if call.Kind == "bind" && call.Pod == sim.WitnessPod && call.Err == "" {
			return "", "", h
		}
	}
	return "healthy-workload-not-scheduled", fmt.Sprintf("the healthy witness workload (own root queue, own node) was not bound in cycle 0; hostile objects: %v; calls: %v", c.Hostile, sim.TraceStrings(rec.Calls)), h
}

// firstFrame names the first repository frame of a panic stack, to tell root causes apart.
func firstFrame(stack string) string {
	lines := strings.Split(stack, "\n")
	seenPanic := false
	for _, l := range lines {
		if strings.HasPrefix(l, "panic(") {
			seenPanic = true
			continue
		}
		if seenPanic && strings.HasPrefix(l, "github.com/NVIDIA/KAI-scheduler/pkg/") {
			f := strings.TrimPrefix(l, "github.com/NVIDIA/KAI-scheduler/pkg/")
			if i := strings.Index(f, "("); i > 0 {
				f = f[:i]
			}
			return f
		}
	}
	return "unknown"
}

func TestCheckCycleCompletes(t *testing.T) {
	kit.Run(t, kit.Budget{Quick: 6000, Thorough: 300000}, func(t *rapid.T) {
		c := gen(t)
		sig, msg, h := judge(c)
		classes := append([]string{}, c.Hostile...)
		for i, cl := range classes {
			if strings.HasPrefix(cl, "raw:") {
				if parts := strings.SplitN(cl, ":", 3); len(parts) >= 2 {
					classes[i] = "raw:" + parts[1]
				}
			} else if j := strings.Index(cl, ":"); j > 0 {
				classes[i] = cl[:j]
			}
		}
		kit.Eval(kit.HexKey(c), len(c.Hostile) > 0, classes...)
		if kit.WantSample() {
			kit.Sample(map[string]any{"hostile": c.Hostile, "world": c.World, "calls_cycle0": sim.TraceStrings(h.Cycles[0].Calls)})
		}
		if sig != "" && !kit.Known(prop, sig) {
			path := kit.Violation(prop, sig, msg, c, sim.Traces(h))
			if sig == "hang" {
				// a spinning scheduler goroutine cannot be cancelled: no in-process shrinking, leave at once
				fmt.Printf("VIOLATION %s: %s (%s)\n", sig, msg, path)
				kit.Flush()
				os.Exit(1)
			}
			t.Fatalf("VIOLATION %s: %s (%s)", sig, msg, path)
		}
	})
}

func TestReplay(t *testing.T) {
	kit.ReplayMain(t, func(rf *kit.ReplayFile) kit.ReplayResult {
		var c Case
		if err := json.Unmarshal(rf.Case, &c); err != nil {
			t.Fatalf("bad case: %v", err)
		}
		res := kit.ReplayResult{}
		for r := 0; r < 5; r++ {
			sig, msg, _ := judge(&c)
			res.Runs++
			if sig != "" {
				res.Bad++
				res.Violated, res.Signature, res.Message = true, sig, msg
				if sig == "hang" {
					break
				}
			}
		}
		return res
	})
}
