package c11

import (
	"fmt"
	"testing"

	"sigs.k8s.io/controller-runtime/pkg/client"
	"k8s.io/apimachinery/pkg/runtime"

	sim "github.com/NVIDIA/KAI-scheduler/zz_verif/bindersim"
	kit "github.com/NVIDIA/KAI-scheduler/zz_verif/verifkit"
)

func TestMain(m *testing.M) { kit.Main(m) }

func TestCheckSmoke(t *testing.T) {
	for _, kind := range []string{"whole", "fraction", "multi"} {
		ps := sim.PodShape{Name: "p", NS: "ns", Kind: kind, Fraction: "0.5", Devices: 2, Containers: 2, Claims: 1}
		rs := sim.ReqShape{Node: "n0", Portion: "0.5"}
		if ps.Sharing() {
			rs.Groups = []string{"g1"}
			if ps.Multi() {
				rs.Groups = []string{"g1", "g2"}
			}
		}
		objs := []client.Object{sim.BuildNode("n0"), sim.BuildPod(ps), sim.BuildRequest(ps, rs)}
		s := sim.New(objs, []runtime.Object{sim.BuildClaim(ps, 0)})
		p := s.NewProc()
		s.Begin(0, nil)
		res, err, pn := p.Reconcile("ns", "p")
		fmt.Println(kind, res, err, pn)
		for _, c := range s.TakeCalls() {
			fmt.Println("  ", c)
		}
		sn := s.Snapshot()
		fmt.Printf("  %+v\n", *sn)
	}
}
