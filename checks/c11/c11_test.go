// Check C11 — "Binding is all-or-nothing under any API failure or crash point".
//
// Engine E3 (kit/bindersim): the real BindRequestReconciler, binding.Binder, resource-reservation
// service and binder plugins (k8s-plugins wrapper with the DRA plugin, gpusharing) over an
// interceptable API store. For every generated input the fault-free reconcile is traced and then
// every client call k is failed (error-at-k), crashed (fail-stop-at-k) or, for watches, muted; pairs
// (first fault, later fault) are enumerated exhaustively when there are at most maxPairs of them.
package c11

import (
	"context"
	"encoding/json"
	"fmt"
	"sort"
	"strings"
	"testing"

	v1 "k8s.io/api/core/v1"
	resourceapi "k8s.io/api/resource/v1"
	metav1 "k8s.io/apimachinery/pkg/apis/meta/v1"
	"k8s.io/apimachinery/pkg/runtime"
	"k8s.io/apimachinery/pkg/types"
	"pgregory.net/rapid"
	"sigs.k8s.io/controller-runtime/pkg/client"

	schedulingv1alpha2 "github.com/NVIDIA/KAI-scheduler/pkg/apis/scheduling/v1alpha2"
	"github.com/NVIDIA/KAI-scheduler/pkg/common/constants"
	sim "github.com/NVIDIA/KAI-scheduler/zz_verif/bindersim"
	kit "github.com/NVIDIA/KAI-scheduler/zz_verif/verifkit"
)

const prop = "C11"
const maxPairs = 400    // up to this many (first fault, later fault) pairs per input are executed exhaustively
const samplePairs = 200 // beyond it, this many drawn pairs are executed (the rest is counted)

func TestMain(m *testing.M) { kit.Main(m) }

// ---------------------------------------------------------------------------------------------
// case

// Pre is the state of the store before the reconcile, beyond pod + request + nodes.
type Pre struct {
	GroupExists []bool `json:"groupExists,omitempty"` // per selected group: a reservation pod and a running consumer exist
	ConfigMaps  string `json:"configMaps,omitempty"`  // "" | both | capOnly | foreign | stale
	Labelled    string `json:"labelled,omitempty"`    // "" | same (labels of this request from an earlier attempt) | stale (labels of another group)
	Bound       string `json:"bound,omitempty"`       // "" | this | other
	OtherGroups int    `json:"otherGroups,omitempty"` // unrelated healthy groups on the selected node
	Orphan      bool   `json:"orphan,omitempty"`      // an unrelated reservation pod without consumer on the selected node
	ClaimShared bool   `json:"claimShared,omitempty"` // DRA: claims are already allocated and reserved for another pod
	Gone        string `json:"gone,omitempty"`        // "" | node | pod : the selected node / the pod no longer exists
}

type Case struct {
	Pod         sim.PodShape `json:"pod"`
	Req         sim.ReqShape `json:"req"`
	Pre         Pre          `json:"pre"`
	CDI         bool         `json:"cdi,omitempty"`
	IndexPolicy string       `json:"indexPolicy,omitempty"`
	Faults      []sim.Fault  `json:"faults,omitempty"`         // the faulted reconcile's plan (empty: fault-free)
	Recovery    []sim.Fault  `json:"recoveryFaults,omitempty"` // faults of the Sync() that follows (after a crash: the start-up sync)
}

const (
	node0 = "n0"
	node1 = "n1"
)

func otherGroup(i int) string { return fmt.Sprintf("og%d", i) }

// world renders the case into API objects.
func (c *Case) world() ([]client.Object, []runtime.Object) {
	var objs []client.Object
	var kube []runtime.Object
	if c.Pre.Gone != "node" {
		objs = append(objs, sim.BuildNode(node0))
	}
	objs = append(objs, sim.BuildNode(node1))
	pod := sim.BuildPod(c.Pod)
	switch c.Pre.Bound {
	case "this":
		pod.Spec.NodeName = c.Req.Node
	case "other":
		pod.Spec.NodeName = node1
	}
	usedIdx := 2
	mkConsumer := func(name, group string, multi bool) *v1.Pod {
		ps := sim.PodShape{Name: name, NS: "other", Kind: "fraction", Fraction: "0.25", Containers: 1}
		if multi {
			ps.Kind, ps.Devices = "multi", 2
		}
		p := sim.BuildPod(ps)
		p.Spec.NodeName = c.Req.Node
		p.Status.Phase = v1.PodRunning
		if multi {
			p.Labels[constants.MultiGpuGroupLabelPrefix+group] = group
		} else {
			p.Labels[constants.GPUGroup] = group
		}
		return p
	}
	if c.Pod.Sharing() {
		for i, g := range c.Req.Groups {
			if i < len(c.Pre.GroupExists) && c.Pre.GroupExists[i] {
				objs = append(objs, sim.BuildReservationPod(c.Req.Node, g, usedIdx), mkConsumer("consumer-"+g, g, i%2 == 1))
				usedIdx += 2
			}
		}
		switch c.Pre.Labelled {
		case "same":
			for _, g := range c.Req.Groups {
				if c.Pod.Multi() {
					pod.Labels[constants.MultiGpuGroupLabelPrefix+g] = g
				} else {
					pod.Labels[constants.GPUGroup] = g
				}
			}
		case "stale":
			g := "gstale"
			if c.Pod.Multi() {
				pod.Labels[constants.MultiGpuGroupLabelPrefix+g] = g
			} else {
				pod.Labels[constants.GPUGroup] = g
			}
			objs = append(objs, sim.BuildReservationPod(c.Req.Node, g, usedIdx))
			usedIdx += 2
		}
		mkCM := func(name string, owner types.UID, data map[string]string) *v1.ConfigMap {
			return &v1.ConfigMap{TypeMeta: metav1.TypeMeta{Kind: "ConfigMap", APIVersion: "v1"},
				ObjectMeta: metav1.ObjectMeta{Name: name, Namespace: c.Pod.NS,
					OwnerReferences: []metav1.OwnerReference{{APIVersion: "v1", Kind: "Pod", Name: c.Pod.Name, UID: owner}}},
				Data: data}
		}
		switch c.Pre.ConfigMaps {
		case "both":
			objs = append(objs, mkCM(c.Pod.CapabilitiesCM(), pod.UID, map[string]string{}), mkCM(c.Pod.EnvCM(), pod.UID, map[string]string{}))
		case "capOnly":
			objs = append(objs, mkCM(c.Pod.CapabilitiesCM(), pod.UID, nil))
		case "foreign":
			objs = append(objs, mkCM(c.Pod.CapabilitiesCM(), "uid-previous-incarnation", map[string]string{"NVIDIA_VISIBLE_DEVICES": "7", "GPU_PORTION": "0.9"}),
				mkCM(c.Pod.EnvCM(), "uid-previous-incarnation", map[string]string{"NVIDIA_VISIBLE_DEVICES": "7"}))
		case "stale":
			objs = append(objs, mkCM(c.Pod.CapabilitiesCM(), pod.UID, map[string]string{"NVIDIA_VISIBLE_DEVICES": "7", "GPU_PORTION": "0.9", "RUNAI_NUM_OF_GPUS": "0.9"}),
				mkCM(c.Pod.EnvCM(), pod.UID, map[string]string{"NVIDIA_VISIBLE_DEVICES": "7"}))
		}
	}
	for i := 0; i < c.Pre.OtherGroups; i++ {
		g := otherGroup(i)
		objs = append(objs, sim.BuildReservationPod(c.Req.Node, g, usedIdx), mkConsumer("consumer-"+g, g, i%2 == 1))
		usedIdx += 2
	}
	if c.Pre.Orphan {
		objs = append(objs, sim.BuildReservationPod(c.Req.Node, "gorphan", 1))
	}
	if c.Pre.Gone != "pod" {
		objs = append(objs, pod)
	}
	objs = append(objs, sim.BuildRequest(c.Pod, c.Req))
	for i := 0; i < c.Pod.Claims; i++ {
		cl := sim.BuildClaim(c.Pod, i)
		if c.Pre.ClaimShared {
			cl.Status.Allocation = &resourceapi.AllocationResult{}
			cl.Status.ReservedFor = []resourceapi.ResourceClaimConsumerReference{{Resource: "pods", Name: "someone-else", UID: "uid-someone-else"}}
		}
		kube = append(kube, cl)
	}
	return objs, kube
}

// ---------------------------------------------------------------------------------------------
// generator

func genCase(t *rapid.T) *Case {
	c := &Case{}
	ps := sim.PodShape{Name: "p", NS: "ns"}
	ps.Kind = []string{"whole", "cpu", "fraction", "memory", "multi", "multimem"}[sim.Weighted(t, "kind", 12, 4, 32, 10, 32, 10)]
	ps.Containers = 1 + sim.Weighted(t, "containers", 5, 3, 2)
	ps.Inits = sim.Weighted(t, "inits", 6, 3, 1)
	ps.Owner = sim.Chance(t, 50, "owner")
	switch ps.Kind {
	case "whole":
		ps.WholeGPUs = 1 + sim.Uniform(t, 2, "wholeGPUs")
	case "fraction", "multi":
		ps.Fraction = sim.Pick(t, "fraction", "0.5", "0.25", "0.1", "0.75")
	case "memory", "multimem":
		ps.MemoryMiB = sim.Pick(t, "memory", 2000, 4096, 500)
	}
	if ps.Multi() {
		ps.Devices = 2 + sim.Weighted(t, "devices", 7, 3)
	}
	if ps.Sharing() && sim.Chance(t, 40, "namedCtr") {
		names := []string{}
		for i := 0; i < ps.Containers; i++ {
			names = append(names, fmt.Sprintf("c%d", i))
		}
		for i := 0; i < ps.Inits; i++ {
			names = append(names, fmt.Sprintf("i%d", i))
		}
		ps.FracCtr = names[sim.Uniform(t, len(names), "fracCtr")]
	}
	if ps.Sharing() {
		ps.LegacyEnv = sim.Chance(t, 10, "legacyEnv")
	}
	ps.Claims = sim.Weighted(t, "claims", 70, 20, 10)
	if ps.Claims > 0 {
		ps.ClaimTmpl = sim.Chance(t, 30, "claimTmpl")
		c.Pre.ClaimShared = sim.Chance(t, 30, "claimShared")
	}
	c.Pod = ps

	rs := sim.ReqShape{Node: node0}
	if ps.Sharing() {
		n := 1
		if ps.Multi() {
			n = ps.Devices
		}
		pool := []string{"ga", "gb", "gc", "gd"}
		off := sim.Uniform(t, 4, "groupOff")
		for i := 0; i < n; i++ {
			rs.Groups = append(rs.Groups, pool[(off+i)%4])
		}
		rs.Portion = ps.Fraction
		if rs.Portion == "" {
			rs.Portion = sim.Pick(t, "memPortion", "0.125", "0.25", "0.05")
		}
	}
	switch sim.Weighted(t, "backoff", 4, 1, 2, 2, 1) {
	case 1:
		rs.Backoff = ptr(1)
	case 2:
		rs.Backoff = ptr(2)
	case 3:
		rs.Backoff = ptr(3)
	case 4:
		rs.Backoff = ptr(5)
	}
	switch sim.Weighted(t, "phase", 72, 20, 8) {
	case 0:
		rs.Phase = "Pending"
	case 1:
		// an earlier attempt failed and the request may still be retried: attempts < limit (a request whose attempts
		// are used up is the scheduler's to delete - bindrequest_info.IsFailed - and belongs to C12)
		rs.Phase = "Failed"
		if rs.Backoff == nil || *rs.Backoff < 2 {
			rs.Backoff = ptr(int32(2 + sim.Uniform(t, 3, "backoffForFailed")))
		}
		rs.Attempts = 1 + int32(sim.Uniform(t, int(*rs.Backoff)-1, "attempts"))
	case 2:
		rs.Phase = "Succeeded"
	}
	c.Req = rs

	if ps.Sharing() {
		for range rs.Groups {
			c.Pre.GroupExists = append(c.Pre.GroupExists, sim.Chance(t, 45, "groupExists"))
		}
		c.Pre.ConfigMaps = []string{"", "both", "capOnly", "foreign", "stale"}[sim.Weighted(t, "cms", 50, 20, 8, 10, 12)]
		c.Pre.Labelled = []string{"", "same", "stale"}[sim.Weighted(t, "labelled", 65, 25, 10)]
		if c.Pre.Labelled == "stale" && ps.Multi() {
			// labels of an abandoned request with other groups are not an intermediate state of this request
			// (see NOTES.md, "not covered"); for single-fraction pods the label is simply overwritten
			c.Pre.Labelled = "same"
		}
	}
	c.Pre.Bound = []string{"", "this", "other"}[sim.Weighted(t, "bound", 86, 7, 7)]
	c.Pre.Gone = []string{"", "node", "pod"}[sim.Weighted(t, "gone", 92, 4, 4)]
	c.Pre.OtherGroups = sim.Weighted(t, "otherGroups", 5, 3, 2)
	c.Pre.Orphan = sim.Chance(t, 25, "orphan")
	c.CDI = sim.Chance(t, 20, "cdi")
	c.IndexPolicy = sim.Pick(t, "indexPolicy", "lowest", "rotating")
	return c
}

func ptr(v int32) *int32 { return &v }

// ---------------------------------------------------------------------------------------------
// execution

// Trace is what one execution of a case produced (saved next to a violating case).
type Trace struct {
	Faulted  []string      `json:"faultedReconcile"`
	Recovery []string      `json:"recovery,omitempty"`
	Retry    []string      `json:"retry,omitempty"`
	Initial  *sim.Snapshot `json:"initial,omitempty"`
	After    *sim.Snapshot `json:"afterFaultedReconcile,omitempty"`
	Synced   *sim.Snapshot `json:"afterSync,omitempty"`
	Final    *sim.Snapshot `json:"final,omitempty"`
	Err      string        `json:"reconcileError,omitempty"`
	Marks    []string      `json:"marks,omitempty"`
	Bindings []sim.BindRec `json:"bindings,omitempty"`
}

type outcome struct {
	sig, msg   string
	calls      []sim.Call // faulted reconcile
	recovery   []sim.Call // first Sync() after it
	crashed    bool
	nontrivial bool
	classes    []string
	trace      *Trace
}

func strs(cs []sim.Call) []string {
	out := make([]string, len(cs))
	for i, c := range cs {
		out[i] = c.String()
	}
	return out
}

func podKey(c *Case) string { return c.Pod.NS + "/" + c.Pod.Name }

// bindable: the initial state is one from which a reconcile is supposed to bind the pod.
func (c *Case) bindable() bool {
	return c.Pre.Bound == "" && c.Req.Phase != "Succeeded" && c.Pre.Gone == ""
}

func execute(c *Case) *outcome {
	o := &outcome{trace: &Trace{}}
	objs, kube := c.world()
	s := sim.New(objs, kube)
	s.CDI, s.IndexPolicy = c.CDI, c.IndexPolicy
	proc := s.NewProc()
	s0 := s.Snapshot()
	o.trace.Initial = s0
	fail := func(sig, format string, a ...any) *outcome {
		if o.sig == "" {
			o.sig, o.msg = sig, fmt.Sprintf(format, a...)
		}
		return o
	}

	// 1. the (faulted) reconcile
	s.Begin(0, c.Faults)
	_, err, pn := proc.Reconcile(c.Pod.NS, c.Pod.Name)
	o.calls = s.TakeCalls()
	marks := s.TakeMarks()
	o.trace.Faulted = strs(o.calls)
	o.trace.Marks = marks
	if err != nil {
		o.trace.Err = err.Error()
	}
	o.crashed = s.Crashed()
	s1 := s.Snapshot()
	o.trace.After = s1
	defer func() { o.trace.Bindings = s.Bindings() }()
	if pn != "" {
		return fail("panic", "reconcile panicked: %s", pn)
	}
	fi := analyse(c, o.calls)
	o.nontrivial = fi.partialEffect

	// never: bound twice / to another node / any effect on a finished request
	if sig, msg := checkNever(c, s, s0, s1, o.calls); sig != "" {
		return fail(sig, "%s", msg)
	}
	if !c.bindable() {
		return o
	}

	// 2. recovery: restart after a crash, and the sync that follows
	if o.crashed {
		s.Restart()
		proc = s.NewProc()
	}
	s.Begin(0, c.Recovery)
	syncErr := proc.RRS.Sync(context.Background())
	rec := s.TakeCalls()
	o.recovery = rec
	if len(c.Recovery) > 0 {
		// the recovery itself was hit: restart once more if it crashed; the next, fault-free sync is the one that counts
		if s.Crashed() {
			s.Restart()
			proc = s.NewProc()
		}
		s.Begin(0, nil)
		syncErr = proc.RRS.Sync(context.Background())
		rec = append(rec, s.TakeCalls()...)
	}
	o.trace.Recovery = strs(rec)
	if syncErr != nil {
		return fail("sync-fails", "fault-free Sync() after the faulted reconcile fails: %v", syncErr)
	}
	s2 := s.Snapshot()
	o.trace.Synced = s2

	pod1 := s1.Pods[podKey(c)]
	if pod1.Node != "" {
		// (A) must hold already: bound with side objects in place (status may lag if its patch was the failed call)
		if sig, msg := checkBoundState(c, s, s0, s1, false); sig != "" {
			return fail("A-"+sig, "after the faulted reconcile the pod is bound but %s", msg)
		}
		if sig, msg := checkBoundState(c, s, s0, s2, false); sig != "" {
			return fail("A-after-sync-"+sig, "after the faulted reconcile and a Sync() the pod is bound but %s", msg)
		}
		req := s1.Requests[podKey(c)]
		if !o.crashed && !fi.statusPatchFaulted && req.Phase != "Succeeded" {
			return fail("bound-not-succeeded", "pod is bound but the stored request is %q (reason %q) although the status update was not the failed call", req.Phase, req.Reason)
		}
	} else {
		// (B) unbound
		if sig, msg := checkUnboundState(c, s0, s1, s2, o, fi); sig != "" {
			return fail("B-"+sig, "%s", msg)
		}
	}
	if sig, msg := checkBystanders(c, s0, s2); sig != "" {
		return fail(sig, "%s", msg)
	}

	// 3. a later fault-free attempt succeeds. If the request is terminally Failed by now (phase Failed and no
	// BackoffLimit or the persisted attempts reached it - what the scheduler reads as "give up":
	// bindrequest_info.IsFailed, cache.cleanStaleBindRequest), the later attempt is the scheduler's: it deletes the
	// request (delete event delivered) and creates a new one for the still pending pod.
	if r := s2.Requests[podKey(c)]; r.Exists && r.Phase == "Failed" && (c.Req.Backoff == nil || r.Attempts >= *c.Req.Backoff) && s2.Pods[podKey(c)].Node == "" {
		old := &schedulingv1alpha2.BindRequest{}
		if err := s.Base.Get(context.Background(), client.ObjectKey{Namespace: c.Pod.NS, Name: c.Pod.Name}, old); err == nil {
			_ = s.Base.Delete(context.Background(), old.DeepCopy())
			s.Begin(0, nil)
			proc.RequestDeleted(old)
			o.trace.Recovery = append(o.trace.Recovery, "-- scheduler drops the terminally failed request and creates a new one --")
			o.trace.Recovery = append(o.trace.Recovery, strs(s.TakeCalls())...)
			fresh := c.Req
			fresh.Phase, fresh.Attempts = "Pending", 0
			if err := s.Base.Create(context.Background(), sim.BuildRequest(c.Pod, fresh)); err != nil {
				return fail("harness", "cannot create the replacement request: %v", err)
			}
			o.classes = append(o.classes, "request-replaced-by-scheduler")
		}
	}
	s.Begin(0, nil)
	_, err, pn = proc.Reconcile(c.Pod.NS, c.Pod.Name)
	retry := s.TakeCalls()
	o.trace.Retry = strs(retry)
	s3 := s.Snapshot()
	o.trace.Final = s3
	if pn != "" {
		return fail("retry-panic", "fault-free retry panicked: %s", pn)
	}
	if err != nil {
		return fail("retry-fails", "fault-free reconcile from the reached state fails: %v", err)
	}
	if sig, msg := checkBoundState(c, s, s0, s3, true); sig != "" {
		return fail("retry-"+sig, "after a fault-free retry from the reached state %s", msg)
	}
	if sig, msg := checkBystanders(c, s0, s3); sig != "" {
		return fail("retry-"+sig, "%s", msg)
	}
	if sig, msg := checkBindings(c, s); sig != "" {
		return fail(sig, "%s", msg)
	}

	// 4. the request is Succeeded now: one more reconcile is a no-op
	s.Begin(0, nil)
	_, err, pn = proc.Reconcile(c.Pod.NS, c.Pod.Name)
	again := s.TakeCalls()
	if pn != "" || err != nil {
		return fail("noop-fails", "reconcile of the Succeeded request fails: %v %s", err, pn)
	}
	for _, cl := range again {
		if cl.Mut {
			return fail("succeeded-not-noop", "the request is Succeeded and its pod bound, but another reconcile made a mutating call: %s", cl)
		}
	}
	return o
}

// faultInfo is what the trace of the faulted reconcile says about where the faults hit.
type faultInfo struct {
	partialEffect      bool // a mutating call had succeeded before the first fault hit, and the fault hit before the last mutating call was through
	firstPhase         string
	reqGetFaulted      bool // the reconciler could not read the request
	statusPatchFaulted bool
	rollbackFaults     []sim.Call // injected failures that hit the clean-up: inside Rollback, or any fault after the first
	rollbackRan        bool
	bindFaultSeen      bool // an injected failure (or mute) hit before / inside Bind
	injected           int
}

func analyse(c *Case, calls []sim.Call) faultInfo {
	fi := faultInfo{}
	mutBefore := false
	first := true
	for _, cl := range calls {
		if cl.Phase == "rollback" {
			fi.rollbackRan = true
		}
		if cl.Injected != "" && cl.Injected != "crashed" {
			fi.injected++
			if first {
				first = false
				fi.firstPhase = cl.Phase
				fi.partialEffect = mutBefore && !(cl.Verb == "sub-patch" && cl.Kind == "Pod") && !(cl.Verb == "sub-patch" && cl.Kind == "BindRequest")
			}
			if cl.Verb == "get" && cl.Kind == "BindRequest" {
				fi.reqGetFaulted = true
			}
			if cl.Verb == "sub-patch" && cl.Kind == "BindRequest" && cl.Sub == "status" {
				fi.statusPatchFaulted = true
			}
			if cl.Phase == "rollback" || fi.injected > 1 {
				// a fault that hits the clean-up (Rollback, or Bind's own error handling after the first fault)
				fi.rollbackFaults = append(fi.rollbackFaults, cl)
			} else if !(cl.Verb == "sub-patch") {
				fi.bindFaultSeen = true
			}
		} else if cl.Mut && cl.Err == "" {
			mutBefore = true
		}
	}
	return fi
}

// checkNever: clauses that hold whatever happened.
func checkNever(c *Case, s *sim.Sim, s0, s1 *sim.Snapshot, calls []sim.Call) (string, string) {
	p0, p1 := s0.Pods[podKey(c)], s1.Pods[podKey(c)]
	if p0.Node != "" && p1.Node != p0.Node {
		return "rebound", fmt.Sprintf("pod was bound to %q and is now on %q", p0.Node, p1.Node)
	}
	if p1.Node != "" && p0.Node == "" && p1.Node != c.Req.Node {
		return "wrong-node", fmt.Sprintf("pod bound to %q, request names %q", p1.Node, c.Req.Node)
	}
	for _, b := range s.Bindings() {
		if b.Pod != podKey(c) {
			return "foreign-binding", fmt.Sprintf("binding of another pod: %+v", b)
		}
		if b.Before != "" {
			return "second-binding", fmt.Sprintf("a pods/binding was sent for a pod that is already assigned to %q: %+v", b.Before, b)
		}
		if b.Node != c.Req.Node {
			return "wrong-node", fmt.Sprintf("pods/binding names node %q, request names %q", b.Node, c.Req.Node)
		}
	}
	if c.Req.Phase == "Succeeded" {
		for _, cl := range calls {
			if cl.Mut {
				return "succeeded-not-noop", fmt.Sprintf("request already Succeeded but the reconcile made a mutating call: %s", cl)
			}
		}
	}
	if c.Pre.Gone != "" && c.Req.Phase != "Succeeded" && c.Pre.Bound == "" {
		// nothing to bind (to): no effect but the report, and the report must be Failed unless it could not be made
		for _, cl := range calls {
			if cl.Mut && !(cl.Verb == "sub-patch" && cl.Sub == "status") {
				return "gone-not-noop", fmt.Sprintf("the %s is gone but the reconcile made a mutating call other than a status update: %s", c.Pre.Gone, cl)
			}
		}
		fi := analyse(c, calls)
		if r := s1.Requests[podKey(c)]; fi.injected == 0 && (r.Phase != "Failed" || r.Reason == "") {
			return "gone-not-reported", fmt.Sprintf("the %s is gone; request is phase=%q reason=%q, want Failed with a reason", c.Pre.Gone, r.Phase, r.Reason)
		}
	}
	if c.Pre.Bound != "" && c.Req.Phase != "Succeeded" {
		for _, cl := range calls {
			if cl.Mut && !(cl.Verb == "sub-patch" && cl.Sub == "status") {
				return "bound-not-noop", fmt.Sprintf("pod already bound but the reconcile made a mutating call other than a status update: %s", cl)
			}
		}
	}
	if !c.bindable() {
		// nothing but statuses may differ
		a, _ := json.Marshal(stripStatus(s0))
		b, _ := json.Marshal(stripStatus(s1))
		if string(a) != string(b) {
			return "noop-changed-state", fmt.Sprintf("no-op reconcile changed the store: %s -> %s", a, b)
		}
	}
	return "", ""
}

func stripStatus(sn *sim.Snapshot) *sim.Snapshot {
	cp := *sn
	cp.Requests = nil
	return &cp
}

// checkBindings: across the whole history exactly one successful binding, to the requested node.
func checkBindings(c *Case, s *sim.Sim) (string, string) {
	ok := 0
	for _, b := range s.Bindings() {
		if b.OK {
			ok++
		}
	}
	if ok != 1 {
		return "binding-count", fmt.Sprintf("%d successful pods/binding calls in the history, want exactly 1: %+v", ok, s.Bindings())
	}
	return "", ""
}

// effectiveEnv is a kubelet model: what the container would see from its env / envFrom ConfigMaps.
func effectiveEnv(pod *v1.Pod, ctr *v1.Container, sn *sim.Snapshot) (map[string]string, []string) {
	env := map[string]string{}
	var missing []string
	for _, ef := range ctr.EnvFrom {
		if ef.ConfigMapRef == nil {
			continue
		}
		d, ok := sn.ConfigMaps[pod.Namespace+"/"+ef.ConfigMapRef.Name]
		if !ok {
			if ef.ConfigMapRef.Optional == nil || !*ef.ConfigMapRef.Optional {
				missing = append(missing, ef.ConfigMapRef.Name)
			}
			continue
		}
		for k, v := range d {
			env[k] = v
		}
	}
	for _, e := range ctr.Env {
		if e.ValueFrom == nil {
			env[e.Name] = e.Value
			continue
		}
		if r := e.ValueFrom.ConfigMapKeyRef; r != nil {
			d, ok := sn.ConfigMaps[pod.Namespace+"/"+r.Name]
			if !ok {
				if r.Optional == nil || !*r.Optional {
					missing = append(missing, r.Name)
				}
				continue
			}
			if v, ok := d[r.Key]; ok {
				env[e.Name] = v
			} else if r.Optional == nil || !*r.Optional {
				// kubelet: a missing key of a non-optional reference is a container start error
				if e.Name == constants.NvidiaVisibleDevices || e.Name == "GPU_PORTION" {
					missing = append(missing, r.Name+"["+r.Key+"]")
				}
			}
		}
	}
	return env, missing
}

func fractionContainer(c *Case, pod *v1.Pod) *v1.Container {
	name := c.Pod.FracCtr
	if name == "" {
		return &pod.Spec.Containers[0]
	}
	for i := range pod.Spec.InitContainers {
		if pod.Spec.InitContainers[i].Name == name {
			return &pod.Spec.InitContainers[i]
		}
	}
	for i := range pod.Spec.Containers {
		if pod.Spec.Containers[i].Name == name {
			return &pod.Spec.Containers[i]
		}
	}
	return nil
}

// checkBoundState is clause (A): the pod is bound to exactly the requested node with its side
// objects in place. final additionally demands the request to be Succeeded.
func checkBoundState(c *Case, s *sim.Sim, s0, sn *sim.Snapshot, final bool) (string, string) {
	p := sn.Pods[podKey(c)]
	if p.Node != c.Req.Node {
		return "not-bound", fmt.Sprintf("the pod is on node %q, want %q", p.Node, c.Req.Node)
	}
	wantType := "Regular"
	if c.Pod.Sharing() {
		wantType = "Fraction"
	}
	if got := p.Ann[constants.ReceivedResourceType]; got != wantType {
		return "received-type", fmt.Sprintf("annotation %s is %q, want %q", constants.ReceivedResourceType, got, wantType)
	}
	if final {
		if r := sn.Requests[podKey(c)]; r.Phase != "Succeeded" {
			return "request-not-succeeded", fmt.Sprintf("the request is %q (%s), want Succeeded", r.Phase, r.Reason)
		}
	}
	for i := 0; i < c.Pod.Claims; i++ {
		cv, ok := sn.Claims[c.Pod.NS+"/"+c.Pod.ClaimName(i)]
		n := 0
		for _, u := range cv.ReservedFor {
			if u == p.UID {
				n++
			}
		}
		if !ok || n != 1 || !cv.Allocated {
			return "claim", fmt.Sprintf("claim %s: reservedFor=%v allocated=%v, want the pod exactly once and an allocation", c.Pod.ClaimName(i), cv.ReservedFor, cv.Allocated)
		}
	}
	if !c.Pod.Sharing() {
		if len(p.Groups) != 0 {
			return "labels", fmt.Sprintf("whole-GPU / CPU pod carries GPU groups %v", p.Groups)
		}
		return "", ""
	}
	want := append([]string(nil), c.Req.Groups...)
	sort.Strings(want)
	if strings.Join(p.Groups, ",") != strings.Join(want, ",") || len(p.BadLabels) > 0 {
		return "labels", fmt.Sprintf("the pod carries GPU groups %v (single=%q multi=%v bad=%v), request selected %v", p.Groups, p.Single, p.Multi, p.BadLabels, c.Req.Groups)
	}
	if c.Pod.Multi() && p.Single != "" || !c.Pod.Multi() && len(p.Multi) > 0 {
		return "labels-form", fmt.Sprintf("wrong label form: single=%q multi=%v for kind %s", p.Single, p.Multi, c.Pod.Kind)
	}
	var idx []string
	for _, g := range c.Req.Groups {
		rs := sn.ReservationsOf(g)
		if len(rs) != 1 {
			return "reservation", fmt.Sprintf("group %s has %d reservation pods, want 1: %+v", g, len(rs), rs)
		}
		if rs[0].Node != c.Req.Node || rs[0].Index == "" {
			return "reservation", fmt.Sprintf("reservation pod of group %s: %+v, want node %s and a GPU index", g, rs[0], c.Req.Node)
		}
		if old := s0.ReservationsOf(g); len(old) == 1 && len(s0.LiveCarriersExcept(g, podKey(c))) > 0 && (old[0].Name != rs[0].Name || old[0].Index != rs[0].Index) {
			return "reservation-replaced", fmt.Sprintf("group %s had reservation %+v with running consumers, now %+v", g, old[0], rs[0])
		}
		v := rs[0].Index
		if c.CDI {
			v = "k8s.device-plugin.nvidia.com/gpu=" + v
		}
		idx = append(idx, v)
	}
	stored := &v1.Pod{}
	if err := s.Base.Get(context.Background(), client.ObjectKey{Namespace: c.Pod.NS, Name: c.Pod.Name}, stored); err != nil {
		return "pod-gone", err.Error()
	}
	ctr := fractionContainer(c, stored)
	if ctr == nil {
		return "container", "fraction container not found"
	}
	env, missing := effectiveEnv(stored, ctr, sn)
	if len(missing) > 0 {
		return "configmap-missing", fmt.Sprintf("the fraction container references ConfigMaps that do not exist / lack the key: %v", missing)
	}
	if got, want := env[constants.NvidiaVisibleDevices], strings.Join(idx, ","); got != want {
		return "visible-devices", fmt.Sprintf("the fraction container would see NVIDIA_VISIBLE_DEVICES=%q, the reservation pods of %v hold %q", got, c.Req.Groups, want)
	}
	if got := env["GPU_PORTION"]; got != c.Req.Portion {
		return "portion", fmt.Sprintf("the fraction container would see GPU_PORTION=%q, request says %q", got, c.Req.Portion)
	}
	return "", ""
}

// checkUnboundState is clause (B): unbound, reported Failed, side effects removed / removable.
func checkUnboundState(c *Case, s0, s1, s2 *sim.Snapshot, o *outcome, fi faultInfo) (string, string) {
	key := podKey(c)
	req := s1.Requests[key]
	if fi.injected == 0 {
		return "fails-without-fault", fmt.Sprintf("fault-free reconcile leaves the pod unbound (error %q, request %s: %s)", o.trace.Err, req.Phase, req.Reason)
	}
	if !o.crashed {
		switch {
		case !req.Exists:
			return "request-gone", "the request disappeared"
		case fi.reqGetFaulted || fi.statusPatchFaulted:
			// the failure cannot be reported through a call that itself failed / on a request that could not be read
		case req.Phase != "Failed" || req.Reason == "":
			return "not-reported-failed", fmt.Sprintf("pod unbound after a failed attempt (error %q) but the stored request is phase=%q reason=%q", o.trace.Err, req.Phase, req.Reason)
		}
	} else if req.Phase == "Succeeded" {
		return "succeeded-unbound", "the request is Succeeded but the pod is unbound"
	}
	p2 := s2.Pods[key]
	p0 := s0.Pods[key]
	// what may legitimately remain, by the kind of call a fault inside Rollback hit
	labelsMayStay, cmMayStay, claimsMayStay := o.crashed, map[string]bool{}, o.crashed
	for _, f := range fi.rollbackFaults {
		switch {
		case f.Kind == "resourceclaims":
			claimsMayStay = true
		case f.Kind == "Pod" && f.Verb == "patch":
			labelsMayStay = true
		case f.Kind == "ConfigMap":
			cmMayStay[f.Key] = true
		}
	}
	if !labelsMayStay {
		for _, g := range p2.Groups {
			if !contains(p0.Groups, g) {
				return "label-left", fmt.Sprintf("the failed attempt's GPU-group label %q is still on the unbound pod after rollback and Sync() (labels now %v, before %v)", g, p2.Groups, p0.Groups)
			}
		}
	}
	if !o.crashed {
		for _, name := range []string{c.Pod.NS + "/" + c.Pod.CapabilitiesCM(), c.Pod.NS + "/" + c.Pod.EnvCM()} {
			if _, had := s0.ConfigMaps[name]; had || cmMayStay[name] || !c.Pod.Sharing() {
				continue
			}
			if _, has := s2.ConfigMaps[name]; has {
				return "configmap-left", fmt.Sprintf("ConfigMap %s created by the failed attempt still exists after rollback and Sync()", name)
			}
		}
	}
	// reservation pods: after the sync none may be without a live carrier, and none created by the attempt
	// may remain unless the pod still (legitimately) carries its group
	for _, r := range s2.Reservations {
		if len(s2.LiveCarriers(r.Group)) == 0 {
			return "orphan-reservation", fmt.Sprintf("reservation pod %+v has no live consumer after the failed attempt and a Sync()", r)
		}
	}
	for i := 0; i < c.Pod.Claims && !claimsMayStay; i++ {
		cv := s2.Claims[c.Pod.NS+"/"+c.Pod.ClaimName(i)]
		if contains(cv.ReservedFor, p2.UID) {
			return "claim-left", fmt.Sprintf("claim %s is still reserved for the unbound pod after the failed attempt (reservedFor=%v allocated=%v)", c.Pod.ClaimName(i), cv.ReservedFor, cv.Allocated)
		}
	}
	return "", ""
}

// checkBystanders: groups with live consumers other than the pod keep their reservation pod and
// index, their consumers keep their labels and are not deleted.
func checkBystanders(c *Case, s0, sn *sim.Snapshot) (string, string) {
	for _, g := range s0.AllGroups() {
		carriers := s0.LiveCarriersExcept(g, podKey(c))
		if len(carriers) == 0 {
			continue
		}
		old, now := s0.ReservationsOf(g), sn.ReservationsOf(g)
		if len(old) != 1 {
			continue
		}
		if len(now) != 1 || now[0].Name != old[0].Name || now[0].Index != old[0].Index {
			return "bystander-reservation", fmt.Sprintf("group %s has running consumers %v; its reservation was %+v and is now %+v", g, carriers, old, now)
		}
		for _, k := range carriers {
			q, ok := sn.Pods[k]
			if !ok || !contains(q.Groups, g) {
				return "bystander-pod", fmt.Sprintf("consumer %s of group %s was deleted or lost its label", k, g)
			}
		}
	}
	return "", ""
}

func contains(xs []string, x string) bool {
	for _, y := range xs {
		if y == x {
			return true
		}
	}
	return false
}

// ---------------------------------------------------------------------------------------------
// the property

func classesOf(c *Case, o *outcome, mode string) []string {
	cl := append([]string{"kind:" + c.Pod.Kind, "mode:" + mode}, o.classes...)
	add := func(b bool, s string) {
		if b {
			cl = append(cl, s)
		}
	}
	add(c.Pod.Claims > 0, "dra")
	add(c.Pod.FracCtr != "", "named-container")
	add(strings.HasPrefix(c.Pod.FracCtr, "i"), "init-fraction-container")
	add(c.Pod.LegacyEnv, "legacy-env")
	add(c.Pre.Bound != "", "pre:bound-"+c.Pre.Bound)
	add(c.Pre.Gone != "", "pre:gone-"+c.Pre.Gone)
	add(c.Req.Phase != "Pending", "pre:req-"+c.Req.Phase)
	add(c.Pre.Labelled != "", "pre:labelled-"+c.Pre.Labelled)
	add(c.Pre.ConfigMaps != "", "pre:cm-"+c.Pre.ConfigMaps)
	add(c.Req.Backoff != nil, "backoff-limit")
	for _, e := range c.Pre.GroupExists {
		if e {
			add(true, "pre:group-exists")
			break
		}
	}
	add(o.crashed, "crashed")
	add(o.nontrivial, "partial-effect")
	if o.trace != nil && o.trace.After != nil {
		p := o.trace.After.Pods[podKey(c)]
		if c.bindable() {
			add(p.Node != "", "end:bound")
			add(p.Node == "", "end:unbound")
		} else {
			add(true, "end:noop")
		}
	}
	fi := analyse(c, o.calls)
	add(len(fi.rollbackFaults) > 0, "fault-in-rollback")
	add(fi.rollbackRan, "rollback-ran")
	return cl
}

func report(t *rapid.T, c *Case, o *outcome) {
	path := kit.Violation(prop, o.sig, o.msg, c, o.trace)
	t.Fatalf("VIOLATION %s: %s (%s)", o.sig, o.msg, path)
}

func modeOf(fs []sim.Fault) string {
	if len(fs) == 0 {
		return "fault-free"
	}
	parts := []string{}
	for _, f := range fs {
		parts = append(parts, f.Mode)
	}
	return strings.Join(parts, "+")
}

func runOne(t *rapid.T, c *Case, faults []sim.Fault, recovery ...sim.Fault) *outcome {
	cc := *c
	cc.Faults = faults
	cc.Recovery = recovery
	o := execute(&cc)
	mode := modeOf(faults)
	if len(recovery) > 0 {
		mode += "/recovery-" + recovery[0].Mode
	}
	kit.Eval(kit.HexKey(&cc), o.nontrivial, classesOf(&cc, o, mode)...)
	if o.sig != "" && len(faults) > 0 && faults[0].Mode == "lost" {
		// outside the fixed fault model (a failing call applies nothing): recorded, never an alarm
		kit.Note("observation:lost-reply:"+o.sig, 1)
		return o
	}
	if o.sig != "" && kit.Known(prop, o.sig) {
		// a finding listed under "known" in /verif/known_findings.json: counted, the search goes on
		return o
	}
	if o.sig != "" {
		report(t, &cc, o)
	}
	if o.nontrivial && len(faults) > 0 && kit.WantSample() {
		kit.Sample(map[string]any{"case": &cc, "faultedReconcile": o.trace.Faulted, "recovery": o.trace.Recovery})
	}
	return o
}

func TestCheckAllOrNothing(t *testing.T) {
	kit.Run(t, kit.Budget{Quick: 112, Thorough: 2400}, func(t *rapid.T) {
		c := genCase(t)
		base := runOne(t, c, nil)
		n := len(base.calls)
		errKinds := []string{"internal", "conflict", "timeout", "unavailable"}
		type single struct {
			f sim.Fault
			l int
		}
		var firsts, crashes []single
		for k := 1; k <= n; k++ {
			ek := errKinds[sim.Uniform(t, len(errKinds), "errKind")]
			o := runOne(t, c, []sim.Fault{{K: k, Mode: "error", Err: ek}})
			firsts = append(firsts, single{sim.Fault{K: k, Mode: "error", Err: ek}, len(o.calls)})
			if base.calls[k-1].Mut {
				runOne(t, c, []sim.Fault{{K: k, Mode: "lost"}})
			}
			oc := runOne(t, c, []sim.Fault{{K: k, Mode: "crash"}})
			crashes = append(crashes, single{sim.Fault{K: k, Mode: "crash"}, len(oc.recovery)})
			if base.calls[k-1].Verb == "watch" {
				for _, mk := range []string{"closed", "errorevent"} {
					o := runOne(t, c, []sim.Fault{{K: k, Mode: "mute", Err: mk}})
					firsts = append(firsts, single{sim.Fault{K: k, Mode: "mute", Err: mk}, len(o.calls)})
				}
			}
		}
		if !c.bindable() {
			return
		}
		// pairs: a second fault at any later call of the run the first fault produced
		// ... or, after a crash, at any call of the start-up Sync()
		type pair struct {
			a, b     sim.Fault
			recovery bool
		}
		var pairs []pair
		for _, f := range firsts {
			for j := f.f.K + 1; j <= f.l; j++ {
				pairs = append(pairs, pair{a: f.f, b: sim.Fault{K: j, Mode: "error", Err: "internal"}}, pair{a: f.f, b: sim.Fault{K: j, Mode: "crash"}})
			}
		}
		for _, f := range crashes {
			for j := 1; j <= f.l; j++ {
				pairs = append(pairs, pair{a: f.f, b: sim.Fault{K: j, Mode: "error", Err: "internal"}, recovery: true}, pair{a: f.f, b: sim.Fault{K: j, Mode: "crash"}, recovery: true})
			}
		}
		if len(pairs) > maxPairs {
			kit.Note("pair-sets-sampled", 1)
			kit.Note("pairs-not-executed", int64(len(pairs)-samplePairs))
			// fair sample without replacement (partial Fisher-Yates on rapid draws)
			for i := 0; i < samplePairs; i++ {
				j := i + sim.Uniform(t, len(pairs)-i, "pairPick")
				pairs[i], pairs[j] = pairs[j], pairs[i]
			}
			pairs = pairs[:samplePairs]
		} else {
			kit.Note("pair-sets-exhaustive", 1)
		}
		for _, p := range pairs {
			if p.recovery {
				runOne(t, c, []sim.Fault{p.a}, p.b)
			} else {
				runOne(t, c, []sim.Fault{p.a, p.b})
			}
		}
	})
}

func TestReplay(t *testing.T) {
	kit.ReplayMain(t, func(rf *kit.ReplayFile) kit.ReplayResult {
		var c Case
		if err := json.Unmarshal(rf.Case, &c); err != nil {
			t.Fatalf("bad case: %v", err)
		}
		res := kit.ReplayResult{}
		for i := 0; i < 10; i++ {
			o := execute(&c)
			res.Runs++
			if o.sig != "" {
				res.Bad++
				if !res.Violated {
					res.Violated, res.Signature, res.Message = true, o.sig, o.msg
				}
			}
		}
		return res
	})
}
