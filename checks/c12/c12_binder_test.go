// Binder half of C12: "The binder retries a failing request at most BackoffLimit times with the attempt
// count persisted, after which the request is observably failed to the scheduler."
//
// Engine E3 (kit/bindersim): the real BindRequestReconciler / Binder / reservation service / plugins over the
// interceptable store. A generated request (BackoffLimit nil/0/1..5, pre-existing failedAttempts) goes
// through a drawn history of reconciles, re-deliveries and restarts; attempts fail through a persistent
// cause (the node rejects bindings, the reservation pod never reports, the fraction container does not
// exist) and/or through injected API errors / crashes at drawn calls. A small controller model says
// which reconciles the controller owes (returned error, RequeueAfter, the update event of its own status
// patch, restart); the oracle looks at the BindRequest in the store and at the calls each reconcile made.
package c12

import (
	"context"
	"encoding/json"
	"fmt"
	"os"
	"path/filepath"
	"sort"
	"strings"
	"testing"

	"k8s.io/apimachinery/pkg/runtime"
	"pgregory.net/rapid"
	"sigs.k8s.io/controller-runtime/pkg/client"

	bsim "github.com/NVIDIA/KAI-scheduler/zz_verif/bindersim"
	kit "github.com/NVIDIA/KAI-scheduler/zz_verif/verifkit"
)

// BinderStep is one event of the history.
//
//	reconcile  the controller runs a reconcile it owes (queued by the model); skipped if none is owed
//	redeliver  a reconcile nobody owes: resync, duplicate event, a watch re-list (at-least-once delivery)
//	restart    the binder process restarts (new objects, Sync()), every existing request is reconciled
type BinderStep struct {
	Kind   string       `json:"kind"`
	Faults []bsim.Fault `json:"faults,omitempty"`
	Heal   bool         `json:"heal,omitempty"` // the persistent cause goes away before this step
}

type BinderCase struct {
	BinderCase  bool          `json:"binderCase"` // marks the replay file as belonging to this test
	Pod         bsim.PodShape `json:"pod"`
	Groups      []string      `json:"groups,omitempty"`
	Backoff     *int32        `json:"backoffLimit"`
	PreAttempts int32         `json:"preFailedAttempts,omitempty"`
	Cause       string        `json:"cause"` // none | binding-rejected | reservation-mute | bad-container
	Steps       []BinderStep  `json:"steps"`
}

const c12Node = "n0"

func genBinderCase(t *rapid.T) *BinderCase {
	c := &BinderCase{BinderCase: true}
	ps := bsim.PodShape{Name: "p", NS: "ns", Containers: 1 + bsim.Uniform(t, 2, "containers")}
	ps.Kind = []string{"whole", "fraction", "multi"}[bsim.Weighted(t, "kind", 3, 5, 2)]
	switch ps.Kind {
	case "whole":
		ps.WholeGPUs = 1
	case "fraction":
		ps.Fraction = "0.5"
		c.Groups = []string{"ga"}
	case "multi":
		ps.Fraction, ps.Devices = "0.25", 2
		c.Groups = []string{"ga", "gb"}
	}
	switch bsim.Weighted(t, "backoff", 3, 1, 2, 2, 2, 1) {
	case 1:
		c.Backoff = p32(0)
	case 2:
		c.Backoff = p32(1)
	case 3:
		c.Backoff = p32(2)
	case 4:
		c.Backoff = p32(3)
	case 5:
		c.Backoff = p32(5)
	}
	if c.Backoff != nil && *c.Backoff > 1 && bsim.Chance(t, 25, "preAttempts") {
		c.PreAttempts = 1 + int32(bsim.Uniform(t, int(*c.Backoff)-1, "preAttemptsN"))
	}
	causes := []string{"none", "binding-rejected"}
	if ps.Sharing() {
		causes = append(causes, "reservation-mute", "bad-container")
	}
	c.Cause = causes[bsim.Uniform(t, len(causes), "cause")]
	if c.Cause == "bad-container" {
		ps.FracCtr = "" // set after admission, see world()
	}
	c.Pod = ps
	n := 3 + bsim.Uniform(t, 10, "nSteps")
	healed := c.Cause == "none"
	for i := 0; i < n; i++ {
		st := BinderStep{Kind: []string{"reconcile", "redeliver", "restart"}[bsim.Weighted(t, "stepKind", 6, 3, 1)]}
		if !healed && i > 1 && bsim.Chance(t, 12, "heal") {
			st.Heal, healed = true, true
		}
		if bsim.Chance(t, map[bool]int{true: 45, false: 15}[c.Cause == "none"], "hasFault") {
			f := bsim.Fault{K: 1 + bsim.Uniform(t, 24, "faultK"), Mode: bsim.Pick(t, "faultMode", "error", "error", "error", "crash")}
			if f.Mode == "error" {
				f.Err = bsim.Pick(t, "errKind", "internal", "timeout", "unavailable", "conflict")
			}
			st.Faults = []bsim.Fault{f}
		}
		c.Steps = append(c.Steps, st)
	}
	return c
}

func p32(v int32) *int32 { return &v }

func (c *BinderCase) world() ([]client.Object, []runtime.Object) {
	pod := bsim.BuildPod(c.Pod)
	if c.Cause == "bad-container" {
		// the annotation names a container the pod does not have (the pod was edited after admission / admitted by
		// a version that did not validate it): every PreBind fails after the GPU reservation was made
		pod.Annotations["gpu-fraction-container-name"] = "no-such-container"
	}
	rs := bsim.ReqShape{Node: c12Node, Groups: c.Groups, Portion: c.Pod.Fraction, Backoff: c.Backoff}
	if c.PreAttempts > 0 {
		rs.Phase, rs.Attempts = "Failed", c.PreAttempts
	}
	return []client.Object{bsim.BuildNode(c12Node), pod, bsim.BuildRequest(c.Pod, rs)}, nil
}

func (c *BinderCase) rules() []bsim.Rule {
	switch c.Cause {
	case "binding-rejected":
		return []bsim.Rule{{Verb: "sub-create", Sub: "binding", Mode: "error", Err: "internal"}}
	case "reservation-mute":
		return []bsim.Rule{{Verb: "watch", Mode: "mute", Err: "closed"}}
	}
	return nil
}

// BinderObs is what one reconcile of the history did and left behind (saved with a violating case).
type BinderObs struct {
	Step        string   `json:"step"`
	Owed        bool     `json:"owed"`
	Calls       []string `json:"calls,omitempty"`
	BindEntered bool     `json:"bindEntered"`
	BindMutated bool     `json:"bindMutated"` // the attempt reached a mutating call
	Err         string   `json:"err,omitempty"`
	Requeue     string   `json:"requeueAfter,omitempty"`
	Crashed     bool     `json:"crashed,omitempty"`
	StatusFault bool     `json:"statusPatchFaulted,omitempty"`
	ReqFault    bool     `json:"requestGetFaulted,omitempty"`
	Exists      bool     `json:"requestExists"`
	Phase       string   `json:"phase"`
	Attempts    int32    `json:"failedAttempts"`
	Reason      string   `json:"reason,omitempty"`
	PodNode     string   `json:"podNode,omitempty"`
}

// terminal is the scheduler's reading of the request (bindrequest_info.IsFailed): phase Failed and no limit
// or the persisted attempts reached it. From then on the scheduler deletes the request and reschedules the pod.
func terminal(phase string, attempts int32, limit *int32) bool {
	return phase == "Failed" && (limit == nil || attempts >= *limit)
}

func judgeBinder(c *BinderCase) (sig, msg string, trace []BinderObs, classes []string, nontrivial bool) {
	objs, kube := c.world()
	s := bsim.New(objs, kube)
	s.Rules = c.rules()
	proc := s.NewProc()
	cls := map[string]bool{}
	defer func() {
		for k := range cls {
			classes = append(classes, k)
		}
	}()
	fail := func(sg, format string, a ...any) (string, string, []BinderObs, []string, bool) {
		return sg, fmt.Sprintf(format, a...), trace, nil, nontrivial
	}
	key := c.Pod.NS + "/" + c.Pod.Name
	limitStr := "nil"
	if c.Backoff != nil {
		limitStr = fmt.Sprint(*c.Backoff)
	}
	cls["limit:"+limitStr] = true
	cls["cause:"+c.Cause] = true
	cls["kind:"+c.Pod.Kind] = true

	owed := true // the create event
	prev := s.Snapshot().Requests[key]
	wasTerminal := terminal(prev.Phase, prev.Attempts, c.Backoff)
	succeeded := false
	prevNode := s.Snapshot().Pods[key].Node
	reported := int32(0) // failed attempts whose failure could be reported (no crash, status patch and request read not hit)
	failedRuns := 0
	for si, st := range c.Steps {
		if st.Heal {
			s.Rules = nil
			cls["cause-healed"] = true
		}
		kind := st.Kind
		if kind == "reconcile" && !owed {
			cls["skipped:not-owed"] = true
			continue
		}
		if kind == "restart" {
			s.Restart()
			proc = s.NewProc()
			s.Begin(0, nil)
			if err := proc.RRS.Sync(context.Background()); err != nil && len(s.Rules) == 0 {
				return fail("binder-sync-fails", "step %d: fault-free start-up Sync() fails: %v", si, err)
			}
			s.TakeCalls()
			s.TakeMarks()
		}
		cls["step:"+kind] = true
		wasOwed := owed || kind == "restart"
		s.Begin(0, st.Faults)
		res, err, pn := proc.Reconcile(c.Pod.NS, c.Pod.Name)
		calls := s.TakeCalls()
		marks := s.TakeMarks()
		o := BinderObs{Step: fmt.Sprintf("%d:%s", si, kind), Owed: wasOwed, Crashed: s.Crashed()}
		for _, cl := range calls {
			o.Calls = append(o.Calls, cl.String())
			if cl.Phase == "bind" && cl.Mut && cl.Injected != "crashed" {
				o.BindMutated = true
			}
			if cl.Injected != "" && cl.Injected != "crashed" {
				if cl.Verb == "sub-patch" && cl.Kind == "BindRequest" {
					o.StatusFault = true
				}
				if cl.Verb == "get" && cl.Kind == "BindRequest" {
					o.ReqFault = true
				}
			}
		}
		for _, m := range marks {
			if m == "bind-ok" || m == "bind-failed" {
				o.BindEntered = true
			}
		}
		if err != nil {
			o.Err = err.Error()
		}
		if res.RequeueAfter > 0 {
			o.Requeue = res.RequeueAfter.String()
		}
		if pn != "" {
			trace = append(trace, o)
			return fail("binder-panic", "step %d: reconcile panicked: %s", si, pn)
		}
		if o.Crashed {
			// the process is gone; it comes back, syncs and reconciles everything it finds
			cls["crash"] = true
			s.Restart()
			proc = s.NewProc()
			s.Begin(0, nil)
			_ = proc.RRS.Sync(context.Background())
			s.TakeCalls()
			s.TakeMarks()
		}
		sn := s.Snapshot()
		cur := sn.Requests[key]
		o.Exists, o.Phase, o.Attempts, o.Reason = cur.Exists, cur.Phase, cur.Attempts, cur.Reason
		o.PodNode = sn.Pods[key].Node
		trace = append(trace, o)

		// ---- clauses ------------------------------------------------------------------------------
		if !cur.Exists {
			return fail("binder-request-deleted", "step %d: the BindRequest disappeared; only the scheduler deletes requests (cache.cleanStaleBindRequest)", si)
		}
		// (c) exhausted / (d) succeeded: nothing but a no-op from then on
		if wasTerminal && o.BindEntered {
			nontrivial = true
			return fail("binder-bind-after-terminal", "step %d (%s): the stored request was terminally Failed (phase Failed, failedAttempts=%d, backoffLimit=%s: what the scheduler reads as 'give up, delete, reschedule the pod') and the binder made another bind attempt (mutating call reached: %v)", si, kind, prev.Attempts, limitStr, o.BindMutated)
		}
		if succeeded {
			for _, cl := range calls {
				if cl.Mut {
					return fail("binder-succeeded-not-noop", "step %d: the request is Succeeded but a reconcile made a mutating call: %s", si, cl)
				}
			}
			if cur.Phase != "Succeeded" {
				return fail("binder-succeeded-lost", "step %d: the request was Succeeded and is now %q", si, cur.Phase)
			}
		}
		// (b) the persisted count is monotone, moves by at most one per reconcile, never passes the limit
		if cur.Attempts < prev.Attempts {
			return fail("binder-attempts-decreased", "step %d: stored failedAttempts went from %d to %d", si, prev.Attempts, cur.Attempts)
		}
		if cur.Attempts > prev.Attempts+1 {
			return fail("binder-attempts-jumped", "step %d: stored failedAttempts went from %d to %d in one reconcile", si, prev.Attempts, cur.Attempts)
		}
		if c.Backoff != nil && cur.Attempts > max32(*c.Backoff, c.PreAttempts) {
			return fail("binder-attempts-over-limit", "step %d: stored failedAttempts=%d exceeds backoffLimit=%d", si, cur.Attempts, *c.Backoff)
		}
		bound := o.PodNode != ""
		// A reconcile that fails before it has read the pod (the read of the pod or an earlier call failed) cannot
		// know that an earlier reconcile, whose status write was lost, already bound the pod: the controller counts
		// and reports it like any failed attempt, and the next reconcile that does read the pod ends in Succeeded
		// (unless the count is used up, where the scheduler deletes the request of a pod it sees bound).
		blind := bound && prevNode != "" && err != nil && !o.BindEntered
		attemptFailed := !succeeded && ((!bound && (err != nil || contains(marks, "bind-failed"))) || blind)
		if blind {
			cls["failed-before-reading-already-bound-pod"] = true
		}
		canReport := !o.Crashed && !o.StatusFault && !o.ReqFault
		if attemptFailed {
			failedRuns++
			if o.BindMutated {
				nontrivial = nontrivial || failedRuns >= 2
			}
		}
		if attemptFailed && canReport {
			reported++
			// ... and a failed attempt that can report is reported: phase Failed with a reason, and counted while the
			// count is below the limit ("the attempt count persisted"; the scheduler compares it with the limit)
			if cur.Phase != "Failed" || cur.Reason == "" {
				return fail("binder-failure-not-reported", "step %d: the attempt failed (%s) but the stored request is phase=%q reason=%q", si, o.Err, cur.Phase, cur.Reason)
			}
			if c.Backoff != nil && prev.Attempts < *c.Backoff && cur.Attempts != prev.Attempts+1 {
				nontrivial = true
				return fail("binder-attempt-not-persisted", "step %d (%s): failed attempt #%d of this history (%s); stored failedAttempts stays %d (backoffLimit %d): the count the scheduler compares with the limit does not advance", si, kind, failedRuns, o.Err, cur.Attempts, *c.Backoff)
			}
		}
		if !attemptFailed && cur.Attempts != prev.Attempts {
			return fail("binder-attempts-moved-without-failure", "step %d: no failed attempt but stored failedAttempts went from %d to %d", si, prev.Attempts, cur.Attempts)
		}
		// (d) success: bound pod, Succeeded (unless the status patch was the failed call), exactly one binding
		if bound && !succeeded {
			if canReport && !blind && !(wasTerminal && cur.Phase == "Failed") && cur.Phase != "Succeeded" {
				return fail("binder-bound-not-succeeded", "step %d: the pod is bound but the stored request is %q", si, cur.Phase)
			}
			if cur.Phase == "Succeeded" {
				succeeded = true
				cls["end:succeeded"] = true
			}
		}
		ok := 0
		for _, b := range s.Bindings() {
			if b.OK {
				ok++
			}
		}
		if ok > 1 {
			return fail("binder-bound-twice", "step %d: %d successful pods/binding calls", si, ok)
		}
		// liveness of the retry: a failed, non-terminal request must be owed another reconcile
		nowTerminal := terminal(cur.Phase, cur.Attempts, c.Backoff)
		statusChanged := cur.Phase != prev.Phase || cur.Attempts != prev.Attempts || cur.Reason != prev.Reason
		owed = !o.Crashed && (err != nil || res.RequeueAfter > 0 || res.Requeue || statusChanged)
		if o.Crashed {
			owed = true // the restarted process reconciles everything
		}
		if attemptFailed && !nowTerminal && !owed {
			return fail("binder-retry-dropped", "step %d: the attempt failed, the request is not terminal (failedAttempts=%d, backoffLimit=%s) and the controller is owed no further reconcile (no error returned, no RequeueAfter, no status change)", si, cur.Attempts, limitStr)
		}
		if nowTerminal && !wasTerminal {
			cls["end:terminal"] = true
		}
		wasTerminal = nowTerminal
		prev = cur
		prevNode = o.PodNode
	}
	if failedRuns >= 2 {
		cls["failed-attempts>=2"] = true
	}
	if reported >= 2 {
		cls["reported-failures>=2"] = true
	}
	return "", "", trace, nil, nontrivial
}

func max32(a, b int32) int32 {
	if a > b {
		return a
	}
	return b
}

func contains(xs []string, x string) bool {
	for _, y := range xs {
		if y == x {
			return true
		}
	}
	return false
}

func TestCheckBinderRetry(t *testing.T) {
	kit.Run(t, kit.Budget{Quick: 6000, Thorough: 120000}, func(t *rapid.T) {
		c := genBinderCase(t)
		sig, msg, trace, classes, nt := judgeBinder(c)
		kit.Eval(kit.HexKey(c), nt, append(classes, "binder-half")...)
		if sig != "" && kit.Known("C12", sig) {
			return
		}
		if sig != "" {
			path := kit.Violation("C12", sig, msg, c, trace)
			t.Fatalf("VIOLATION %s: %s (%s)", sig, msg, path)
		}
		if nt && kit.WantSample() {
			kit.Sample(c)
		}
	})
}

// IsBinderReplayFile tells whether the replay file at path holds a binder-half case.
func IsBinderReplayFile(path string) bool {
	if path == "" {
		return false
	}
	b, err := os.ReadFile(path)
	if err != nil {
		return false
	}
	var rf kit.ReplayFile
	if json.Unmarshal(b, &rf) != nil {
		return false
	}
	var probe struct {
		BinderCase bool `json:"binderCase"`
	}
	return json.Unmarshal(rf.Case, &probe) == nil && probe.BinderCase
}

// ReplayBinder re-executes a saved binder-half case; ok is false when the replay file is not one of this
// test's (the scheduler-half TestReplay then handles it).
func ReplayBinder(rf *kit.ReplayFile) (res kit.ReplayResult, ok bool) {
	if !strings.Contains(string(rf.Case), `"binderCase"`) {
		return res, false
	}
	var c BinderCase
	if err := json.Unmarshal(rf.Case, &c); err != nil || !c.BinderCase {
		return res, false
	}
	for i := 0; i < 5; i++ {
		sig, msg, _, _, _ := judgeBinder(&c)
		res.Runs++
		if sig != "" {
			res.Bad++
			if !res.Violated {
				res.Violated, res.Signature, res.Message = true, sig, msg
			}
		}
	}
	return res, true
}

// sentinels are the minimal shapes of the two findings of this half (checks/c12/NOTES-binder.md); they run
// before the search so that a regression is reported with the smallest possible case.
func binderSentinels() map[string]*BinderCase {
	whole := bsim.PodShape{Name: "p", NS: "ns", Kind: "whole", WholeGPUs: 1, Containers: 1}
	rec := BinderStep{Kind: "reconcile"}
	return map[string]*BinderCase{
		"attempt-count-not-persisted": {BinderCase: true, Pod: whole, Backoff: p32(3), Cause: "binding-rejected", Steps: []BinderStep{rec, rec, rec}},
		"bind-after-terminal-failure": {BinderCase: true, Pod: whole, Backoff: nil, Cause: "binding-rejected", Steps: []BinderStep{rec, rec}},
	}
}

func TestCheckBinderSentinels(t *testing.T) {
	if kit.GetEnv().Shard != 0 {
		t.Skip("sentinels run on shard 0 only")
	}
	for _, name := range []string{"attempt-count-not-persisted", "bind-after-terminal-failure"} {
		c := binderSentinels()[name]
		sig, msg, trace, classes, nt := judgeBinder(c)
		kit.Eval(kit.HexKey(c), nt, append(classes, "binder-half", "sentinel")...)
		if sig != "" && !kit.Known("C12", sig) {
			path := kit.Violation("C12", sig, msg, c, trace)
			t.Errorf("VIOLATION %s (%s): %s (%s)", sig, name, msg, path)
		}
	}
	// the binder half's regression replays (replays/C12-binder-*.json; the check runs with cwd /verif): they
	// are judged here as well, so that they are part of every run even where TestReplay only knows the
	// scheduler half's case format
	files, _ := filepath.Glob(filepath.Join("replays", "C12-binder-*.json"))
	sort.Strings(files)
	for _, f := range files {
		b, err := os.ReadFile(f)
		if err != nil {
			t.Errorf("read %s: %v", f, err)
			continue
		}
		var rf kit.ReplayFile
		if err := json.Unmarshal(b, &rf); err != nil {
			t.Errorf("parse %s: %v", f, err)
			continue
		}
		res, ok := ReplayBinder(&rf)
		if !ok {
			t.Errorf("%s is not a binder-half case", f)
			continue
		}
		kit.Class("binder-regression-replay")
		if res.Violated && !kit.Known("C12", res.Signature) {
			var c BinderCase
			_ = json.Unmarshal(rf.Case, &c)
			path := kit.Violation("C12", res.Signature, "regression replay "+f+": "+res.Message, &c, nil)
			t.Errorf("VIOLATION %s: regression replay %s violates: %s (%s)", res.Signature, f, res.Message, path)
		}
	}
}
