package c12

import (
	"testing"

	"pgregory.net/rapid"

	"github.com/NVIDIA/KAI-scheduler/zz_verif/sim"
	kit "github.com/NVIDIA/KAI-scheduler/zz_verif/verifkit"
)

func TestMain(m *testing.M) { kit.Main(m) }

func profile() sim.Profile {
	pf := sim.DefaultProfile()
	pf.MaxNodes = 4
	pf.MaxGroups = 8
	pf.PBinding = 5
	pf.PRunning = 4
	pf.PTerminating = 2
	pf.PFaults = 2
	pf.PPool = 0
	pf.PDRA = 3
	pf.MinCycles = 2
	pf.MaxCycles = 4
	return pf
}

func TestCheckHandoffScheduler(t *testing.T) {
	sim.CheckProperty(t, "C12", kit.Budget{Quick: 4000, Thorough: 200000},
		func(t *rapid.T) *sim.World { return sim.GenHandoffWorld(t, profile()) }, sim.JudgeHandoff)
}

// TestReplay re-executes a saved case: binder-half cases ("binderCase": true, c12_binder_test.go) through
// ReplayBinder, everything else through the scheduler half's judge.
func TestReplay(t *testing.T) {
	if IsBinderReplayFile(kit.GetEnv().Replay) {
		kit.ReplayMain(t, func(rf *kit.ReplayFile) kit.ReplayResult {
			res, _ := ReplayBinder(rf)
			return res
		})
		return
	}
	sim.ReplayProperty(t, sim.JudgeHandoff, 5)
}
