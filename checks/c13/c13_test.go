package c13

import (
	"testing"

	"pgregory.net/rapid"

	"github.com/NVIDIA/KAI-scheduler/zz_verif/sim"
	kit "github.com/NVIDIA/KAI-scheduler/zz_verif/verifkit"
)

func TestMain(m *testing.M) { kit.Main(m) }

func profile() sim.Profile {
	pf := sim.DefaultProfile()
	pf.MaxNodes = 3
	pf.MaxGroups = 8
	pf.PSharing = 4
	pf.PRunning = 7
	pf.PTerminating = 2
	pf.PBinding = 2
	pf.PFaults = 1
	pf.PSubGroups = 3
	pf.PTopology = 2
	pf.MaxCycles = 2
	pf.Contention = true
	pf.PDRA = 4
	return pf
}

func TestCheckStatements(t *testing.T) {
	sim.CheckProperty(t, "C13", kit.Budget{Quick: 3000, Thorough: 150000},
		func(t *rapid.T) *sim.World { return sim.GenWorld(t, profile()) }, sim.JudgeStatements)
}

func TestReplay(t *testing.T) { sim.ReplayProperty(t, sim.JudgeStatements, 5) }
