package c14

import (
	"testing"

	"pgregory.net/rapid"

	"github.com/NVIDIA/KAI-scheduler/zz_verif/sim"
	kit "github.com/NVIDIA/KAI-scheduler/zz_verif/verifkit"
)

func TestMain(m *testing.M) { kit.Main(m) }

func profile() sim.Profile {
	pf := sim.DefaultProfile()
	pf.MaxNodes = 3
	pf.MaxGroups = 8
	pf.PSharing = 5
	pf.PRunning = 7
	pf.PTerminating = 3
	pf.PBinding = 2
	pf.PFaults = 1
	pf.PMIG = 1
	pf.PSmallPodSlots = 2
	pf.MaxCycles = 3
	pf.Contention = true
	pf.PDRA = 3
	return pf
}

func TestCheckAccountingWholeCycles(t *testing.T) {
	sim.CheckProperty(t, "C14", kit.Budget{Quick: 3000, Thorough: 150000},
		func(t *rapid.T) *sim.World { return sim.GenWorld(t, profile()) }, sim.JudgeAccounting)
}

func TestReplay(t *testing.T) { sim.ReplayProperty(t, sim.JudgeAccounting, 10) }
