package c15

import (
	"testing"

	"pgregory.net/rapid"

	"github.com/NVIDIA/KAI-scheduler/zz_verif/sim"
	kit "github.com/NVIDIA/KAI-scheduler/zz_verif/verifkit"
)

func TestMain(m *testing.M) { kit.Main(m) }

// closed system: fixed nodes / queues / workloads, evicted pods are recreated pending, binds complete,
// terminating pods linger 0-1 cycles, min-runtime 0, no API faults; 10-24 cycles.
func profile() sim.Profile {
	pf := sim.DefaultProfile()
	pf.MaxNodes = 3
	pf.MaxGroups = 9
	pf.PRunning = 7
	pf.PTerminating = 0
	pf.PBinding = 0
	pf.PMinRuntime = 0
	pf.PFaults = 0
	pf.PMIG = 0
	pf.PTopology = 0
	pf.PConstraints = 1
	pf.PElastic = 4
	pf.PSharing = 3
	pf.PWholeGPU = 8
	pf.Contention = true
	pf.Saturated = true
	pf.Closed = true
	pf.MinCycles = 10
	pf.MaxCycles = 24
	pf.Actions = [][]string{nil, nil, {"allocate", "reclaim"}, {"allocate", "preempt"}, {"allocate", "consolidation", "reclaim", "preempt"}, {"allocate", "consolidation"}}
	return pf
}

func TestCheckNoEvictionLivelock(t *testing.T) {
	sim.CheckProperty(t, "C15", kit.Budget{Quick: 700, Thorough: 30000},
		func(t *rapid.T) *sim.World { return sim.GenWorld(t, profile()) }, sim.JudgeLivelock)
}

// exact ties between sibling queues (equal quota, equal weight, identical workloads), saturated, unequal holdings
func TestCheckTieFamilies(t *testing.T) {
	sim.CheckProperty(t, "C15", kit.Budget{Quick: 1500, Thorough: 60000}, sim.GenTieFamily, sim.JudgeLivelock)
}

// scattered idle GPUs, elastic workloads above their minimum with pods pending: consolidation is tempted every cycle
func TestCheckFragmentationFamilies(t *testing.T) {
	sim.CheckProperty(t, "C15", kit.Budget{Quick: 500, Thorough: 20000}, sim.GenFragmentationFamily, sim.JudgeLivelock)
}

func TestReplay(t *testing.T) { sim.ReplayProperty(t, sim.JudgeLivelock, 5) }
