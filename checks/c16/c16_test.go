package c16

import (
	"testing"

	"pgregory.net/rapid"

	"github.com/NVIDIA/KAI-scheduler/zz_verif/sim"
	kit "github.com/NVIDIA/KAI-scheduler/zz_verif/verifkit"
)

func TestMain(m *testing.M) { kit.Main(m) }

// allocate only; small clusters; competitors from other queues; families of identical workloads.
func profile() sim.Profile {
	pf := sim.DefaultProfile()
	pf.MaxNodes = 3
	pf.MaxGroups = 4
	pf.PRunning = 4
	pf.PTerminating = 2
	pf.PFaults = 0
	pf.PMIG = 0
	pf.PTopology = 0
	pf.PConstraints = 1
	pf.MinCycles = 1
	pf.MaxCycles = 3
	// a long-running scheduler process, and between cycles priority classes that appear or change, workloads that
	// are given another class, nodes that are cordoned / uncordoned: the order must follow the API state of the cycle
	pf.PPersistent = 6
	pf.PMutations = 5
	pf.MutationKinds = []string{"pc-set", "pg-priorityclass", "node-unschedulable"}
	pf.Actions = [][]string{{"allocate"}}
	pf.NoBindFailures = true
	return pf
}

func gen(t *rapid.T) *sim.World {
	w := sim.GenWorld(t, profile())
	sim.AddFamilies(t, w, profile())
	return w
}

func TestCheckPriorityThenFIFO(t *testing.T) {
	sim.CheckProperty(t, "C16", kit.Budget{Quick: 8000, Thorough: 400000}, gen, sim.JudgeOrder)
}

func TestReplay(t *testing.T) { sim.ReplayProperty(t, sim.JudgeOrder, 20) }
