// Check C17 — "GPU reservation pods track shared-GPU usage exactly".
//
// Engine E3 (kit/bindersim). A generated history of binder-relevant events (binds of single- and
// multi-fraction pods with and without injected API failures, crashes with restart + Sync(), pod
// starts / completions / deletions, BindRequest deletions, explicit syncs) is executed against the
// real BindRequestReconciler, Binder, reservation service and the real event handlers of the pod and
// BindRequest controllers. Up to three events run concurrently under the schedule controller of the
// engine: every client call of every actor is a scheduling point and the order is drawn by rapid.
// The invariants are judged at quiescent states only.
package c17

import (
	"context"
	"encoding/json"
	"fmt"
	"sort"
	"strings"
	"sync"
	"testing"

	v1 "k8s.io/api/core/v1"
	apierrors "k8s.io/apimachinery/pkg/api/errors"
	"pgregory.net/rapid"
	"sigs.k8s.io/controller-runtime/pkg/client"

	schedulingv1alpha2 "github.com/NVIDIA/KAI-scheduler/pkg/apis/scheduling/v1alpha2"
	"github.com/NVIDIA/KAI-scheduler/pkg/common/constants"
	"github.com/NVIDIA/KAI-scheduler/pkg/common/resources"
	sim "github.com/NVIDIA/KAI-scheduler/zz_verif/bindersim"
	kit "github.com/NVIDIA/KAI-scheduler/zz_verif/verifkit"
)

const prop = "C17"

func TestMain(m *testing.M) { kit.Main(m) }

// multiGroupHandlerDefect probes, once per process, whether the written-up defect
// finding-multi-fraction-delete-orphans (NOTES.md) is present in the tree under test: the helper the
// pod handlers use to learn a pod's GPU groups returns nothing for a pod that carries only the
// multi-fraction label form. While it is present, its trigger - a delete / completion event of a pod
// labelled in the multi-fraction form - is excluded from the histories (and counted); once the tree
// is fixed the exclusion switches itself off.
var multiGroupHandlerDefect = func() bool {
	p := &v1.Pod{}
	p.Labels = map[string]string{constants.MultiGpuGroupLabelPrefix + "g": "g"}
	return len(resources.GetGpuGroups(p)) == 0
}()

// ---------------------------------------------------------------------------------------------
// case

type GroupDef struct {
	Name string `json:"name"`
	Node string `json:"node"`
}

// Op is one event of the history.
//
//	bind        create pod p<Pod> (+ its BindRequest) if it does not exist yet and reconcile the request
//	retry       reconcile the existing request of pod p<Pod> again (controller requeue)
//	start       kubelet starts the bound pod (Pending -> Running), update event delivered
//	complete    the running pod reaches Phase (Succeeded / Failed), update event delivered
//	deletePod   the pod object is removed, delete event delivered
//	deleteReq   the BindRequest is removed (scheduler clean-up), delete event delivered
//	syncNode    SyncForNode(Node)
//	sync        Sync()
//	batch       Ops run concurrently under the schedule controller (Choices = recorded schedule)
type Op struct {
	Type    string     `json:"type"`
	Pod     int        `json:"pod,omitempty"`
	NS      string     `json:"ns,omitempty"`
	Multi   bool       `json:"multi,omitempty"`
	Groups  []string   `json:"groups,omitempty"`
	Phase   string     `json:"phase,omitempty"`
	Node    string     `json:"node,omitempty"`
	Fault   *sim.Fault `json:"fault,omitempty"`
	Ops     []Op       `json:"ops,omitempty"`
	Choices []int      `json:"choices,omitempty"`
	Start   bool       `json:"start,omitempty"` // bind/retry: the kubelet starts the pod right after a successful bind
}

type Case struct {
	Groups      []GroupDef `json:"groups"`
	IndexPolicy string     `json:"indexPolicy"`
	CDI         bool       `json:"cdi,omitempty"`
	Ops         []Op       `json:"ops"`
	NoExclude   bool       `json:"noExclude,omitempty"` // replay of a written-up finding
}

func (c *Case) nodeOf(g string) string {
	for _, d := range c.Groups {
		if d.Name == g {
			return d.Node
		}
	}
	return "n0"
}

func podName(i int) string { return fmt.Sprintf("p%d", i) }

// ---------------------------------------------------------------------------------------------
// generator

type genPod struct {
	ns     string
	multi  bool
	groups []string
}

type genState struct {
	c    *Case
	pods []genPod
}

func genFault(t *rapid.T, pct int, maxK int, modes ...string) *sim.Fault {
	if !sim.Chance(t, pct, "hasFault") {
		return nil
	}
	f := &sim.Fault{K: 1 + sim.Uniform(t, maxK, "faultK"), Mode: modes[sim.Uniform(t, len(modes), "faultMode")]}
	switch f.Mode {
	case "error":
		f.Err = sim.Pick(t, "errKind", "internal", "conflict", "timeout", "unavailable")
	case "mute":
		f.Err = sim.Pick(t, "muteKind", "closed", "errorevent")
	}
	return f
}

// genBind draws a bind of a new pod; focus (if set) is a group the pod must use.
func (g *genState) genBind(t *rapid.T, focus string) Op {
	c := g.c
	op := Op{Type: "bind", Pod: len(g.pods), NS: sim.Pick(t, "ns", "nsa", "nsb")}
	first := focus
	if first == "" {
		first = c.Groups[sim.Uniform(t, len(c.Groups), "group")].Name
	}
	op.Groups = []string{first}
	// multi-fraction: a second (third) group of the same node
	var same []string
	for _, d := range c.Groups {
		if d.Node == c.nodeOf(first) && d.Name != first {
			same = append(same, d.Name)
		}
	}
	if len(same) > 0 && sim.Chance(t, 40, "multi") {
		op.Multi = true
		op.Groups = append(op.Groups, same[sim.Uniform(t, len(same), "second")])
		if len(same) > 1 && sim.Chance(t, 30, "third") {
			for _, x := range same {
				if x != op.Groups[1] {
					op.Groups = append(op.Groups, x)
					break
				}
			}
		}
		if sim.Chance(t, 50, "swap") {
			op.Groups[0], op.Groups[1] = op.Groups[1], op.Groups[0]
		}
	}
	op.Fault = genFault(t, 40, 26, "error", "error", "crash", "crash", "mute")
	op.Start = sim.Chance(t, 60, "startAfterBind")
	g.pods = append(g.pods, genPod{ns: op.NS, multi: op.Multi, groups: op.Groups})
	return op
}

// pickPod draws an existing pod, preferring those that use group focus.
func (g *genState) pickPod(t *rapid.T, focus string) (int, bool) {
	if len(g.pods) == 0 {
		return 0, false
	}
	var pref []int
	for i, p := range g.pods {
		for _, x := range p.groups {
			if x == focus {
				pref = append(pref, i)
			}
		}
	}
	if len(pref) > 0 && sim.Chance(t, 80, "preferFocus") {
		return pref[sim.Uniform(t, len(pref), "podPref")], true
	}
	return sim.Uniform(t, len(g.pods), "pod"), true
}

func (g *genState) genSimple(t *rapid.T, focus string, inBatch bool) Op {
	w := []int{34, 7, 10, 12, 16, 6, 4, 2}
	if inBatch {
		w = []int{40, 6, 4, 12, 22, 8, 6, 2}
	}
	types := []string{"bind", "retry", "start", "complete", "deletePod", "deleteReq", "syncNode", "sync"}
	ty := types[sim.Weighted(t, "opType", w...)]
	if ty == "bind" || len(g.pods) == 0 {
		return g.genBind(t, focus)
	}
	op := Op{Type: ty}
	switch ty {
	case "syncNode":
		op.Node = g.c.Groups[sim.Uniform(t, len(g.c.Groups), "syncNodeGroup")].Node
		if focus != "" {
			op.Node = g.c.nodeOf(focus)
		}
		op.Fault = genFault(t, 10, 6, "error", "crash")
	case "sync":
		op.Fault = genFault(t, 10, 6, "error", "crash")
	default:
		op.Pod, _ = g.pickPod(t, focus)
		switch ty {
		case "retry":
			op.Fault = genFault(t, 30, 26, "error", "crash", "mute")
			op.Start = sim.Chance(t, 60, "startAfterBind")
		case "complete":
			op.Phase = sim.Pick(t, "phase", "Succeeded", "Failed")
			op.Fault = genFault(t, 12, 5, "error", "crash")
		case "deletePod", "deleteReq":
			op.Fault = genFault(t, 12, 5, "error", "crash")
		}
	}
	return op
}

func genCase(t *rapid.T) *Case {
	c := &Case{IndexPolicy: sim.Pick(t, "indexPolicy", "lowest", "rotating"), CDI: sim.Chance(t, 15, "cdi")}
	nGroups := 1 + sim.Weighted(t, "nGroups", 2, 4, 4)
	twoNodes := sim.Chance(t, 40, "twoNodes")
	for i := 0; i < nGroups; i++ {
		node := "n0"
		if twoNodes && i == nGroups-1 && nGroups > 1 {
			node = "n1"
		}
		c.Groups = append(c.Groups, GroupDef{Name: fmt.Sprintf("g%d", i), Node: node})
	}
	g := &genState{c: c}
	n := 3 + sim.Uniform(t, 10, "nOps")
	for i := 0; i < n; i++ {
		if i > 0 && sim.Chance(t, 30, "batch") {
			focus := c.Groups[sim.Uniform(t, len(c.Groups), "focus")].Name
			b := Op{Type: "batch"}
			m := 2 + sim.Weighted(t, "batchSize", 7, 3)
			used := map[int]bool{}
			for j := 0; j < m; j++ {
				op := g.genSimple(t, focus, true)
				// one event per pod in a batch: the events of one object are delivered in order
				if op.Type != "syncNode" && op.Type != "sync" {
					if used[op.Pod] {
						continue
					}
					used[op.Pod] = true
				}
				b.Ops = append(b.Ops, op)
			}
			if len(b.Ops) >= 2 {
				c.Ops = append(c.Ops, b)
				continue
			}
			c.Ops = append(c.Ops, b.Ops...)
			continue
		}
		c.Ops = append(c.Ops, g.genSimple(t, "", false))
	}
	return c
}

// ---------------------------------------------------------------------------------------------
// execution

type podInfo struct {
	name, ns string
	multi    bool
	groups   []string
	node     string
}

type opResult struct {
	op        string
	calls     []sim.Call
	fired     bool // an injected fault fired
	firedSync bool // ... outside Bind (in Rollback, a handler's sync, a sync op): the following sync itself was hit
	skipped   bool
}

type Trace struct {
	Steps []TraceStep `json:"steps"`
}

type TraceStep struct {
	Op       string              `json:"op"`
	Calls    []string            `json:"calls,omitempty"`
	Schedule *sim.ScheduleResult `json:"schedule,omitempty"`
	Restart  []string            `json:"restartSync,omitempty"`
	Extra    []string            `json:"extraSync,omitempty"`
	After    *sim.Snapshot       `json:"after,omitempty"`
}

type world struct {
	c       *Case
	s       *sim.Sim
	proc    *sim.Proc
	pods    map[int]*podInfo
	trace   *Trace
	classes map[string]bool
	notes   map[string]int64
	nontriv bool
	incon   string
	mu      sync.Mutex
}

func (w *world) class(s string) { w.classes[s] = true }

func (w *world) getPod(pi *podInfo) *v1.Pod {
	p := &v1.Pod{}
	if err := w.s.Base.Get(context.Background(), client.ObjectKey{Namespace: pi.ns, Name: pi.name}, p); err != nil {
		return nil
	}
	return p
}

func (w *world) getReq(pi *podInfo) *schedulingv1alpha2.BindRequest {
	br := &schedulingv1alpha2.BindRequest{}
	if err := w.s.Base.Get(context.Background(), client.ObjectKey{Namespace: pi.ns, Name: pi.name}, br); err != nil {
		return nil
	}
	return br
}

func faults(f *sim.Fault) []sim.Fault {
	if f == nil {
		return nil
	}
	return []sim.Fault{*f}
}

// opFunc returns the body of one event for actor id (0 = sequential).
func (w *world) opFunc(op Op, id int, res *opResult) func() {
	ctx := context.Background()
	s := w.s
	res.op = describe(op)
	switch op.Type {
	case "bind", "retry":
		return func() {
			pi := w.pods[op.Pod]
			if op.Type == "bind" && pi == nil {
				pi = &podInfo{name: podName(op.Pod), ns: op.NS, multi: op.Multi, groups: op.Groups, node: w.c.nodeOf(op.Groups[0])}
				w.pods[op.Pod] = pi
				ps := sim.PodShape{Name: pi.name, NS: pi.ns, Kind: "fraction", Fraction: "0.25", Containers: 1 + op.Pod%2}
				if pi.multi {
					ps.Kind, ps.Devices = "multi", len(pi.groups)
				}
				s.EnvStep("create-pod+request", pi.ns+"/"+pi.name)
				must(s.Base.Create(ctx, sim.BuildPod(ps)))
				must(s.Base.Create(ctx, sim.BuildRequest(ps, sim.ReqShape{Node: pi.node, Groups: pi.groups, Portion: "0.25", Backoff: ptr(5)})))
			}
			if pi == nil || w.getReq(pi) == nil {
				res.skipped = true
				return
			}
			s.Begin(id, faults(op.Fault))
			_, _, pn := w.proc.Reconcile(pi.ns, pi.name)
			if pn != "" {
				panic("reconcile panicked: " + pn)
			}
			if op.Start && !s.Crashed() {
				if p := w.getPod(pi); p != nil && p.Spec.NodeName != "" && p.Status.Phase == v1.PodPending {
					s.EnvStep("kubelet-start", pi.ns+"/"+pi.name)
					old := p.DeepCopy()
					p.Status.Phase = v1.PodRunning
					must(s.Base.Status().Update(ctx, p))
					w.proc.PodUpdated(old, p)
				}
			}
		}
	case "start":
		return func() {
			pi := w.pods[op.Pod]
			if pi == nil {
				res.skipped = true
				return
			}
			s.EnvStep("kubelet-start", pi.ns+"/"+pi.name)
			p := w.getPod(pi)
			if p == nil || p.Spec.NodeName == "" || p.Status.Phase != v1.PodPending {
				res.skipped = true
				return
			}
			old := p.DeepCopy()
			p.Status.Phase = v1.PodRunning
			must(s.Base.Status().Update(ctx, p))
			s.Begin(id, nil)
			w.proc.PodUpdated(old, p)
		}
	case "complete":
		return func() {
			pi := w.pods[op.Pod]
			if pi == nil {
				res.skipped = true
				return
			}
			s.EnvStep("pod-completes", pi.ns+"/"+pi.name)
			p := w.getPod(pi)
			if p == nil || p.Status.Phase != v1.PodRunning {
				res.skipped = true
				return
			}
			if w.excludedMultiEvent(p) {
				res.skipped = true
				return
			}
			old := p.DeepCopy()
			p.Status.Phase = v1.PodPhase(op.Phase)
			must(s.Base.Status().Update(ctx, p))
			s.Begin(id, faults(op.Fault))
			w.proc.PodUpdated(old, p)
		}
	case "deletePod":
		return func() {
			pi := w.pods[op.Pod]
			if pi == nil {
				res.skipped = true
				return
			}
			s.EnvStep("pod-deleted", pi.ns+"/"+pi.name)
			p := w.getPod(pi)
			if p == nil {
				res.skipped = true
				return
			}
			if w.excludedMultiEvent(p) {
				res.skipped = true
				return
			}
			if err := s.Base.Delete(ctx, p.DeepCopy()); err != nil && !apierrors.IsNotFound(err) {
				panic(err)
			}
			// garbage collection of the ConfigMaps the pod owns
			cms := &v1.ConfigMapList{}
			must(s.Base.List(ctx, cms, client.InNamespace(pi.ns)))
			for i := range cms.Items {
				for _, o := range cms.Items[i].OwnerReferences {
					if o.UID == p.UID {
						_ = s.Base.Delete(ctx, &cms.Items[i])
					}
				}
			}
			s.Begin(id, faults(op.Fault))
			w.proc.PodDeleted(p)
		}
	case "deleteReq":
		return func() {
			pi := w.pods[op.Pod]
			if pi == nil {
				res.skipped = true
				return
			}
			s.EnvStep("request-deleted", pi.ns+"/"+pi.name)
			br := w.getReq(pi)
			if br == nil {
				res.skipped = true
				return
			}
			must(s.Base.Delete(ctx, br.DeepCopy()))
			s.Begin(id, faults(op.Fault))
			w.proc.RequestDeleted(br)
		}
	case "syncNode":
		return func() {
			s.Begin(id, faults(op.Fault))
			_ = w.proc.RRS.SyncForNode(ctx, op.Node)
		}
	case "sync":
		return func() {
			s.Begin(id, faults(op.Fault))
			_ = w.proc.RRS.Sync(ctx)
		}
	}
	return func() { res.skipped = true }
}

// excludedMultiEvent: trigger of the known defect (see multiGroupHandlerDefect).
func (w *world) excludedMultiEvent(p *v1.Pod) bool {
	if !multiGroupHandlerDefect || w.c.NoExclude {
		return false
	}
	for k := range p.Labels {
		if strings.HasPrefix(k, constants.MultiGpuGroupLabelPrefix) {
			w.mu.Lock()
			w.notes["excluded:multi-fraction-pod-event"]++
			w.mu.Unlock()
			return true
		}
	}
	return false
}

func describe(op Op) string {
	b, _ := json.Marshal(op)
	return string(b)
}

func must(err error) {
	if err != nil {
		panic(err)
	}
}

func ptr(v int32) *int32 { return &v }

func strs(cs []sim.Call) []string {
	out := make([]string, len(cs))
	for i, c := range cs {
		out[i] = c.String()
	}
	return out
}

// execute runs the history. choose draws schedule choices (search) or is nil (replay: recorded
// choices are used).
func execute(c *Case, choose func(step int, ready []int) int) (sig, msg string, w *world) {
	var objs []client.Object
	nodes := map[string]bool{}
	for _, g := range c.Groups {
		if !nodes[g.Node] {
			nodes[g.Node] = true
			objs = append(objs, sim.BuildNode(g.Node))
		}
	}
	s := sim.New(objs, nil)
	s.CDI, s.IndexPolicy = c.CDI, c.IndexPolicy
	w = &world{c: c, s: s, proc: s.NewProc(), pods: map[int]*podInfo{}, trace: &Trace{}, classes: map[string]bool{}, notes: map[string]int64{}}
	defer func() {
		if r := recover(); r != nil {
			sig, msg = "harness-panic", fmt.Sprint(r)
		}
	}()
	for oi := range c.Ops {
		op := &c.Ops[oi]
		step := TraceStep{Op: describe(*op)}
		var results []*opResult
		if op.Type == "batch" {
			w.class("batch")
			var fns []func()
			for j := range op.Ops {
				r := &opResult{}
				results = append(results, r)
				fns = append(fns, w.opFunc(op.Ops[j], j+1, r))
			}
			recorded := op.Choices
			var taken []int
			sr := s.RunConcurrent(fns, func(st int, ready []int) int {
				ci := 0
				if choose != nil {
					ci = choose(st, ready)
				} else if st < len(recorded) {
					ci = recorded[st]
				}
				if ci >= len(ready) {
					ci = 0
				}
				taken = append(taken, ci)
				return ci
			})
			op.Choices = taken
			step.Schedule = &sr
			if sr.TimedOut {
				w.incon = "schedule controller watchdog"
				return "", "", w
			}
			if sr.Deadlock {
				return "deadlock", "all unfinished concurrent operations are blocked on GPU-group mutexes:\n" + sr.Stuck, w
			}
			if len(sr.Panics) > 0 {
				return "panic", strings.Join(sr.Panics, "; "), w
			}
			if sr.Blocked > 0 {
				w.class("blocked-on-group-mutex")
			}
			calls := s.TakeCalls()
			step.Calls = strs(calls)
			for j := range op.Ops {
				for _, cl := range calls {
					if cl.Actor == j+1 {
						results[j].calls = append(results[j].calls, cl)
					}
				}
			}
			if overlapOnGroup(results) {
				w.nontriv = true
				w.class("overlap-on-one-group")
			}
		} else {
			r := &opResult{}
			results = append(results, r)
			w.opFunc(*op, 0, r)()
			r.calls = s.TakeCalls()
			step.Calls = strs(r.calls)
		}
		needExtraSync := false
		for j, r := range results {
			ty := op.Type
			if ty == "batch" {
				ty = op.Ops[j].Type
			}
			if r.skipped {
				w.class("skipped:" + ty)
				continue
			}
			w.class("op:" + ty)
			for _, cl := range r.calls {
				if cl.Injected == "" {
					continue
				}
				r.fired = true
				w.class("fault:" + cl.Injected)
				if cl.Phase != "bind" && cl.Injected != "mute" {
					r.firedSync = true
				}
			}
			if r.firedSync {
				needExtraSync = true
			}
			if betweenCreateAndLabel(r.calls) {
				w.nontriv = true
				w.class("fault-between-reservation-create-and-label")
			}
		}
		// crashes are followed by a restart and the start-up Sync()
		if s.Crashed() {
			w.class("crash+restart")
			s.Restart()
			w.proc = s.NewProc()
			s.Begin(0, nil)
			if err := w.proc.RRS.Sync(context.Background()); err != nil {
				return "sync-fails", fmt.Sprintf("fault-free start-up Sync() fails: %v", err), w
			}
			step.Restart = strs(s.TakeCalls())
			needExtraSync = false
		}
		// a failure that hit the very sync that follows an event: the next sync is the one to judge
		if needExtraSync {
			w.class("extra-sync-after-faulted-sync")
			s.Begin(0, nil)
			if err := w.proc.RRS.Sync(context.Background()); err != nil {
				return "sync-fails", fmt.Sprintf("fault-free Sync() fails: %v", err), w
			}
			step.Extra = strs(s.TakeCalls())
		}
		sn := s.Snapshot()
		step.After = sn
		w.trace.Steps = append(w.trace.Steps, step)
		if sig, msg := w.judge(sn); sig != "" {
			return sig, fmt.Sprintf("after step %d (%s): %s", oi, step.Op, msg), w
		}
	}
	return "", "", w
}

var groupSel = []string{"l:" + constants.GPUGroup + "=", "l:" + constants.MultiGpuGroupLabelPrefix}

// groupsTouched extracts the GPU groups an actor's calls addressed (label selectors of its lists).
func groupsTouched(calls []sim.Call) map[string]bool {
	out := map[string]bool{}
	for _, cl := range calls {
		for _, part := range strings.Fields(cl.Key) {
			if strings.HasPrefix(part, "l:"+constants.GPUGroup+"=") {
				out[strings.TrimPrefix(part, "l:"+constants.GPUGroup+"=")] = true
			} else if strings.HasPrefix(part, "l:"+constants.MultiGpuGroupLabelPrefix) {
				v := strings.TrimPrefix(part, "l:"+constants.MultiGpuGroupLabelPrefix)
				if i := strings.Index(v, "="); i >= 0 {
					out[v[:i]] = true
				}
			}
		}
	}
	return out
}

// overlapOnGroup: two concurrent operations whose call intervals interleave and that address one group.
func overlapOnGroup(rs []*opResult) bool {
	for i := 0; i < len(rs); i++ {
		for j := i + 1; j < len(rs); j++ {
			a, b := rs[i].calls, rs[j].calls
			if len(a) == 0 || len(b) == 0 {
				continue
			}
			if a[0].Seq > b[len(b)-1].Seq || b[0].Seq > a[len(a)-1].Seq {
				continue
			}
			ga, gb := groupsTouched(a), groupsTouched(b)
			for g := range ga {
				if gb[g] {
					return true
				}
			}
		}
	}
	return false
}

// betweenCreateAndLabel: an injected failure / crash / mute hit after a reservation pod was created
// and before the consumer's label patch went through.
func betweenCreateAndLabel(calls []sim.Call) bool {
	created := false
	for _, cl := range calls {
		switch {
		case cl.Verb == "create" && cl.Kind == "Pod" && strings.HasPrefix(cl.Key, sim.ReservationNS+"/") && cl.Err == "":
			created = true
		case created && cl.Injected != "":
			return true
		case created && cl.Verb == "patch" && cl.Kind == "Pod" && cl.Err == "":
			created = false
		}
	}
	return false
}

// ---------------------------------------------------------------------------------------------
// oracle (quiescent states)

func (w *world) judge(sn *sim.Snapshot) (string, string) {
	// I1: at most one reservation pod per group
	for _, g := range sn.AllGroups() {
		if rs := sn.ReservationsOf(g); len(rs) > 1 {
			return "two-reservations", fmt.Sprintf("group %s has %d reservation pods: %+v", g, len(rs), rs)
		}
	}
	// I3: reservation pod exists <=> a live (Pending/Running) pod carries the group
	for _, r := range sn.Reservations {
		if len(sn.LiveCarriers(r.Group)) == 0 {
			return "reservation-without-consumer", fmt.Sprintf("reservation pod %s (group %s, node %s) exists but no Pending/Running pod carries the group", r.Name, r.Group, r.Node)
		}
	}
	for _, g := range sn.AllGroups() {
		carriers := sn.LiveCarriers(g)
		if len(carriers) == 0 || len(sn.ReservationsOf(g)) > 0 {
			continue
		}
		for _, k := range carriers {
			if sn.Pods[k].Phase == string(v1.PodRunning) {
				return "running-without-reservation", fmt.Sprintf("running pod %s carries group %s which has no reservation pod", k, g)
			}
		}
		return "carrier-without-reservation", fmt.Sprintf("pending pod(s) %v carry group %s which has no reservation pod", carriers, g)
	}
	// I2: every pod bound into a group was given that group's reservation index
	ids := make([]int, 0, len(w.pods))
	for i := range w.pods {
		ids = append(ids, i)
	}
	sort.Ints(ids)
	for _, i := range ids {
		pi := w.pods[i]
		pv, ok := sn.Pods[pi.ns+"/"+pi.name]
		if !ok || pv.Node == "" || (pv.Phase != string(v1.PodPending) && pv.Phase != string(v1.PodRunning)) {
			continue
		}
		if pv.Node != pi.node {
			return "wrong-node", fmt.Sprintf("pod %s bound to %s, request names %s", pi.name, pv.Node, pi.node)
		}
		want := append([]string(nil), pi.groups...)
		sort.Strings(want)
		if strings.Join(pv.Groups, ",") != strings.Join(want, ",") {
			return "bound-labels-mismatch", fmt.Sprintf("bound pod %s carries groups %v (single=%q multi=%v), its request selected %v", pi.name, pv.Groups, pv.Single, pv.Multi, pi.groups)
		}
		var idx []string
		for _, g := range pi.groups {
			rs := sn.ReservationsOf(g)
			if len(rs) != 1 {
				return "bound-without-reservation", fmt.Sprintf("bound pod %s carries group %s which has %d reservation pods", pi.name, g, len(rs))
			}
			if rs[0].Node != pv.Node {
				return "reservation-other-node", fmt.Sprintf("pod %s is on %s, the reservation pod of its group %s on %s", pi.name, pv.Node, g, rs[0].Node)
			}
			v := rs[0].Index
			if w.c.CDI {
				v = "k8s.device-plugin.nvidia.com/gpu=" + v
			}
			idx = append(idx, v)
		}
		stored := w.getPod(pi)
		if stored == nil {
			continue
		}
		ctr := sim.FractionContainer(stored)
		env, missing := sim.EffectiveEnv(stored, ctr, sn)
		if len(missing) > 0 {
			return "configmap-missing", fmt.Sprintf("bound pod %s references ConfigMaps that do not exist: %v", pi.name, missing)
		}
		if got, want := env[constants.NvidiaVisibleDevices], strings.Join(idx, ","); got != want {
			return "wrong-device", fmt.Sprintf("bound pod %s sees NVIDIA_VISIBLE_DEVICES=%q but the reservation pods of its groups %v hold %q", pi.name, got, pi.groups, want)
		}
	}
	return "", ""
}

// ---------------------------------------------------------------------------------------------
// property

func record(c *Case, w *world) {
	classes := make([]string, 0, len(w.classes))
	for k := range w.classes {
		classes = append(classes, k)
	}
	sort.Strings(classes)
	multi := false
	for _, p := range w.pods {
		if p.multi {
			multi = true
		}
	}
	if multi {
		classes = append(classes, "has-multi-fraction-pod")
	}
	if w.nontriv {
		classes = append(classes, "nontrivial")
	}
	for k, v := range w.notes {
		kit.Note(k, v)
	}
	kit.Eval(kit.HexKey(c), w.nontriv, classes...)
	if w.nontriv && kit.WantSample() {
		kit.Sample(c)
	}
}

func TestCheckReservationTracking(t *testing.T) {
	kit.Run(t, kit.Budget{Quick: 6000, Thorough: 120000}, func(t *rapid.T) {
		c := genCase(t)
		sig, msg, w := execute(c, func(step int, ready []int) int { return sim.Uniform(t, len(ready), "sched") })
		if w.incon != "" {
			kit.Inconclusive()
			kit.Note("inconclusive:"+w.incon, 1)
			return
		}
		record(c, w)
		if sig != "" {
			path := kit.Violation(prop, sig, msg, c, w.trace)
			t.Fatalf("VIOLATION %s: %s (%s)", sig, msg, path)
		}
	})
}

func TestReplay(t *testing.T) {
	kit.ReplayMain(t, func(rf *kit.ReplayFile) kit.ReplayResult {
		res := kit.ReplayResult{}
		for i := 0; i < 10; i++ {
			var c Case
			if err := json.Unmarshal(rf.Case, &c); err != nil {
				t.Fatalf("bad case: %v", err)
			}
			sig, msg, _ := execute(&c, nil)
			res.Runs++
			if sig != "" {
				res.Bad++
				if !res.Violated {
					res.Violated, res.Signature, res.Message = true, sig, msg
				}
			}
		}
		return res
	})
}
