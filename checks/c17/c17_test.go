// Check C17 — "GPU reservation pods track shared-GPU usage exactly".
//
// Engine E3 (kit/bindersim). A generated history of binder-relevant events (binds of single- and
// multi-fraction pods with and without injected API failures, crashes with restart + Sync(), pod
// starts / completions / deletions, BindRequest deletions, explicit syncs) is executed against the
// real BindRequestReconciler, Binder, reservation service and the real event handlers of the pod and
// BindRequest controllers. Up to three events run concurrently under the schedule controller of the
// engine: every client call of every actor is a scheduling point and the order is drawn by rapid.
// The invariants are judged at quiescent states only.
package c17

import (
	"context"
	"encoding/json"
	"fmt"
	"os"
	"runtime/debug"
	"sort"
	"strings"
	"sync"
	"testing"

	v1 "k8s.io/api/core/v1"
	apierrors "k8s.io/apimachinery/pkg/api/errors"
	"pgregory.net/rapid"
	"sigs.k8s.io/controller-runtime/pkg/client"

	schedulingv1alpha2 "github.com/NVIDIA/KAI-scheduler/pkg/apis/scheduling/v1alpha2"
	"github.com/NVIDIA/KAI-scheduler/pkg/common/constants"
	sim "github.com/NVIDIA/KAI-scheduler/zz_verif/bindersim"
	kit "github.com/NVIDIA/KAI-scheduler/zz_verif/verifkit"
)

const prop = "C17"

func TestMain(m *testing.M) { kit.Main(m) }

// ---------------------------------------------------------------------------------------------
// case

type GroupDef struct {
	Name string `json:"name"`
	Node string `json:"node"`
}

// Op is one event of the history.
//
//	bind        create pod p<Pod> (+ its BindRequest) if it does not exist yet and reconcile the request
//	retry       reconcile the existing request of pod p<Pod> again (controller requeue)
//	rebind      the scheduler, having dropped a terminally failed request of the still unbound pod, creates a
//	            new request for it with other Groups, which is reconciled
//	start       kubelet starts the bound pod (Pending -> Running), update event delivered
//	complete    the running pod reaches Phase (Succeeded / Failed), update event delivered
//	deletePod   the pod object is removed, delete event delivered; Graceful (bound pods only): the first deletePod stamps
//	            the deletion time and the pod keeps running (update event), a later deletePod removes it
//	deleteReq   the BindRequest is removed (scheduler clean-up), delete event delivered
//	syncNode    SyncForNode(Node)
//	sync        Sync()
//	batch       Ops run concurrently under the schedule controller (Choices = recorded schedule)
type Op struct {
	Type    string      `json:"type"`
	Pod     int         `json:"pod,omitempty"`
	NS      string      `json:"ns,omitempty"`
	Multi   bool        `json:"multi,omitempty"`
	Groups  []string    `json:"groups,omitempty"`
	Phase   string      `json:"phase,omitempty"`
	Node    string      `json:"node,omitempty"`
	Faults  []sim.Fault `json:"faults,omitempty"` // injected into this event's client calls (K counts the event's own calls)
	Ops     []Op        `json:"ops,omitempty"`
	Choices []int       `json:"choices,omitempty"`
	NoLimit bool        `json:"noBackoffLimit,omitempty"` // bind: the request has no BackoffLimit (one failure is terminal for the scheduler)
	Start   bool        `json:"start,omitempty"`          // bind/retry: the kubelet starts the pod right after a successful bind
	// deletePod: the pod has a finalizer / a termination grace period: the first deletePod only stamps the deletion
	// time (update event; the pod keeps running and keeps its GPU share), a later deletePod of the same pod removes it
	Graceful bool `json:"graceful,omitempty"`
}

type Case struct {
	Groups      []GroupDef `json:"groups"`
	IndexPolicy string     `json:"indexPolicy"`
	CDI         bool       `json:"cdi,omitempty"`
	Ops         []Op       `json:"ops"`
}

func (c *Case) nodeOf(g string) string {
	for _, d := range c.Groups {
		if d.Name == g {
			return d.Node
		}
	}
	return "n0"
}

func podName(i int) string { return fmt.Sprintf("p%d", i) }

// ---------------------------------------------------------------------------------------------
// generator

type genPod struct {
	ns     string
	multi  bool
	groups []string
}

type genState struct {
	c    *Case
	pods []genPod
}

func genFault(t *rapid.T, pct int, maxK int, modes ...string) []sim.Fault {
	if !sim.Chance(t, pct, "hasFault") {
		return nil
	}
	mk := func(k int, mode string) sim.Fault {
		f := sim.Fault{K: k, Mode: mode}
		switch f.Mode {
		case "error":
			f.Err = sim.Pick(t, "errKind", "internal", "conflict", "timeout", "unavailable")
		case "mute":
			f.Err = sim.Pick(t, "muteKind", "closed", "errorevent")
		}
		return f
	}
	k := 1 + sim.Uniform(t, maxK, "faultK")
	if maxK > 8 && sim.Chance(t, 40, "faultInReserveWindow") {
		// calls 5..16 of a bind are where reservation pods are found / created / watched and the consumer is labelled
		k = 5 + sim.Uniform(t, 12, "faultKWindow")
	}
	fs := []sim.Fault{mk(k, modes[sim.Uniform(t, len(modes), "faultMode")])}
	// a second, later fault (it can hit the clean-up the first one caused)
	if fs[0].Mode != "crash" && maxK > 8 && sim.Chance(t, 35, "secondFault") {
		fs = append(fs, mk(fs[0].K+1+sim.Uniform(t, 14, "faultK2"), sim.Pick(t, "faultMode2", "error", "error", "crash")))
	}
	return fs
}

// genBind draws a bind of a new pod; focus (if set) is a group the pod must use.
func (g *genState) genBind(t *rapid.T, focus string) Op {
	c := g.c
	op := Op{Type: "bind", Pod: len(g.pods), NS: sim.Pick(t, "ns", "a-team", "nsb")}
	first := focus
	if first == "" {
		first = c.Groups[sim.Uniform(t, len(c.Groups), "group")].Name
	}
	op.Groups = []string{first}
	// multi-fraction: a second (third) group of the same node
	var same []string
	for _, d := range c.Groups {
		if d.Node == c.nodeOf(first) && d.Name != first {
			same = append(same, d.Name)
		}
	}
	if len(same) > 0 && sim.Chance(t, 40, "multi") {
		op.Multi = true
		op.Groups = append(op.Groups, same[sim.Uniform(t, len(same), "second")])
		if len(same) > 1 && sim.Chance(t, 30, "third") {
			for _, x := range same {
				if x != op.Groups[1] {
					op.Groups = append(op.Groups, x)
					break
				}
			}
		}
		if sim.Chance(t, 50, "swap") {
			op.Groups[0], op.Groups[1] = op.Groups[1], op.Groups[0]
		}
	}
	op.Faults = genFault(t, 40, 26, "error", "error", "crash", "crash", "mute")
	op.Start = sim.Chance(t, 60, "startAfterBind")
	op.NoLimit = sim.Chance(t, 50, "noBackoffLimit")
	g.pods = append(g.pods, genPod{ns: op.NS, multi: op.Multi, groups: op.Groups})
	return op
}

// genRebind draws a new request (other groups, same number of devices) for an existing pod.
func (g *genState) genRebind(t *rapid.T, pod int) (Op, bool) {
	n := len(g.pods[pod].groups)
	first := g.c.Groups[sim.Uniform(t, len(g.c.Groups), "rebindGroup")].Name
	groups := []string{first}
	for _, d := range g.c.Groups {
		if len(groups) < n && d.Node == g.c.nodeOf(first) && d.Name != first {
			groups = append(groups, d.Name)
		}
	}
	if len(groups) != n {
		return Op{}, false
	}
	if n > 1 && sim.Chance(t, 50, "rebindSwap") {
		groups[0], groups[1] = groups[1], groups[0]
	}
	g.pods[pod].groups = groups
	return Op{Type: "rebind", Pod: pod, Groups: groups, Start: sim.Chance(t, 60, "startAfterBind"), NoLimit: true}, true
}

// pickPod draws an existing pod, preferring those that use group focus.
func (g *genState) pickPod(t *rapid.T, focus string) (int, bool) {
	if len(g.pods) == 0 {
		return 0, false
	}
	var pref []int
	for i, p := range g.pods {
		for _, x := range p.groups {
			if x == focus {
				pref = append(pref, i)
			}
		}
	}
	if len(pref) > 0 && sim.Chance(t, 80, "preferFocus") {
		return pref[sim.Uniform(t, len(pref), "podPref")], true
	}
	return sim.Uniform(t, len(g.pods), "pod"), true
}

func (g *genState) genSimple(t *rapid.T, focus string, inBatch bool) Op {
	w := []int{34, 7, 10, 12, 16, 6, 4, 2}
	if inBatch {
		w = []int{40, 6, 4, 12, 22, 8, 6, 2}
	}
	types := []string{"bind", "retry", "start", "complete", "deletePod", "deleteReq", "syncNode", "sync"}
	ty := types[sim.Weighted(t, "opType", w...)]
	if ty == "bind" || len(g.pods) == 0 {
		return g.genBind(t, focus)
	}
	op := Op{Type: ty}
	switch ty {
	case "syncNode":
		op.Node = g.c.Groups[sim.Uniform(t, len(g.c.Groups), "syncNodeGroup")].Node
		if focus != "" {
			op.Node = g.c.nodeOf(focus)
		}
		op.Faults = genFault(t, 10, 6, "error", "crash")
	case "sync":
		op.Faults = genFault(t, 10, 6, "error", "crash")
	default:
		op.Pod, _ = g.pickPod(t, focus)
		switch ty {
		case "retry":
			op.Faults = genFault(t, 30, 26, "error", "crash", "mute")
			op.Start = sim.Chance(t, 60, "startAfterBind")
		case "complete":
			op.Phase = sim.Pick(t, "phase", "Succeeded", "Failed")
			op.Faults = genFault(t, 12, 5, "error", "crash")
		case "deletePod", "deleteReq":
			op.Faults = genFault(t, 12, 5, "error", "crash")
			if ty == "deletePod" {
				op.Graceful = sim.Chance(t, 35, "gracefulDelete")
			}
		}
	}
	return op
}

func genCase(t *rapid.T) *Case {
	c := &Case{IndexPolicy: sim.Pick(t, "indexPolicy", "lowest", "rotating"), CDI: sim.Chance(t, 15, "cdi")}
	nGroups := 1 + sim.Weighted(t, "nGroups", 2, 4, 4)
	twoNodes := sim.Chance(t, 40, "twoNodes")
	for i := 0; i < nGroups; i++ {
		node := "n0"
		if twoNodes && i == nGroups-1 && nGroups > 1 {
			node = "n1"
		}
		c.Groups = append(c.Groups, GroupDef{Name: fmt.Sprintf("g%d", i), Node: node})
	}
	g := &genState{c: c}
	n := 3 + sim.Uniform(t, 10, "nOps")
	// a pod that an earlier, abandoned bind attempt left behind: unbound, still labelled with its group (the
	// rollback could not remove the label), request terminally failed and dropped by the scheduler; the scheduler now
	// places it again - usually into a group of another node
	if nGroups > 1 && sim.Chance(t, 35, "abandonedPod") {
		from := sim.Uniform(t, nGroups, "abandonedGroup")
		pod := len(g.pods)
		g.pods = append(g.pods, genPod{ns: "ws", groups: []string{c.Groups[from].Name}})
		c.Ops = append(c.Ops, Op{Type: "abandoned", Pod: pod, NS: "ws", Groups: []string{c.Groups[from].Name}})
		if sim.Chance(t, 40, "bindFirst") {
			c.Ops = append(c.Ops, g.genBind(t, ""))
		}
		var other, same []string
		for i, d := range c.Groups {
			if i == from {
				continue
			}
			if d.Node != c.Groups[from].Node {
				other = append(other, d.Name)
			} else {
				same = append(same, d.Name)
			}
		}
		cand := append(append([]string{}, other...), other...)
		cand = append(cand, same...)
		to := cand[sim.Uniform(t, len(cand), "rebindTarget")]
		g.pods[pod].groups = []string{to}
		c.Ops = append(c.Ops, Op{Type: "rebind", Pod: pod, Groups: []string{to}, Start: sim.Chance(t, 60, "startAfterRebind"), NoLimit: true})
	}
	for i := 0; i < n; i++ {
		if i > 0 && sim.Chance(t, 30, "batch") {
			focus := c.Groups[sim.Uniform(t, len(c.Groups), "focus")].Name
			b := Op{Type: "batch"}
			m := 2 + sim.Weighted(t, "batchSize", 7, 3)
			// what can really overlap: several reconcile workers (one per request), the pod controller's
			// handler goroutine (one event at a time), the BindRequest controller's handler goroutine (one
			// event at a time), node / start-up syncs
			reconciled := map[int]bool{}
			podEvent, reqEvent := false, false
			add := func(op Op) {
				switch op.Type {
				case "bind", "retry":
					if reconciled[op.Pod] {
						return
					}
					reconciled[op.Pod] = true
				case "start", "complete", "deletePod":
					if podEvent {
						return
					}
					podEvent = true
				case "deleteReq":
					if reqEvent {
						return
					}
					reqEvent = true
				}
				if len(b.Ops) < 4 {
					b.Ops = append(b.Ops, op)
				}
			}
			for j := 0; j < m; j++ {
				op := g.genSimple(t, focus, true)
				add(op)
				// the same pod is hit by an event while its request is being reconciled (user deletes the pod,
				// scheduler drops the request)
				if (op.Type == "bind" || op.Type == "retry") && sim.Chance(t, 25, "samePodRace") {
					add(Op{Type: sim.Pick(t, "raceEvent", "deletePod", "deletePod", "deleteReq"), Pod: op.Pod})
				}
			}
			if len(b.Ops) >= 2 {
				c.Ops = append(c.Ops, b)
				continue
			}
			c.Ops = append(c.Ops, b.Ops...)
			continue
		}
		op := g.genSimple(t, "", false)
		c.Ops = append(c.Ops, op)
		if (op.Type == "bind" || op.Type == "retry") && len(op.Faults) > 0 {
			// what the scheduler / the controller do with a failed request: drop it, or try again
			switch sim.Weighted(t, "followUp", 50, 30, 20) {
			case 1:
				c.Ops = append(c.Ops, Op{Type: "deleteReq", Pod: op.Pod})
				if sim.Chance(t, 60, "rebindAfterDrop") {
					if rb, ok := g.genRebind(t, op.Pod); ok {
						c.Ops = append(c.Ops, rb)
					}
				}
			case 2:
				c.Ops = append(c.Ops, Op{Type: "retry", Pod: op.Pod, Start: true})
			}
		}
	}
	return c
}

// ---------------------------------------------------------------------------------------------
// execution

type podInfo struct {
	name, ns string
	multi    bool
	groups   []string
	node     string
	// the last request of the pod was terminally Failed (phase Failed and no BackoffLimit or attempts
	// >= limit, bindrequest_info.IsFailed) when the scheduler dropped it
	droppedTerminal bool
}

type opResult struct {
	op            string
	calls         []sim.Call
	fired         bool // an injected fault fired
	firedSync     bool // ... outside Bind (in Rollback, a handler's sync, a sync op): the following sync itself was hit
	skipped       bool
	addressed     []string // groups the sync(s) of this event are about, by the documented mechanism
	staleAtRebind []string // rebind: groups the pod still carried from its dropped request
	// sanity (implied by C11's "a fault-free attempt succeeds"): set when it does not
	unboundAfterCleanBind string
}

type Trace struct {
	Steps []TraceStep `json:"steps"`
}

type TraceStep struct {
	Op       string              `json:"op"`
	Calls    []string            `json:"calls,omitempty"`
	Schedule *sim.ScheduleResult `json:"schedule,omitempty"`
	Restart  []string            `json:"restartSync,omitempty"`
	Extra    []string            `json:"extraSync,omitempty"`
	After    *sim.Snapshot       `json:"after,omitempty"`
	Deferred []string            `json:"deferredGroups,omitempty"`
}

type world struct {
	c       *Case
	s       *sim.Sim
	proc    *sim.Proc
	pods    map[int]*podInfo
	trace   *Trace
	classes map[string]bool
	notes   map[string]int64
	nontriv bool
	incon   string
	mu      sync.Mutex
	// groups whose following sync was itself hit by an injected failure: the reservation <=> consumer
	// clause is judged for them only after the next fault-free sync that covers them
	tainted map[string]bool
}

func (w *world) class(s string) {
	w.mu.Lock()
	w.classes[s] = true
	w.mu.Unlock()
}

// pod returns the harness' bookkeeping entry of pod i (nil if no bind of it was generated yet).
func (w *world) pod(i int) *podInfo {
	w.mu.Lock()
	defer w.mu.Unlock()
	return w.pods[i]
}

func (w *world) getPod(pi *podInfo) *v1.Pod {
	p := &v1.Pod{}
	if err := w.s.Base.Get(context.Background(), client.ObjectKey{Namespace: pi.ns, Name: pi.name}, p); err != nil {
		return nil
	}
	return p
}

func (w *world) getReq(pi *podInfo) *schedulingv1alpha2.BindRequest {
	br := &schedulingv1alpha2.BindRequest{}
	if err := w.s.Base.Get(context.Background(), client.ObjectKey{Namespace: pi.ns, Name: pi.name}, br); err != nil {
		return nil
	}
	return br
}

// opFunc returns the body of one event for actor id (0 = sequential).
func (w *world) opFunc(op Op, id int, res *opResult) func() {
	ctx := context.Background()
	s := w.s
	res.op = describe(op)
	switch op.Type {
	case "abandoned":
		return func() {
			pi := &podInfo{name: podName(op.Pod), ns: op.NS, groups: op.Groups, node: w.c.nodeOf(op.Groups[0]), droppedTerminal: true}
			w.mu.Lock()
			w.pods[op.Pod] = pi
			w.mu.Unlock()
			s.EnvStep("pod-left-by-abandoned-attempt", pi.ns+"/"+pi.name)
			pod := sim.BuildPod(sim.PodShape{Name: pi.name, NS: pi.ns, Kind: "fraction", Fraction: "0.25", Containers: 1})
			pod.Labels[constants.GPUGroup] = op.Groups[0]
			must(s.Base.Create(ctx, pod))
			have := false
			for _, r := range w.s.Snapshot().Reservations {
				have = have || r.Group == op.Groups[0]
			}
			if !have {
				must(s.Base.Create(ctx, sim.BuildReservationPod(pi.node, op.Groups[0], 6)))
			}
			w.class("pod-left-labelled-by-abandoned-attempt")
		}
	case "bind", "retry", "rebind":
		return func() {
			pi := w.pod(op.Pod)
			if op.Type == "bind" && pi == nil {
				pi = &podInfo{name: podName(op.Pod), ns: op.NS, multi: op.Multi, groups: op.Groups, node: w.c.nodeOf(op.Groups[0])}
				w.mu.Lock()
				w.pods[op.Pod] = pi
				w.mu.Unlock()
				ps := sim.PodShape{Name: pi.name, NS: pi.ns, Kind: "fraction", Fraction: "0.25", Containers: 1 + op.Pod%2}
				if pi.multi {
					ps.Kind, ps.Devices = "multi", len(pi.groups)
				}
				s.EnvStep("create-pod+request", pi.ns+"/"+pi.name)
				must(s.Base.Create(ctx, sim.BuildPod(ps)))
				must(s.Base.Create(ctx, sim.BuildRequest(ps, sim.ReqShape{Node: pi.node, Groups: pi.groups, Portion: "0.25", Backoff: backoff(op.NoLimit)})))
			}
			if op.Type == "rebind" {
				if pi == nil {
					res.skipped = true
					return
				}
				s.EnvStep("scheduler-new-request", pi.ns+"/"+pi.name)
				p := w.getPod(pi)
				if p == nil || p.Spec.NodeName != "" || w.getReq(pi) != nil || !pi.droppedTerminal {
					res.skipped = true
					return
				}
				if stale := staleGroups(sim.ViewPod(p).Groups, op.Groups); len(stale) > 0 {
					w.class("rebind-of-pod-still-labelled")
					res.staleAtRebind = stale
				}
				pi.groups, pi.node, pi.droppedTerminal = op.Groups, w.c.nodeOf(op.Groups[0]), false
				ps := sim.PodShape{Name: pi.name, NS: pi.ns, Kind: "fraction"}
				if pi.multi {
					ps.Kind = "multi"
				}
				must(s.Base.Create(ctx, sim.BuildRequest(ps, sim.ReqShape{Node: pi.node, Groups: pi.groups, Portion: "0.25"})))
			}
			if pi == nil || w.getReq(pi) == nil {
				res.skipped = true
				return
			}
			res.addressed = w.groupsOfNode(pi.node) // Bind starts with SyncForNode, Rollback ends with it
			// a terminally failed request (bindrequest_info.IsFailed) is the scheduler's to delete; the binder need not
			// (and, once fixed, does not) try it again
			br := w.getReq(pi)
			terminalBefore := br != nil && br.Status.Phase == schedulingv1alpha2.BindRequestPhaseFailed &&
				(br.Spec.BackoffLimit == nil || br.Status.FailedAttempts >= *br.Spec.BackoffLimit)
			s.Begin(id, op.Faults)
			_, _, pn := w.proc.Reconcile(pi.ns, pi.name)
			if pn != "" {
				panic("reconcile panicked: " + pn)
			}
			if id == 0 && len(op.Faults) == 0 && !terminalBefore {
				if p := w.getPod(pi); p != nil && p.Spec.NodeName == "" {
					res.unboundAfterCleanBind = fmt.Sprintf("a fault-free, non-concurrent reconcile of the request of pod %s (groups %v) leaves the pod unbound", pi.name, pi.groups)
				}
			}
			if op.Start && !s.Crashed() {
				s.EnvStep("kubelet-start", pi.ns+"/"+pi.name)
				if p := w.getPod(pi); p != nil && p.Spec.NodeName != "" && p.Status.Phase == v1.PodPending {
					old := p.DeepCopy()
					p.Status.Phase = v1.PodRunning
					must(s.Base.Status().Update(ctx, p))
					w.proc.PodUpdated(old, p)
				}
			}
		}
	case "start":
		return func() {
			pi := w.pod(op.Pod)
			if pi == nil {
				res.skipped = true
				return
			}
			s.EnvStep("kubelet-start", pi.ns+"/"+pi.name)
			p := w.getPod(pi)
			if p == nil || p.Spec.NodeName == "" || p.Status.Phase != v1.PodPending {
				res.skipped = true
				return
			}
			old := p.DeepCopy()
			p.Status.Phase = v1.PodRunning
			must(s.Base.Status().Update(ctx, p))
			s.Begin(id, nil)
			w.proc.PodUpdated(old, p)
		}
	case "complete":
		return func() {
			pi := w.pod(op.Pod)
			if pi == nil {
				res.skipped = true
				return
			}
			s.EnvStep("pod-completes", pi.ns+"/"+pi.name)
			p := w.getPod(pi)
			if p == nil || p.Status.Phase != v1.PodRunning {
				res.skipped = true
				return
			}
			res.addressed = sim.ViewPod(p).Groups
			old := p.DeepCopy()
			p.Status.Phase = v1.PodPhase(op.Phase)
			must(s.Base.Status().Update(ctx, p))
			s.Begin(id, op.Faults)
			w.proc.PodUpdated(old, p)
		}
	case "deletePod":
		return func() {
			pi := w.pod(op.Pod)
			if pi == nil {
				res.skipped = true
				return
			}
			s.EnvStep("pod-deleted", pi.ns+"/"+pi.name)
			p := w.getPod(pi)
			if p == nil {
				res.skipped = true
				return
			}
			if op.Graceful && p.DeletionTimestamp == nil && p.Spec.NodeName != "" {
				// the API server stamps the deletion time; the kubelet (grace period) or a finalizer keeps the object,
				// the containers still run
				old := p.DeepCopy()
				p.Finalizers = append(p.Finalizers, "batch.kubernetes.io/job-tracking")
				must(s.Base.Update(ctx, p))
				must(s.Base.Delete(ctx, p.DeepCopy()))
				cur := w.getPod(pi)
				if cur == nil || cur.DeletionTimestamp == nil {
					panic("graceful delete did not leave a terminating pod")
				}
				if len(sim.ViewPod(cur).Groups) > 0 && (cur.Status.Phase == v1.PodRunning || cur.Status.Phase == v1.PodPending) {
					w.class("labelled-pod-terminating-gracefully")
				}
				// (an update that only stamps the deletion time obliges nobody to sync: no group is addressed)
				s.Begin(id, op.Faults)
				w.proc.PodUpdated(old, cur)
				return
			}
			res.addressed = sim.ViewPod(p).Groups
			if p.DeletionTimestamp != nil && len(p.Finalizers) > 0 {
				p.Finalizers = nil
				must(s.Base.Update(ctx, p)) // the store drops an object under deletion once its last finalizer is gone
				if w.getPod(pi) != nil {
					panic("terminating pod not removed with its last finalizer")
				}
			} else if err := s.Base.Delete(ctx, p.DeepCopy()); err != nil && !apierrors.IsNotFound(err) {
				panic(err)
			}
			// garbage collection of the ConfigMaps the pod owns
			cms := &v1.ConfigMapList{}
			must(s.Base.List(ctx, cms, client.InNamespace(pi.ns)))
			for i := range cms.Items {
				for _, o := range cms.Items[i].OwnerReferences {
					if o.UID == p.UID {
						_ = s.Base.Delete(ctx, &cms.Items[i])
					}
				}
			}
			s.Begin(id, op.Faults)
			w.proc.PodDeleted(p)
		}
	case "deleteReq":
		return func() {
			pi := w.pod(op.Pod)
			if pi == nil {
				res.skipped = true
				return
			}
			s.EnvStep("request-deleted", pi.ns+"/"+pi.name)
			br := w.getReq(pi)
			if br == nil {
				res.skipped = true
				return
			}
			must(s.Base.Delete(ctx, br.DeepCopy()))
			pi.droppedTerminal = br.Status.Phase == schedulingv1alpha2.BindRequestPhaseFailed &&
				(br.Spec.BackoffLimit == nil || br.Status.FailedAttempts >= *br.Spec.BackoffLimit)
			res.addressed = append([]string(nil), br.Spec.SelectedGPUGroups...)
			s.Begin(id, op.Faults)
			w.proc.RequestDeleted(br)
		}
	case "syncNode":
		return func() {
			res.addressed = w.groupsOfNode(op.Node)
			s.Begin(id, op.Faults)
			_ = w.proc.RRS.SyncForNode(ctx, op.Node)
		}
	case "sync":
		return func() {
			for _, g := range w.c.Groups {
				res.addressed = append(res.addressed, g.Name)
			}
			s.Begin(id, op.Faults)
			_ = w.proc.RRS.Sync(ctx)
		}
	}
	return func() { res.skipped = true }
}

// safely runs one event body; a panic of the code under test (or of the harness) is returned as text.
// The schedule draws of rapid never happen inside fn.
func safely(fn func()) (panicked string) {
	defer func() {
		if r := recover(); r != nil {
			panicked = fmt.Sprintf("%v\n%s", r, debug.Stack())
		}
	}()
	fn()
	return ""
}

func (w *world) podKeyOf(op *Op) string {
	if pi := w.pod(op.Pod); pi != nil {
		return pi.ns + "/" + pi.name
	}
	return ""
}

func contains(xs []string, x string) bool {
	for _, y := range xs {
		if y == x {
			return true
		}
	}
	return false
}

func (w *world) groupsOfNode(node string) []string {
	var out []string
	for _, g := range w.c.Groups {
		if g.Node == node {
			out = append(out, g.Name)
		}
	}
	return out
}

func describe(op Op) string {
	b, _ := json.Marshal(op)
	return string(b)
}

func must(err error) {
	if err != nil {
		panic(err)
	}
}

func ptr(v int32) *int32 { return &v }

func backoff(noLimit bool) *int32 {
	if noLimit {
		return nil
	}
	return ptr(5)
}

// staleGroups: groups carried by the pod that the new request does not select.
func staleGroups(carried, selected []string) []string {
	var out []string
	for _, g := range carried {
		found := false
		for _, x := range selected {
			if x == g {
				found = true
			}
		}
		if !found {
			out = append(out, g)
		}
	}
	return out
}

func strs(cs []sim.Call) []string {
	out := make([]string, len(cs))
	for i, c := range cs {
		out[i] = c.String()
	}
	return out
}

// execute runs the history. choose draws schedule choices (search) or is nil (replay: recorded
// choices are used).
func execute(c *Case, choose func(step int, ready []int) int) (sig, msg string, w *world) {
	var objs []client.Object
	nodes := map[string]bool{}
	for _, g := range c.Groups {
		if !nodes[g.Node] {
			nodes[g.Node] = true
			objs = append(objs, sim.BuildNode(g.Node))
		}
	}
	s := sim.New(objs, nil)
	s.CDI, s.IndexPolicy = c.CDI, c.IndexPolicy
	w = &world{c: c, s: s, proc: s.NewProc(), pods: map[int]*podInfo{}, trace: &Trace{}, classes: map[string]bool{}, notes: map[string]int64{}, tainted: map[string]bool{}}
	for oi := range c.Ops {
		op := &c.Ops[oi]
		step := TraceStep{Op: describe(*op)}
		var results []*opResult
		if op.Type == "batch" {
			w.class("batch")
			var fns []func()
			for j := range op.Ops {
				r := &opResult{}
				results = append(results, r)
				fns = append(fns, w.opFunc(op.Ops[j], j+1, r))
			}
			recorded := op.Choices
			var taken []int
			sr := s.RunConcurrent(fns, func(st int, ready []int) int {
				ci := 0
				if choose != nil {
					ci = choose(st, ready)
				} else if st < len(recorded) {
					ci = recorded[st]
				}
				if ci >= len(ready) {
					ci = 0
				}
				taken = append(taken, ci)
				return ci
			})
			op.Choices = taken
			step.Schedule = &sr
			if sr.TimedOut {
				w.incon = "schedule controller watchdog"
				// keep the goroutine dump and the case next to the shard's summary for diagnosis
				if out := kit.GetEnv().Out; out != "" {
					cb, _ := json.Marshal(c)
					_ = os.WriteFile(out+".stuck.txt", []byte(string(cb)+"\n\n"+sr.Stuck), 0o644)
				}
				return "", "", w
			}
			if sr.Deadlock {
				return "deadlock", "all unfinished concurrent operations are blocked on GPU-group mutexes:\n" + sr.Stuck, w
			}
			if len(sr.Panics) > 0 {
				return "panic", strings.Join(sr.Panics, "; "), w
			}
			if sr.Blocked > 0 {
				w.class("blocked-on-group-mutex")
			}
			calls := s.TakeCalls()
			s.TakeMarks()
			step.Calls = strs(calls)
			for j := range op.Ops {
				for _, cl := range calls {
					if cl.Actor == j+1 {
						results[j].calls = append(results[j].calls, cl)
					}
				}
			}
			if overlapOnGroup(results) {
				w.nontriv = true
				w.class("overlap-on-one-group")
			}
		} else {
			r := &opResult{}
			results = append(results, r)
			if pn := safely(w.opFunc(*op, 0, r)); pn != "" {
				return "panic", fmt.Sprintf("step %d (%s) panicked: %s", oi, step.Op, pn), w
			}
			r.calls = s.TakeCalls()
			step.Calls = strs(r.calls)
			if marks := s.TakeMarks(); (op.Type == "bind" || op.Type == "retry" || op.Type == "rebind") && len(marks) == 0 {
				r.addressed = nil // the reconcile returned before Bind (request finished, pod gone or already bound): no sync ran
			}
			if r.unboundAfterCleanBind != "" {
				step.After = s.Snapshot()
				w.trace.Steps = append(w.trace.Steps, step)
				return "clean-bind-fails", fmt.Sprintf("step %d: %s", oi, r.unboundAfterCleanBind), w
			}
		}
		crashed := s.Crashed()
		for j, r := range results {
			ty := op.Type
			if ty == "batch" {
				ty = op.Ops[j].Type
			}
			if r.skipped {
				w.class("skipped:" + ty)
				continue
			}
			w.class("op:" + ty)
			for _, cl := range r.calls {
				if cl.Injected == "" {
					continue
				}
				r.fired = true
				w.class("fault:" + cl.Injected)
				if cl.Phase != "bind" && cl.Injected != "mute" {
					r.firedSync = true
				}
			}
			if pi := w.podOf(op, j); pi != nil && pi.multi && secondLabelPatchFailed(r.calls, pi) {
				w.class("multi-fraction-2nd-label-patch-failed")
			}
			if betweenCreateAndLabel(r.calls) {
				w.nontriv = true
				w.class("fault-between-reservation-create-and-label")
			}
			switch {
			case crashed:
			case r.firedSync:
				// a failure hit the very sync that follows the event: for the groups that sync was about, the
				// next sync that covers them is the one to judge
				for _, g := range r.addressed {
					w.tainted[g] = true
				}
				w.class("faulted-sync:groups-deferred")
			case op.Type != "batch" && !r.fired:
				for _, g := range r.addressed {
					if w.tainted[g] {
						w.class("deferred-group-judged-after-covering-sync:" + ty)
					}
					delete(w.tainted, g)
				}
			}
		}
		// crashes are followed by a restart and the start-up Sync()
		if crashed {
			w.class("crash+restart")
			s.Restart()
			w.proc = s.NewProc()
			s.Begin(0, nil)
			if err := w.proc.RRS.Sync(context.Background()); err != nil {
				return "sync-fails", fmt.Sprintf("fault-free start-up Sync() fails: %v", err), w
			}
			step.Restart = strs(s.TakeCalls())
			w.tainted = map[string]bool{}
		}
		if oi == len(c.Ops)-1 && len(w.tainted) > 0 {
			w.class("final-sync-for-deferred-groups")
			s.Begin(0, nil)
			if err := w.proc.RRS.Sync(context.Background()); err != nil {
				return "sync-fails", fmt.Sprintf("fault-free Sync() fails: %v", err), w
			}
			step.Extra = strs(s.TakeCalls())
			w.tainted = map[string]bool{}
		}
		sn := s.Snapshot()
		step.After = sn
		step.Deferred = sim.SortedKeys(w.tainted)
		w.trace.Steps = append(w.trace.Steps, step)
		// a dedicated signature for what a re-bind does to the groups the pod still carried (same clauses as
		// judge, narrower name)
		for _, r := range results {
			for _, g := range r.staleAtRebind {
				if pv, ok := sn.Pods[w.podKeyOf(op)]; ok && pv.Node != "" && contains(pv.Groups, g) {
					return "rebind-keeps-stale-label", fmt.Sprintf("after step %d (%s): the pod was bound into %v and still carries group %s of its dropped request", oi, step.Op, op.Groups, g), w
				}
				if len(sn.ReservationsOf(g)) > 0 && len(sn.LiveCarriers(g)) == 0 && !w.tainted[g] {
					return "rebind-leaves-old-group", fmt.Sprintf("after step %d (%s): the pod left group %s for %v; the reservation pod of %s has no consumer any more and no sync followed", oi, step.Op, g, op.Groups, g), w
				}
			}
		}
		if sig, msg := w.judge(sn); sig != "" {
			return sig, fmt.Sprintf("after step %d (%s): %s", oi, step.Op, msg), w
		}
	}
	return "", "", w
}

var groupSel = []string{"l:" + constants.GPUGroup + "=", "l:" + constants.MultiGpuGroupLabelPrefix}

// groupsTouched extracts the GPU groups an actor's calls addressed (label selectors of its lists).
func groupsTouched(calls []sim.Call) map[string]bool {
	out := map[string]bool{}
	for _, cl := range calls {
		for _, part := range strings.Fields(cl.Key) {
			if strings.HasPrefix(part, "l:"+constants.GPUGroup+"=") {
				out[strings.TrimPrefix(part, "l:"+constants.GPUGroup+"=")] = true
			} else if strings.HasPrefix(part, "l:"+constants.MultiGpuGroupLabelPrefix) {
				v := strings.TrimPrefix(part, "l:"+constants.MultiGpuGroupLabelPrefix)
				if i := strings.Index(v, "="); i >= 0 {
					out[v[:i]] = true
				}
			}
		}
	}
	return out
}

// overlapOnGroup: two concurrent operations whose call intervals interleave and that address one group.
func overlapOnGroup(rs []*opResult) bool {
	for i := 0; i < len(rs); i++ {
		for j := i + 1; j < len(rs); j++ {
			a, b := rs[i].calls, rs[j].calls
			if len(a) == 0 || len(b) == 0 {
				continue
			}
			if a[0].Seq > b[len(b)-1].Seq || b[0].Seq > a[len(a)-1].Seq {
				continue
			}
			ga, gb := groupsTouched(a), groupsTouched(b)
			for g := range ga {
				if gb[g] {
					return true
				}
			}
		}
	}
	return false
}

func (w *world) podOf(op *Op, j int) *podInfo {
	o := *op
	if op.Type == "batch" {
		o = op.Ops[j]
	}
	switch o.Type {
	case "bind", "retry", "rebind":
		return w.pods[o.Pod]
	}
	return nil
}

// secondLabelPatchFailed: an injected error at the consumer's label patch for its 2nd or later group.
func secondLabelPatchFailed(calls []sim.Call, pi *podInfo) bool {
	ord := 0
	for _, cl := range calls {
		if cl.Phase != "bind" || cl.Verb != "patch" || cl.Kind != "Pod" || cl.Key != pi.ns+"/"+pi.name {
			continue
		}
		ord++
		if ord > len(pi.groups) {
			return false
		}
		if cl.Injected == "error" && ord >= 2 {
			return true
		}
	}
	return false
}

// betweenCreateAndLabel: an injected failure / crash / mute hit after a reservation pod was created
// and before the consumer's label patch went through.
func betweenCreateAndLabel(calls []sim.Call) bool {
	created := false
	for _, cl := range calls {
		switch {
		case cl.Verb == "create" && cl.Kind == "Pod" && strings.HasPrefix(cl.Key, sim.ReservationNS+"/") && cl.Err == "":
			created = true
		case created && cl.Injected != "":
			return true
		case created && cl.Verb == "patch" && cl.Kind == "Pod" && cl.Err == "":
			created = false
		}
	}
	return false
}

// ---------------------------------------------------------------------------------------------
// oracle (quiescent states)

func (w *world) judge(sn *sim.Snapshot) (string, string) {
	// I1: at most one reservation pod per group
	for _, g := range sn.AllGroups() {
		if rs := sn.ReservationsOf(g); len(rs) > 1 {
			return "two-reservations", fmt.Sprintf("group %s has %d reservation pods: %+v", g, len(rs), rs)
		}
	}
	// I3: reservation pod exists <=> a live (Pending/Running) pod carries the group
	for _, r := range sn.Reservations {
		if w.tainted[r.Group] {
			continue
		}
		if len(sn.LiveCarriers(r.Group)) == 0 {
			return "reservation-without-consumer", fmt.Sprintf("reservation pod %s (group %s, node %s) exists but no Pending/Running pod carries the group", r.Name, r.Group, r.Node)
		}
	}
	for _, g := range sn.AllGroups() {
		carriers := sn.LiveCarriers(g)
		if len(carriers) == 0 || len(sn.ReservationsOf(g)) > 0 || w.tainted[g] {
			continue
		}
		for _, k := range carriers {
			if sn.Pods[k].Phase == string(v1.PodRunning) {
				return "running-without-reservation", fmt.Sprintf("running pod %s carries group %s which has no reservation pod", k, g)
			}
		}
		return "carrier-without-reservation", fmt.Sprintf("pending pod(s) %v carry group %s which has no reservation pod", carriers, g)
	}
	// I2: every pod bound into a group was given that group's reservation index
	ids := make([]int, 0, len(w.pods))
	for i := range w.pods {
		ids = append(ids, i)
	}
	sort.Ints(ids)
	for _, i := range ids {
		pi := w.pods[i]
		pv, ok := sn.Pods[pi.ns+"/"+pi.name]
		if !ok || pv.Node == "" || (pv.Phase != string(v1.PodPending) && pv.Phase != string(v1.PodRunning)) {
			continue
		}
		if pv.Node != pi.node {
			return "wrong-node", fmt.Sprintf("pod %s bound to %s, request names %s", pi.name, pv.Node, pi.node)
		}
		want := append([]string(nil), pi.groups...)
		sort.Strings(want)
		if strings.Join(pv.Groups, ",") != strings.Join(want, ",") {
			return "bound-labels-mismatch", fmt.Sprintf("bound pod %s carries groups %v (single=%q multi=%v), its request selected %v", pi.name, pv.Groups, pv.Single, pv.Multi, pi.groups)
		}
		var idx []string
		for _, g := range pi.groups {
			rs := sn.ReservationsOf(g)
			if len(rs) != 1 {
				return "bound-without-reservation", fmt.Sprintf("bound pod %s carries group %s which has %d reservation pods", pi.name, g, len(rs))
			}
			if rs[0].Node != pv.Node {
				return "reservation-other-node", fmt.Sprintf("pod %s is on %s, the reservation pod of its group %s on %s", pi.name, pv.Node, g, rs[0].Node)
			}
			v := rs[0].Index
			if w.c.CDI {
				v = "k8s.device-plugin.nvidia.com/gpu=" + v
			}
			idx = append(idx, v)
		}
		stored := w.getPod(pi)
		if stored == nil {
			continue
		}
		ctr := sim.FractionContainer(stored)
		env, missing := sim.EffectiveEnv(stored, ctr, sn)
		if len(missing) > 0 {
			return "configmap-missing", fmt.Sprintf("bound pod %s references ConfigMaps that do not exist: %v", pi.name, missing)
		}
		if got, want := env[constants.NvidiaVisibleDevices], strings.Join(idx, ","); got != want {
			return "wrong-device", fmt.Sprintf("bound pod %s sees NVIDIA_VISIBLE_DEVICES=%q but the reservation pods of its groups %v hold %q", pi.name, got, pi.groups, want)
		}
	}
	return "", ""
}

// ---------------------------------------------------------------------------------------------
// property

func record(c *Case, w *world) {
	classes := make([]string, 0, len(w.classes))
	for k := range w.classes {
		classes = append(classes, k)
	}
	sort.Strings(classes)
	multi := false
	for _, p := range w.pods {
		if p.multi {
			multi = true
		}
	}
	if multi {
		classes = append(classes, "has-multi-fraction-pod")
	}
	if w.nontriv {
		classes = append(classes, "nontrivial")
	}
	for k, v := range w.notes {
		kit.Note(k, v)
	}
	kit.Eval(kit.HexKey(c), w.nontriv, classes...)
	if w.nontriv && kit.WantSample() {
		kit.Sample(c)
	}
}

func TestCheckReservationTracking(t *testing.T) {
	kit.Run(t, kit.Budget{Quick: 6000, Thorough: 120000}, func(t *rapid.T) {
		c := genCase(t)
		sig, msg, w := execute(c, func(step int, ready []int) int { return sim.Uniform(t, len(ready), "sched") })
		if w.incon != "" {
			kit.Inconclusive()
			kit.Note("inconclusive:"+w.incon, 1)
			return
		}
		record(c, w)
		if sig != "" && kit.Known(prop, sig) {
			return // listed under "known" in /verif/known_findings.json: counted, the search goes on
		}
		if sig != "" {
			path := kit.Violation(prop, sig, msg, c, w.trace)
			t.Fatalf("VIOLATION %s: %s (%s)", sig, msg, path)
		}
	})
}

func TestReplay(t *testing.T) {
	kit.ReplayMain(t, func(rf *kit.ReplayFile) kit.ReplayResult {
		res := kit.ReplayResult{}
		for i := 0; i < 10; i++ {
			var c Case
			if err := json.Unmarshal(rf.Case, &c); err != nil {
				t.Fatalf("bad case: %v", err)
			}
			sig, msg, _ := execute(&c, nil)
			res.Runs++
			if sig != "" {
				res.Bad++
				if !res.Violated {
					res.Violated, res.Signature, res.Message = true, sig, msg
				}
			}
		}
		return res
	})
}
