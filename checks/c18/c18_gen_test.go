package controllers

import (
	"encoding/json"
	"fmt"
	"strconv"

	"pgregory.net/rapid"
)

// ---------------------------------------------------------------------------------------------
// fair draws (rapid's own integer generators are biased towards small values)

type c18G struct {
	t     *rapid.T
	c     *c18Case
	names map[string]bool
}

func (g *c18G) u(n int, label string) int {
	if n <= 1 {
		return 0
	}
	v := 0
	for _, b := range rapid.SliceOfN(rapid.Bool(), 8, 8).Draw(g.t, label) {
		v <<= 1
		if b {
			v |= 1
		}
	}
	return v * n / 256
}
func (g *c18G) chance(tenths int, label string) bool {
	if tenths <= 0 {
		return false
	}
	if tenths >= 10 {
		return true
	}
	return g.u(10, label) >= 10-tenths
}
func (g *c18G) between(lo, hi int, label string) int { return lo + g.u(hi-lo+1, label) }
func (g *c18G) pick(label string, vals ...string) string {
	return vals[g.u(len(vals), label)]
}

var c18Letters = []string{"a", "b", "c", "d", "e", "f", "g", "h", "k", "m", "n", "p", "q", "r", "t", "x"}

// name draws a unique object name "<prefix>-<xy>".
func (g *c18G) name(prefix string) string {
	for i := 0; ; i++ {
		n := prefix + "-" + c18Letters[g.u(16, "nameA")] + c18Letters[g.u(16, "nameB")]
		if i > 3 {
			n += strconv.Itoa(i)
		}
		if !g.names[n] {
			g.names[n] = true
			return n
		}
	}
}

func (g *c18G) uid(name string) string {
	return fmt.Sprintf("%04x-%s", g.u(256, "uidA")*256+g.u(256, "uidB"), name)
}

func c18Copy(ms ...map[string]string) map[string]string {
	out := map[string]string{}
	for _, m := range ms {
		for k, v := range m {
			out[k] = v
		}
	}
	return out
}

func c18S2A(m map[string]string) map[string]any {
	out := map[string]any{}
	for k, v := range m {
		out[k] = v
	}
	return out
}

// obj appends an owner-chain object and returns a reference to it.
func (g *c18G) obj(apiVersion, kind, name string, labels, ann map[string]string, owner *c18Ref, rest map[string]any) c18Ref {
	ref := c18Ref{APIVersion: apiVersion, Kind: kind, Name: name, UID: g.uid(name)}
	md := map[string]any{"name": name, "namespace": c18NS, "uid": ref.UID}
	if len(labels) > 0 {
		md["labels"] = c18S2A(labels)
	}
	if len(ann) > 0 {
		md["annotations"] = c18S2A(ann)
	}
	if owner != nil {
		md["ownerReferences"] = []any{map[string]any{"apiVersion": owner.APIVersion, "kind": owner.Kind, "name": owner.Name, "uid": owner.UID, "controller": true}}
	}
	o := map[string]any{"apiVersion": apiVersion, "kind": kind, "metadata": md}
	for k, v := range rest {
		o[k] = v
	}
	g.c.Objects = append(g.c.Objects, o)
	return ref
}

// ---------------------------------------------------------------------------------------------
// scheduling metadata

type c18Meta struct {
	ownerLabels, ownerAnn map[string]string // on the top owner
	midLabels             map[string]string // on intermediate owners (rare)
	podLabels, podAnn     map[string]string // pod template
	podPrioClass          string            // pod.spec.priorityClassName
	prioSources           int               // how many places name a priority class
	prioValue             string            // the class named, when prioSources == 1 and it exists
}

var c18PrioNames = []string{"train", "build", "inference", "high", "low"}

func (g *c18G) prioExists(n string) bool {
	for _, p := range g.c.Prios {
		if p.Name == n {
			return true
		}
	}
	return false
}

func (g *c18G) schedLabels(where string, p int) (map[string]string, string) {
	l := map[string]string{}
	prio := ""
	if g.chance(p, where+"Queue") {
		l[g.c.Cfg.QueueKey] = g.pick(where+"QueueV", "q-a", "q-b")
	}
	if g.chance(p-1, where+"Project") {
		l["project"] = g.pick(where+"ProjectV", "proj-a", "proj-b")
	}
	if g.chance(p, where+"Prio") {
		prio = g.pick(where+"PrioV", "train", "build", "inference", "high", "low", "missing-class")
		l["priorityClassName"] = prio
	}
	if g.chance(p, where+"Preempt") {
		l["kai.scheduler/preemptibility"] = g.pick(where+"PreemptV", "preemptible", "non-preemptible")
	}
	if g.chance(p-1, where+"User") {
		l["user"] = g.pick(where+"UserV", "alice", "bob")
	}
	if g.chance(p-1, where+"Pool") {
		key := g.c.Cfg.NodePoolKey
		if key == "" {
			key = "kai.scheduler/node-pool"
		}
		l[key] = g.pick(where+"PoolV", "pool-a", "pool-b")
	}
	if g.chance(3, where+"Noise") {
		l["app"] = g.pick(where+"NoiseV", "x", "y")
	}
	return l, prio
}

func (g *c18G) meta() *c18Meta {
	m := &c18Meta{}
	var p1, p2, p3 string
	m.ownerLabels, p1 = g.schedLabels("owner", 4)
	m.podLabels, p2 = g.schedLabels("pod", 3)
	if g.chance(1, "midLabelled") {
		m.midLabels, p3 = g.schedLabels("mid", 3)
	}
	m.ownerAnn = map[string]string{}
	if g.chance(2, "ownerTopology") {
		m.ownerAnn["kai.scheduler/topology"] = "topo-a"
		if g.chance(5, "ownerTopoReq") {
			m.ownerAnn["kai.scheduler/topology-required-placement"] = "rack"
		} else {
			m.ownerAnn["kai.scheduler/topology-preferred-placement"] = "zone"
		}
	}
	if g.chance(2, "ownerNoiseAnn") {
		m.ownerAnn["note"] = "n1"
	}
	m.podAnn = map[string]string{}
	if g.chance(2, "podUserAnn") {
		m.podAnn["user"] = "carol"
	}
	if g.chance(1, "podSpecPrio") {
		m.podPrioClass = g.pick("podSpecPrioV", "train", "high", "low", "missing-class")
	}
	for _, p := range []string{p1, p2, p3, m.podPrioClass} {
		if p != "" {
			m.prioSources++
			m.prioValue = p
		}
	}
	return m
}

// docPrio returns the documented priority class of a workload: the label override when exactly one place
// names an existing class, the documented default of the kind when nothing names one; "" = not asserted.
func (g *c18G) docPrio(m *c18Meta, kindDefault string) string {
	if g.c.Cfg.DefaultsCM != "" || len(m.midLabels) > 0 {
		return ""
	}
	switch m.prioSources {
	case 0:
		return kindDefault
	case 1:
		if m.podPrioClass == "" && g.prioExists(m.prioValue) {
			return m.prioValue
		}
	}
	return ""
}

// ---------------------------------------------------------------------------------------------
// pods

type c18PodOpt struct {
	role     map[string]string
	key      string
	wantName string
	wantSub  string
	wantMin  int32
	nodeName string
	ann      map[string]string
}

func (g *c18G) addPod(w int, name string, owner *c18Ref, m *c18Meta, o c18PodOpt) *c18Pod {
	p := c18Pod{Name: name, UID: g.uid(name), Labels: c18Copy(m.podLabels, o.role), Annotations: c18Copy(m.podAnn, o.ann), Owner: owner,
		NodeName: o.nodeName, PrioClass: m.podPrioClass, Scheduler: c18Scheduler, W: w, Key: o.key, WantName: o.wantName, WantSub: o.wantSub, WantMin: o.wantMin}
	g.c.Pods = append(g.c.Pods, p)
	return &g.c.Pods[len(g.c.Pods)-1]
}

func c18PGName(name, uid string) string { return "pg-" + name + "-" + uid }

func (g *c18G) podTemplate(m *c18Meta) map[string]any {
	md := map[string]any{}
	if len(m.podLabels) > 0 {
		md["labels"] = c18S2A(m.podLabels)
	}
	if len(m.podAnn) > 0 {
		md["annotations"] = c18S2A(m.podAnn)
	}
	return map[string]any{"metadata": md, "spec": map[string]any{"schedulerName": c18Scheduler, "containers": []any{map[string]any{"name": "c", "image": "img"}}}}
}

// ---------------------------------------------------------------------------------------------
// shapes

type c18Shape struct {
	name   string
	weight int
	gen    func(g *c18G, w int, m *c18Meta) c18Workload
}

var c18Shapes []c18Shape

func init() {
	c18Shapes = []c18Shape{
		{"pod", 3, c18GenBarePods},
		{"spark", 1, c18GenSpark},
		{"deployment", 3, c18GenDeployment},
		{"replicaset", 1, c18GenSimple("apps/v1", "ReplicaSet", "train", nil)},
		{"statefulset", 2, c18GenSimple("apps/v1", "StatefulSet", "train", nil)},
		{"job", 3, c18GenJob},
		{"cronjob", 2, c18GenCronJob},
		{"pytorchjob", 3, c18GenKubeflow("PyTorchJob")},
		{"tfjob", 2, c18GenKubeflow("TFJob")},
		{"mpijob", 3, c18GenKubeflow("MPIJob")},
		{"xgboostjob", 1, c18GenKubeflow("XGBoostJob")},
		{"jaxjob", 1, c18GenKubeflow("JAXJob")},
		{"notebook", 1, c18GenNotebook},
		{"jobset", 3, c18GenJobSet(false)},
		{"trainjob-jobset", 2, c18GenJobSet(true)},
		{"raycluster", 2, c18GenRay("RayCluster")},
		{"rayjob", 2, c18GenRay("RayJob")},
		{"rayservice", 1, c18GenRay("RayService")},
		{"lws", 3, c18GenLWS},
		{"argo-pods", 2, c18GenArgoPods},
		{"argo-pytorchjob", 2, c18GenSkipTop("argoproj.io/v1alpha1", "Workflow", "pytorch")},
		{"runai-training-job", 1, c18GenSkipTop("run.ai/v2alpha1", "TrainingWorkload", "job")},
		{"argo-job", 1, c18GenSkipTop("argoproj.io/v1alpha1", "Workflow", "job")},
		{"unknown-crd-job", 1, c18GenUnknownJob},
		{"runai-inference-deployment", 1, c18GenSkipTop("run.ai/v1", "InferenceWorkload", "deployment")},
		{"runai-distributed-mpijob", 1, c18GenSkipTop("run.ai/v2alpha1", "DistributedWorkload", "mpi")},
		{"runai-interactive-statefulset", 1, c18GenSkipTop("run.ai/v2alpha1", "InteractiveWorkload", "statefulset")},
		{"unknown-crd", 2, c18GenSimple("example.com/v1", "Widget", "train", nil)},
		{"unknown-crd-deployment", 2, c18GenUnknownDeployment},
		{"knative", 2, c18GenKnative},
		{"grove", 2, c18GenGrove(false)},
		{"dynamo-grove", 1, c18GenGrove(true)},
		{"amljob", 1, c18GenAml},
		{"spotrequest", 1, c18GenSimple("egx.nvidia.io/v1", "SPOTRequest", "inference", nil)},
		{"seldon", 1, c18GenUnknownDeploymentOf("machinelearning.seldon.io/v1", "SeldonDeployment")},
		{"vmi", 1, c18GenSimple("kubevirt.io/v1", "VirtualMachineInstance", "train", nil)},
		{"tekton", 1, c18GenTekton},
		{"runaijob", 1, c18GenSimple("run.ai/v1", "RunaiJob", "train", nil)},
	}
}

var c18PlainLabelShapes = map[string]bool{"pod": true, "spark": true, "deployment": true, "replicaset": true, "statefulset": true, "job": true,
	"pytorchjob": true, "tfjob": true, "mpijob": true, "xgboostjob": true, "jaxjob": true, "notebook": true, "jobset": true,
	"raycluster": true, "rayjob": true, "rayservice": true, "lws": true, "unknown-crd": true, "unknown-crd-deployment": true,
	"amljob": true, "spotrequest": true, "seldon": true, "vmi": true, "tekton": true, "runaijob": true, "unknown-crd-job": true}

func (g *c18G) nPods(max int) int { return g.between(1, max, "nPods") }

// bare pods: every pod is its own top owner ("For pods with no owner, a Train-priority PodGroup with MinMember=1")
func c18GenBarePods(g *c18G, w int, m *c18Meta) c18Workload {
	n := g.nPods(3)
	for i := 0; i < n; i++ {
		name := g.name("solo")
		p := g.addPod(w, name, nil, m, c18PodOpt{key: name, wantSub: ""})
		p.WantName = c18PGName(p.Name, p.UID)
		p.Labels = c18Copy(p.Labels, m.ownerLabels) // the pod is the owner: owner labels live on the pod
		switch g.u(12, "bareVariant") {
		case 0: // user-managed pod group: orphan pod that already names a group is left alone
			p.Annotations = c18Copy(p.Annotations, map[string]string{"pod-group-name": "user-made-group"})
			p.Key, p.WantName = "", ""
		case 1: // another scheduler's pod
			p.Scheduler = "default-scheduler"
			p.Key, p.WantName = "", ""
		}
	}
	mm := *m
	mm.podLabels = c18Copy(m.podLabels, m.ownerLabels)
	prio := ""
	if pl, ol := m.podLabels["priorityClassName"], m.ownerLabels["priorityClassName"]; pl == "" || ol == "" || pl == ol {
		mm.prioSources = 0
		mm.prioValue = ""
		for _, p := range []string{mm.podLabels["priorityClassName"], m.podPrioClass} {
			if p != "" {
				mm.prioSources++
				mm.prioValue = p
			}
		}
		prio = g.docPrio(&mm, "train")
	}
	return c18Workload{Shape: "pod", WantMin: 1, WantPrio: prio, WantOwnerIs: "pod"}
}

func c18GenSpark(g *c18G, w int, m *c18Meta) c18Workload {
	sel := g.name("spark-app") // spark-app-selector is unique per application
	role := map[string]string{"spark-app-name": "app", "spark-app-selector": sel}
	drv := g.addPod(w, g.name("spark-driver"), nil, m, c18PodOpt{role: c18Copy(role, map[string]string{"spark-role": "driver"}), key: "app", wantName: sel})
	drv.Labels = c18Copy(drv.Labels, m.ownerLabels)
	top := c18Ref{APIVersion: "v1", Kind: "Pod", Name: drv.Name, UID: drv.UID}
	n := g.between(0, 3, "sparkExecutors")
	for i := 0; i < n; i++ {
		// driver and executors carry the same scheduling labels (one template assumption, see check.json)
		e := g.addPod(w, g.name("spark-exec"), &top, m, c18PodOpt{role: c18Copy(role, map[string]string{"spark-role": "executor"}), key: "app", wantName: sel})
		e.Labels = c18Copy(e.Labels, m.ownerLabels)
	}
	return c18Workload{Shape: "spark", Top: top, WantOwnerIs: "top"}
}

// Deployment: "A Pod Group is created per pod of the deployment", default priority class Inference.
func c18GenDeployment(g *c18G, w int, m *c18Meta) c18Workload {
	name := g.name("deploy")
	top := g.obj("apps/v1", "Deployment", name, m.ownerLabels, m.ownerAnn, nil, map[string]any{"spec": map[string]any{"replicas": int64(3),
		"selector": map[string]any{"matchLabels": map[string]any{"d": name}}, "template": g.podTemplate(m)}})
	rs := g.obj("apps/v1", "ReplicaSet", name+"-"+g.pick("rsHash", "5d9c", "77fb"), m.midLabels, nil, &top, map[string]any{"spec": map[string]any{"replicas": int64(3),
		"selector": map[string]any{"matchLabels": map[string]any{"d": name}}}})
	n := g.nPods(4)
	for i := 0; i < n; i++ {
		pn := g.name(rs.Name)
		p := g.addPod(w, pn, &rs, m, c18PodOpt{key: pn})
		p.WantName = c18PGName(p.Name, p.UID)
	}
	return c18Workload{Shape: "deployment", Top: top, WantMin: 1, WantPrio: g.docPrio(m, "inference"), WantOwnerIs: "pod"}
}

// c18GenSimple: the pods are owned directly by one top owner that the hub maps to the default grouper (or a thin
// variation of it): one PodGroup pg-<owner>-<uid> with minMember 1.
func c18GenSimple(apiVersion, kind, defPrio string, rest map[string]any) func(g *c18G, w int, m *c18Meta) c18Workload {
	return func(g *c18G, w int, m *c18Meta) c18Workload {
		name := g.name(map[string]string{"ReplicaSet": "rs", "StatefulSet": "sts", "Widget": "widget", "SPOTRequest": "spot", "VirtualMachineInstance": "vmi", "RunaiJob": "rjob"}[kind])
		body := map[string]any{"spec": map[string]any{"replicas": int64(2)}}
		if kind == "StatefulSet" {
			body = map[string]any{"spec": map[string]any{"replicas": int64(2), "serviceName": name, "selector": map[string]any{"matchLabels": map[string]any{"s": name}}, "template": g.podTemplate(m)}}
		}
		top := g.obj(apiVersion, kind, name, m.ownerLabels, m.ownerAnn, nil, body)
		n := g.nPods(5)
		for i := 0; i < n; i++ {
			pn := name + "-" + strconv.Itoa(i)
			if kind != "StatefulSet" {
				pn = g.name(name)
			}
			g.addPod(w, pn, &top, m, c18PodOpt{key: "all", wantName: c18PGName(top.Name, top.UID)})
		}
		wl := c18Workload{Shape: kind, Top: top, WantMin: 1, WantPrio: g.docPrio(m, defPrio), WantOwnerIs: "top"}
		if kind == "RunaiJob" || kind == "SPOTRequest" {
			// name rule of these plugins is not documented; SPOTRequest priority default is not documented either
			for i := range g.c.Pods {
				if g.c.Pods[i].W == w {
					if kind == "RunaiJob" {
						g.c.Pods[i].WantName = ""
					}
				}
			}
			if kind == "SPOTRequest" {
				wl.WantPrio = ""
			}
		}
		return wl
	}
}

// batch Job: docs/batch "2 pods that will be scheduled separately"; pod-grouper.md "MinMember 1 ... priority class Train".
func c18GenJob(g *c18G, w int, m *c18Meta) c18Workload {
	name := g.name("job")
	spec := map[string]any{"template": g.podTemplate(m)}
	n := g.nPods(4)
	if g.chance(7, "jobParallelism") {
		spec["parallelism"] = int64(g.between(1, 4, "jobParallelismV"))
	}
	if g.chance(4, "jobCompletions") {
		spec["completions"] = int64(g.between(1, 6, "jobCompletionsV"))
	}
	top := g.obj("batch/v1", "Job", name, m.ownerLabels, m.ownerAnn, nil, map[string]any{"spec": spec})
	par, _ := spec["parallelism"].(int64)
	legacy := g.c.Cfg.SearchLegacy && par <= 1 && g.chance(2, "jobLegacyPodGroup")
	if legacy {
		// search-legacy-pg: a PodGroup named after the Job (the old naming for non-parallel jobs) is reused for all its pods
		g.c.Existing = append(g.c.Existing, c18Existing{Name: c18PGName(top.Name, top.UID), Owner: top, Queue: "legacy-queue"})
	}
	for i := 0; i < n; i++ {
		pn := g.name(name)
		if legacy {
			g.addPod(w, pn, &top, m, c18PodOpt{key: "all", wantName: c18PGName(top.Name, top.UID)})
		} else {
			g.addPod(w, pn, &top, m, c18PodOpt{key: pn})
		}
	}
	return c18Workload{Shape: "job", Top: top, WantMin: 1, WantPrio: g.docPrio(m, "train"), WantOwnerIs: "top"}
}

func c18GenCronJob(g *c18G, w int, m *c18Meta) c18Workload {
	name := g.name("cron")
	top := g.obj("batch/v1", "CronJob", name, m.ownerLabels, m.ownerAnn, nil, map[string]any{"spec": map[string]any{"schedule": "* * * * *",
		"jobTemplate": map[string]any{"spec": map[string]any{"template": g.podTemplate(m)}}}})
	job := g.obj("batch/v1", "Job", name+"-"+g.pick("cronRun", "2901", "2902"), m.midLabels, nil, &top, map[string]any{"spec": map[string]any{"template": g.podTemplate(m)}})
	n := g.nPods(3)
	for i := 0; i < n; i++ {
		g.addPod(w, g.name(job.Name), &job, m, c18PodOpt{key: "all"})
	}
	return c18Workload{Shape: "cronjob", Top: top}
}

// Kubeflow training jobs.
func c18GenKubeflow(kind string) func(g *c18G, w int, m *c18Meta) c18Workload {
	return func(g *c18G, w int, m *c18Meta) c18Workload {
		return c18KubeflowJob(g, w, m, kind, nil, "")
	}
}

func c18KubeflowJob(g *c18G, w int, m *c18Meta, kind string, owner *c18Ref, shape string) c18Workload {
	name := g.name(map[string]string{"PyTorchJob": "pt", "TFJob": "tf", "MPIJob": "mpi", "XGBoostJob": "xgb", "JAXJob": "jax"}[kind])
	apiVersion := "kubeflow.org/v1"
	specKey := map[string]string{"PyTorchJob": "pytorchReplicaSpecs", "TFJob": "tfReplicaSpecs", "MPIJob": "mpiReplicaSpecs", "XGBoostJob": "xgbReplicaSpecs", "JAXJob": "jaxReplicaSpecs"}[kind]
	type role struct {
		name     string
		replicas int
	}
	var roles []role
	switch kind {
	case "PyTorchJob":
		if g.chance(7, "ptMaster") {
			roles = append(roles, role{"Master", 1})
		}
		roles = append(roles, role{"Worker", g.between(1, 4, "ptWorkers")})
	case "TFJob":
		if g.chance(4, "tfChief") {
			roles = append(roles, role{"Chief", 1})
		}
		if g.chance(5, "tfPS") {
			roles = append(roles, role{"PS", g.between(1, 2, "tfPSn")})
		}
		roles = append(roles, role{"Worker", g.between(1, 3, "tfWorkers")})
	case "MPIJob":
		if g.chance(5, "mpiV2") {
			apiVersion = "kubeflow.org/v2beta1"
		}
		roles = []role{{"Launcher", 1}, {"Worker", g.between(1, 4, "mpiWorkers")}}
	case "XGBoostJob":
		roles = []role{{"Master", 1}, {"Worker", g.between(1, 3, "xgbWorkers")}}
	case "JAXJob":
		roles = []role{{"Worker", g.between(1, 4, "jaxWorkers")}}
	}
	total := 0
	specs := map[string]any{}
	workerTemplate := g.podTemplate(m)
	segment := 0
	workers := 0
	for _, r := range roles {
		total += r.replicas
		tmpl := g.podTemplate(m)
		if r.name == "Worker" {
			workers = r.replicas
			tmpl = workerTemplate
		}
		specs[r.name] = map[string]any{"replicas": int64(r.replicas), "restartPolicy": "Never", "template": tmpl}
	}
	podAnn := map[string]string{}
	if kind == "PyTorchJob" && workers >= 2 && g.chance(3, "ptSegment") {
		segment = g.between(1, workers, "ptSegmentV")
		// the segment size is an annotation of the worker pod template, hence also of every worker pod
		md := workerTemplate["metadata"].(map[string]any)
		ann, _ := md["annotations"].(map[string]any)
		if ann == nil {
			ann = map[string]any{}
		}
		ann["kai.scheduler/segment-size"] = strconv.Itoa(segment)
		md["annotations"] = ann
		podAnn["kai.scheduler/segment-size"] = strconv.Itoa(segment)
	}
	spec := map[string]any{specKey: specs}
	minAvail := 0
	if g.chance(3, "kfMinAvailable") {
		minAvail = g.between(1, total, "kfMinAvailableV")
		spec["runPolicy"] = map[string]any{"schedulingPolicy": map[string]any{"minAvailable": int64(minAvail)}}
	}
	if kind == "PyTorchJob" && g.chance(2, "ptElastic") {
		spec["elasticPolicy"] = map[string]any{"minReplicas": int64(g.between(1, workers, "ptMinReplicas")), "maxReplicas": int64(workers)}
	}
	delayedLauncher := false
	if kind == "MPIJob" && g.chance(3, "mpiDelayedLauncher") {
		spec["launcherCreationPolicy"] = "WaitForWorkersReady"
		delayedLauncher = true
	}
	top := g.obj(apiVersion, kind, name, m.ownerLabels, m.ownerAnn, owner, map[string]any{"spec": spec})
	added := 0
	for ri, r := range roles {
		for i := 0; i < r.replicas; i++ {
			last := ri == len(roles)-1 && i == r.replicas-1
			if !(last && added == 0) && !g.chance(8, "kfPodExists") {
				continue // not every replica's pod exists (yet)
			}
			if delayedLauncher && r.name == "Launcher" && g.chance(5, "mpiLauncherLate") {
				continue
			}
			added++
			lower := map[string]string{"Master": "master", "Worker": "worker", "Chief": "chief", "PS": "ps", "Launcher": "launcher"}[r.name]
			labels := map[string]string{"training.kubeflow.org/job-name": name, "training.kubeflow.org/replica-type": lower,
				"training.kubeflow.org/replica-index": strconv.Itoa(i), "training.kubeflow.org/operator-name": "training-operator"}
			if r.name == "Launcher" || r.name == "Master" || r.name == "Chief" {
				labels["training.kubeflow.org/job-role"] = map[string]string{"Launcher": "launcher", "Master": "master", "Chief": "master"}[r.name]
			}
			sub := ""
			ann := map[string]string{}
			if kind == "PyTorchJob" {
				sub = lower
				if r.name == "Worker" {
					ann = podAnn
					if segment > 0 {
						sub = "worker-" + strconv.Itoa(i/segment)
					}
				}
			}
			g.addPod(w, fmt.Sprintf("%s-%s-%d", name, lower, i), &top, m, c18PodOpt{role: labels, key: "all", wantSub: sub, ann: ann, wantName: c18PGName(top.Name, top.UID)})
		}
	}
	wl := c18Workload{Shape: shape, Top: top, WantOwnerIs: "top"}
	if shape == "" {
		wl.Shape = map[string]string{"PyTorchJob": "pytorchjob", "TFJob": "tfjob", "MPIJob": "mpijob", "XGBoostJob": "xgboostjob", "JAXJob": "jaxjob"}[kind]
		if kind == "MPIJob" {
			// "Infer gang scheduling requirements from schedulingPolicy.minAvailable, otherwise use all the replicas. Use Train priority class by default"
			wl.WantPrio = g.docPrio(m, "train")
			// (launcherCreationPolicy WaitForWorkersReady is not covered by the documentation: not asserted)
			if minAvail > 0 && !delayedLauncher {
				wl.WantMin = int32(minAvail)
			} else if !delayedLauncher {
				wl.WantMin = int32(total)
			}
		}
	}
	return wl
}

func c18GenNotebook(g *c18G, w int, m *c18Meta) c18Workload {
	name := g.name("nb")
	top := g.obj("kubeflow.org/v1beta1", "Notebook", name, m.ownerLabels, m.ownerAnn, nil, map[string]any{"spec": map[string]any{"template": g.podTemplate(m)}})
	sts := g.obj("apps/v1", "StatefulSet", name, m.midLabels, nil, &top, map[string]any{"spec": map[string]any{"replicas": int64(1), "serviceName": name,
		"selector": map[string]any{"matchLabels": map[string]any{"s": name}}, "template": g.podTemplate(m)}})
	g.addPod(w, name+"-0", &sts, m, c18PodOpt{key: "all", wantName: c18PGName(top.Name, top.UID)})
	return c18Workload{Shape: "notebook", Top: top, WantMin: 1, WantOwnerIs: "top"}
}

// JobSet (docs/developer/pod-grouper.md "JobSet Grouping"), optionally wrapped by a Kubeflow Trainer TrainJob.
func c18GenJobSet(trainJob bool) func(g *c18G, w int, m *c18Meta) c18Workload {
	return func(g *c18G, w int, m *c18Meta) c18Workload {
		var outer *c18Ref
		shape := "jobset"
		jsLabels, jsAnn := m.ownerLabels, m.ownerAnn
		if trainJob {
			tj := g.obj("trainer.kubeflow.org/v1alpha1", "TrainJob", g.name("trainjob"), m.ownerLabels, m.ownerAnn, nil, map[string]any{"spec": map[string]any{"runtimeRef": map[string]any{"name": "torch"}}})
			outer = &tj
			shape = "trainjob-jobset"
			jsLabels, jsAnn = m.midLabels, nil
		}
		name := g.name("js")
		if trainJob {
			name = outer.Name // the JobSet of a TrainJob carries the TrainJob's name
		}
		order := g.pick("jsOrder", "", "InOrder", "AnyOrder")
		nRJ := g.between(1, 3, "jsReplicatedJobs")
		type rj struct {
			name                 string
			replicas, par, compl int
			min                  int
		}
		var rjs []rj
		var rjSpecs []any
		sum := 0
		for i := 0; i < nRJ; i++ {
			r := rj{name: []string{"driver", "workers", "eval"}[i], replicas: g.between(1, 2, "rjReplicas"), par: g.between(1, 3, "rjParallelism")}
			jobSpec := map[string]any{"parallelism": int64(r.par), "template": g.podTemplate(m)}
			eff := r.par
			if g.chance(4, "rjCompletions") {
				r.compl = g.between(1, 4, "rjCompletionsV")
				jobSpec["completions"] = int64(r.compl)
				if r.compl < eff {
					eff = r.compl
				}
			}
			r.min = r.replicas * eff
			sum += r.min
			rjs = append(rjs, r)
			rjSpecs = append(rjSpecs, map[string]any{"name": r.name, "replicas": int64(r.replicas), "template": map[string]any{"spec": jobSpec}})
		}
		spec := map[string]any{"replicatedJobs": rjSpecs}
		if order != "" {
			spec["startupPolicy"] = map[string]any{"startupPolicyOrder": order}
		}
		js := g.obj("jobset.x-k8s.io/v1alpha2", "JobSet", name, jsLabels, jsAnn, outer, map[string]any{"spec": spec})
		added := 0
		for ri, r := range rjs {
			for j := 0; j < r.replicas; j++ {
				jobName := fmt.Sprintf("%s-%s-%d", name, r.name, j)
				var job *c18Ref
				for k := 0; k < r.par; k++ {
					last := ri == len(rjs)-1 && j == r.replicas-1 && k == r.par-1
					if !(last && added == 0) && !g.chance(6, "jsPodExists") {
						continue
					}
					if len(g.c.Pods) >= 12 {
						continue
					}
					if job == nil {
						jr := g.obj("batch/v1", "Job", jobName, c18Copy(m.midLabels, map[string]string{"jobset.sigs.k8s.io/jobset-name": name, "jobset.sigs.k8s.io/replicatedjob-name": r.name}), nil, &js,
							map[string]any{"spec": map[string]any{"parallelism": int64(r.par), "template": g.podTemplate(m)}})
						job = &jr
					}
					added++
					labels := map[string]string{"jobset.sigs.k8s.io/jobset-name": name, "jobset.sigs.k8s.io/replicatedjob-name": r.name,
						"jobset.sigs.k8s.io/job-index": strconv.Itoa(j), "batch.kubernetes.io/job-name": jobName}
					o := c18PodOpt{role: labels}
					if order == "AnyOrder" {
						o.key, o.wantName, o.wantMin = "all", c18PGName(js.Name, js.UID), int32(sum)
					} else {
						o.key, o.wantName, o.wantMin = r.name, c18PGName(js.Name, js.UID)+"-"+r.name, int32(r.min)
					}
					g.addPod(w, fmt.Sprintf("%s-%d-%s", jobName, k, c18Letters[g.u(16, "jsPodSfx")]), job, m, o)
				}
			}
		}
		wl := c18Workload{Shape: shape, Top: js, WantOwnerIs: "top"}
		if trainJob {
			wl.Top = *outer
			wl.WantOwnerIs = "" // the group is derived from the JobSet below the skipped TrainJob
		}
		return wl
	}
}

func c18GenRay(kind string) func(g *c18G, w int, m *c18Meta) c18Workload {
	return func(g *c18G, w int, m *c18Meta) c18Workload {
		apiVersion := g.pick("rayVersion", "ray.io/v1", "ray.io/v1", "ray.io/v1alpha1")
		type wg struct {
			name                 string
			replicas, min, hosts int
			suspended            bool
		}
		var groups []wg
		var specs []any
		for i, n := 0, g.between(0, 2, "rayWorkerGroups"); i < n; i++ {
			x := wg{name: []string{"gpu-workers", "cpu-workers"}[i], replicas: g.between(0, 3, "rayReplicas"), hosts: 1}
			x.min = g.between(0, x.replicas, "rayMinReplicas")
			s := map[string]any{"replicas": int64(x.replicas), "minReplicas": int64(x.min), "maxReplicas": int64(x.replicas + 1), "template": g.podTemplate(m)}
			if g.chance(8, "rayGroupNamed") {
				s["groupName"] = x.name
			} else {
				x.name = fmt.Sprintf("worker-group-%d", i)
			}
			if g.chance(2, "rayNumOfHosts") {
				x.hosts = 2
				s["numOfHosts"] = int64(2)
			}
			if g.chance(1, "raySuspended") {
				x.suspended = true
				s["suspended"] = true
			}
			groups = append(groups, x)
			specs = append(specs, s)
		}
		clusterSpec := map[string]any{"headGroupSpec": map[string]any{"rayStartParams": map[string]any{}, "template": g.podTemplate(m)}}
		if len(specs) > 0 {
			clusterSpec["workerGroupSpecs"] = specs
		}
		ownerLabels := c18Copy(m.ownerLabels)
		if g.chance(2, "rayPrioLabel") {
			ownerLabels["ray.io/priority-class-name"] = g.pick("rayPrioLabelV", "high", "low")
		}
		var top, cluster c18Ref
		var second *c18Ref
		name := g.name("ray")
		switch kind {
		case "RayCluster":
			top = g.obj(apiVersion, "RayCluster", name, ownerLabels, m.ownerAnn, nil, map[string]any{"spec": clusterSpec})
			cluster = top
		case "RayJob":
			cn := name + "-raycluster-" + g.pick("rayClusterSfx", "x7k2p", "m4n8q")
			top = g.obj(apiVersion, "RayJob", name, ownerLabels, m.ownerAnn, nil, map[string]any{"spec": map[string]any{"entrypoint": "python job.py", "rayClusterSpec": clusterSpec},
				"status": map[string]any{"rayClusterName": cn, "jobDeploymentStatus": "Running"}})
			cluster = g.obj(apiVersion, "RayCluster", cn, m.midLabels, nil, &top, map[string]any{"spec": clusterSpec})
		case "RayService":
			cn := name + "-raycluster-" + g.pick("rayClusterSfx", "x7k2p", "m4n8q")
			st := map[string]any{"activeServiceStatus": map[string]any{"rayClusterName": cn}}
			if g.chance(3, "rayServicePending") {
				st = map[string]any{"pendingServiceStatus": map[string]any{"rayClusterName": cn}}
			}
			// a RayService in a zero-downtime upgrade: the active RayCluster and the pending one (other worker
			// sizes) exist side by side, both named in the status, pods of both belong to the one workload
			var cn2 string
			var spec2 map[string]any
			if g.chance(4, "rayServiceUpgrade") {
				cn2 = name + "-raycluster-" + g.pick("rayClusterSfx2", "q9w3e", "t5y6u")
				var specs2 []any
				for i, n := 0, g.between(1, 2, "rayWorkerGroups2"); i < n; i++ {
					r := g.between(1, 4, "rayReplicas2")
					s2 := map[string]any{"replicas": int64(r), "minReplicas": int64(g.between(0, r, "rayMinReplicas2")), "maxReplicas": int64(r + 1), "template": g.podTemplate(m),
						"groupName": []string{"gpu-workers", "cpu-workers-v2"}[i]}
					if g.chance(2, "rayNumOfHosts2") {
						s2["numOfHosts"] = int64(2)
					}
					specs2 = append(specs2, s2)
				}
				spec2 = map[string]any{"headGroupSpec": map[string]any{"rayStartParams": map[string]any{}, "template": g.podTemplate(m)}, "workerGroupSpecs": specs2}
				st = map[string]any{"activeServiceStatus": map[string]any{"rayClusterName": cn}, "pendingServiceStatus": map[string]any{"rayClusterName": cn2}}
			}
			top = g.obj(apiVersion, "RayService", name, ownerLabels, m.ownerAnn, nil, map[string]any{"spec": map[string]any{"rayClusterConfig": clusterSpec}, "status": st})
			cluster = g.obj(apiVersion, "RayCluster", cn, m.midLabels, nil, &top, map[string]any{"spec": clusterSpec})
			if cn2 != "" {
				c2 := g.obj(apiVersion, "RayCluster", cn2, m.midLabels, nil, &top, map[string]any{"spec": spec2})
				second = &c2
			}
		}
		want := c18PGName(top.Name, top.UID)
		mk := func(pn, group, nodeType string) {
			g.addPod(w, pn, &cluster, m, c18PodOpt{role: map[string]string{"ray.io/cluster": cluster.Name, "ray.io/group": group, "ray.io/node-type": nodeType, "ray.io/is-ray-node": "yes"},
				key: "all", wantName: want, wantSub: group})
		}
		mk(cluster.Name+"-head-"+c18Letters[g.u(16, "rayHeadSfx")], "headgroup", "head")
		for _, x := range groups {
			if x.suspended {
				continue
			}
			for i := 0; i < x.replicas*x.hosts; i++ {
				if g.chance(7, "rayWorkerExists") && len(g.c.Pods) < 12 {
					mk(fmt.Sprintf("%s-%s-worker-%d%s", cluster.Name, x.name, i, c18Letters[g.u(16, "rayWorkerSfx")]), x.name, "worker")
				}
			}
		}
		if second != nil {
			mk2 := func(pn, group, nodeType string) {
				g.addPod(w, pn, second, m, c18PodOpt{role: map[string]string{"ray.io/cluster": second.Name, "ray.io/group": group, "ray.io/node-type": nodeType, "ray.io/is-ray-node": "yes"},
					key: "all", wantName: want, wantSub: "?"})
			}
			mk2(second.Name+"-head-"+c18Letters[g.u(16, "rayHeadSfx2")], "headgroup", "head")
			if g.chance(6, "rayWorker2Exists") && len(g.c.Pods) < 12 {
				mk2(fmt.Sprintf("%s-gpu-workers-worker-0%s", second.Name, c18Letters[g.u(16, "rayWorkerSfx2")]), "gpu-workers", "worker")
			}
		}
		if kind == "RayJob" && g.chance(4, "raySubmitter") {
			// the submitter Job of a RayJob: Pod -> Job -> RayJob, no ray.io/group label
			job := g.obj("batch/v1", "Job", name, nil, nil, &top, map[string]any{"spec": map[string]any{"template": g.podTemplate(m)}})
			g.addPod(w, g.name(name), &job, m, c18PodOpt{role: map[string]string{"batch.kubernetes.io/job-name": name}, key: "all", wantName: want, wantSub: ""})
		}
		if g.chance(2, "rayLegacyPodGroup") {
			// a PodGroup without sub-groups left by an older pod-grouper: the Ray plugin keeps it free of sub-groups
			g.c.Existing = append(g.c.Existing, c18Existing{Name: want, Owner: top, Queue: "legacy-queue", Labels: map[string]string{"legacy": "true"}})
			for i := range g.c.Pods {
				if g.c.Pods[i].W == w {
					g.c.Pods[i].WantSub = ""
				}
			}
		}
		return c18Workload{Shape: map[string]string{"RayCluster": "raycluster", "RayJob": "rayjob", "RayService": "rayservice"}[kind], Top: top, WantOwnerIs: "top"}
	}
}

// LeaderWorkerSet: one PodGroup per replica group (leader + workers).
func c18GenLWS(g *c18G, w int, m *c18Meta) c18Workload {
	name := g.name("lws")
	replicas := g.between(1, 2, "lwsReplicas")
	size := g.between(1, 4, "lwsSize")
	policy := g.pick("lwsStartup", "", "LeaderCreated", "LeaderReady")
	lwt := map[string]any{"size": int64(size), "workerTemplate": g.podTemplate(m)}
	if g.chance(5, "lwsLeaderTemplate") {
		lwt["leaderTemplate"] = g.podTemplate(m)
	}
	segmented := false
	if size >= 2 && policy != "LeaderReady" && g.chance(3, "lwsSubGroupPolicy") {
		// (LeaderReady + sub-group policy: the not yet scheduled leader is asked for a group of 1 and the plugin
		// rejects a segment size above the group size — a reconcile error, outside this property; not generated)
		sg := map[string]any{"subGroupSize": int64(g.between(2, size, "lwsSubGroupSize"))}
		if g.chance(5, "lwsSubGroupType") {
			typ := g.pick("lwsSubGroupTypeV", "LeaderWorker", "LeaderExcluded")
			if typ == "LeaderExcluded" && (size-1)%int(sg["subGroupSize"].(int64)) != 0 {
				typ = "LeaderWorker"
			}
			sg["subGroupPolicyType"] = typ
		}
		lwt["subGroupPolicy"] = sg
		segmented = true
	}
	spec := map[string]any{"replicas": int64(replicas), "leaderWorkerTemplate": lwt}
	if policy != "" {
		spec["startupPolicy"] = policy
	}
	top := g.obj("leaderworkerset.x-k8s.io/v1", "LeaderWorkerSet", name, m.ownerLabels, m.ownerAnn, nil, map[string]any{"spec": spec})
	leaderSts := g.obj("apps/v1", "StatefulSet", name, c18Copy(m.midLabels, map[string]string{"leaderworkerset.sigs.k8s.io/name": name}), nil, &top,
		map[string]any{"spec": map[string]any{"replicas": int64(replicas), "serviceName": name, "selector": map[string]any{"matchLabels": map[string]any{"l": name}}, "template": g.podTemplate(m)}})
	sizeAnn := map[string]string{}
	if g.chance(8, "lwsSizeAnnotation") {
		sizeAnn["leaderworkerset.sigs.k8s.io/size"] = strconv.Itoa(size)
	}
	for gi := 0; gi < replicas; gi++ {
		if gi > 0 && !g.chance(7, "lwsGroupExists") {
			continue
		}
		key := "group-" + strconv.Itoa(gi)
		leaderScheduled := policy != "LeaderReady" && g.chance(3, "lwsLeaderBound") || policy == "LeaderReady" && g.chance(6, "lwsLeaderReadyBound")
		node := ""
		if leaderScheduled {
			node = "node-1"
		}
		sub := func(idx int) string {
			if segmented {
				return "?"
			}
			if idx == 0 {
				return "leader"
			}
			return "workers"
		}
		if policy == "LeaderReady" && !leaderScheduled {
			// group of one until the leader is scheduled
			g.addPod(w, fmt.Sprintf("%s-%d", name, gi), &leaderSts, m, c18PodOpt{role: map[string]string{"leaderworkerset.sigs.k8s.io/name": name,
				"leaderworkerset.sigs.k8s.io/group-index": strconv.Itoa(gi), "leaderworkerset.sigs.k8s.io/worker-index": "0"}, key: key, wantSub: "leader", ann: sizeAnn})
			continue
		}
		leader := g.addPod(w, fmt.Sprintf("%s-%d", name, gi), &leaderSts, m, c18PodOpt{role: map[string]string{"leaderworkerset.sigs.k8s.io/name": name,
			"leaderworkerset.sigs.k8s.io/group-index": strconv.Itoa(gi), "leaderworkerset.sigs.k8s.io/worker-index": "0"}, key: key, wantSub: sub(0), nodeName: node, ann: sizeAnn})
		leaderRef := c18Ref{APIVersion: "v1", Kind: "Pod", Name: leader.Name, UID: leader.UID}
		var workerSts *c18Ref
		for wi := 1; wi < size; wi++ {
			if !g.chance(7, "lwsWorkerExists") || len(g.c.Pods) >= 12 {
				continue
			}
			if workerSts == nil {
				// the worker StatefulSet of a group is owned by the group's leader pod
				ws := g.obj("apps/v1", "StatefulSet", fmt.Sprintf("%s-%d", name, gi), nil, nil, &leaderRef,
					map[string]any{"spec": map[string]any{"replicas": int64(size - 1), "serviceName": name, "selector": map[string]any{"matchLabels": map[string]any{"l": name}}, "template": g.podTemplate(m)}})
				workerSts = &ws
			}
			g.addPod(w, fmt.Sprintf("%s-%d-%d", name, gi, wi), workerSts, m, c18PodOpt{role: map[string]string{"leaderworkerset.sigs.k8s.io/name": name,
				"leaderworkerset.sigs.k8s.io/group-index": strconv.Itoa(gi), "leaderworkerset.sigs.k8s.io/worker-index": strconv.Itoa(wi)}, key: key, wantSub: sub(wi), ann: sizeAnn})
		}
	}
	return c18Workload{Shape: "lws", Top: top, WantOwnerIs: "top"}
}

// Argo Workflow whose steps are plain pods: the Workflow is skipped, every pod is grouped on its own.
func c18GenArgoPods(g *c18G, w int, m *c18Meta) c18Workload {
	top := g.obj("argoproj.io/v1alpha1", "Workflow", g.name("wf"), m.ownerLabels, m.ownerAnn, nil, map[string]any{"spec": map[string]any{"entrypoint": "main"}})
	n := g.nPods(3)
	for i := 0; i < n; i++ {
		pn := g.name(top.Name)
		p := g.addPod(w, pn, &top, m, c18PodOpt{key: pn})
		p.WantName = c18PGName(p.Name, p.UID)
	}
	return c18Workload{Shape: "argo-pods", Top: top, WantMin: 1, WantOwnerIs: "pod"}
}

// skip-top-owner kinds wrapping a supported workload.
func c18GenSkipTop(apiVersion, kind, inner string) func(g *c18G, w int, m *c18Meta) c18Workload {
	return func(g *c18G, w int, m *c18Meta) c18Workload {
		shape := map[string]string{"pytorch": "argo-pytorchjob", "job": "runai-training-job", "deployment": "runai-inference-deployment", "mpi": "runai-distributed-mpijob", "statefulset": "runai-interactive-statefulset"}[inner]
		top := g.obj(apiVersion, kind, g.name("outer"), m.ownerLabels, m.ownerAnn, nil, map[string]any{"spec": map[string]any{"name": "x"}})
		in := *m
		in.ownerLabels, _ = g.schedLabels("inner", 3)
		in.ownerAnn = nil
		wl := c18Workload{Shape: shape, Top: top}
		switch inner {
		case "pytorch":
			c18KubeflowJob(g, w, &in, "PyTorchJob", &top, shape)
		case "mpi":
			c18KubeflowJob(g, w, &in, "MPIJob", &top, shape)
		case "job":
			job := g.obj("batch/v1", "Job", top.Name, m.midLabels, nil, &top, map[string]any{"spec": map[string]any{"parallelism": int64(2), "template": g.podTemplate(m)}})
			for i, n := 0, g.nPods(3); i < n; i++ {
				pn := g.name(job.Name)
				g.addPod(w, pn, &job, m, c18PodOpt{key: pn})
			}
			wl.WantMin = 1
		case "deployment":
			d := g.obj("apps/v1", "Deployment", top.Name, m.midLabels, nil, &top, map[string]any{"spec": map[string]any{"replicas": int64(2),
				"selector": map[string]any{"matchLabels": map[string]any{"d": top.Name}}, "template": g.podTemplate(m)}})
			rs := g.obj("apps/v1", "ReplicaSet", top.Name+"-6c5f", nil, nil, &d, map[string]any{"spec": map[string]any{"replicas": int64(2),
				"selector": map[string]any{"matchLabels": map[string]any{"d": top.Name}}}})
			for i, n := 0, g.nPods(3); i < n; i++ {
				pn := g.name(rs.Name)
				p := g.addPod(w, pn, &rs, m, c18PodOpt{key: pn})
				p.WantName = c18PGName(p.Name, p.UID)
			}
			wl.WantMin, wl.WantOwnerIs = 1, "pod"
		case "statefulset":
			s := g.obj("apps/v1", "StatefulSet", top.Name, m.midLabels, nil, &top, map[string]any{"spec": map[string]any{"replicas": int64(2), "serviceName": top.Name,
				"selector": map[string]any{"matchLabels": map[string]any{"s": top.Name}}, "template": g.podTemplate(m)}})
			for i, n := 0, g.nPods(3); i < n; i++ {
				g.addPod(w, fmt.Sprintf("%s-%d", s.Name, i), &s, m, c18PodOpt{key: "all", wantName: c18PGName(s.Name, s.UID)})
			}
			wl.WantMin = 1
		}
		// pods created by c18KubeflowJob asserted the inner job as owner of the group: keep the name, drop nothing
		return wl
	}
}

// unknown CRD that manages a Deployment: the top owner is not a known kind, so the default rule (one group per top owner) applies
func c18GenUnknownDeployment(g *c18G, w int, m *c18Meta) c18Workload {
	return c18GenUnknownDeploymentOf("example.com/v1", "Widget")(g, w, m)
}

func c18GenUnknownDeploymentOf(apiVersion, kind string) func(g *c18G, w int, m *c18Meta) c18Workload {
	return func(g *c18G, w int, m *c18Meta) c18Workload {
		top := g.obj(apiVersion, kind, g.name("app"), m.ownerLabels, m.ownerAnn, nil, map[string]any{"spec": map[string]any{"size": int64(2)}})
		d := g.obj("apps/v1", "Deployment", top.Name, m.midLabels, nil, &top, map[string]any{"spec": map[string]any{"replicas": int64(2),
			"selector": map[string]any{"matchLabels": map[string]any{"d": top.Name}}, "template": g.podTemplate(m)}})
		rs := g.obj("apps/v1", "ReplicaSet", top.Name+"-84bd", nil, nil, &d, map[string]any{"spec": map[string]any{"replicas": int64(2),
			"selector": map[string]any{"matchLabels": map[string]any{"d": top.Name}}}})
		for i, n := 0, g.nPods(4); i < n; i++ {
			g.addPod(w, g.name(rs.Name), &rs, m, c18PodOpt{key: "all", wantName: c18PGName(top.Name, top.UID)})
		}
		shape := "unknown-crd-deployment"
		if kind != "Widget" {
			shape = "seldon"
		}
		return c18Workload{Shape: shape, Top: top, WantMin: 1, WantOwnerIs: "top"}
	}
}

// unknown CRD that manages a batch Job: the top owner is unknown, so the default rule applies (one group for all pods)
func c18GenUnknownJob(g *c18G, w int, m *c18Meta) c18Workload {
	top := g.obj("example.com/v1", "Widget", g.name("wjob"), m.ownerLabels, m.ownerAnn, nil, map[string]any{"spec": map[string]any{"size": int64(2)}})
	job := g.obj("batch/v1", "Job", top.Name, m.midLabels, nil, &top, map[string]any{"spec": map[string]any{"parallelism": int64(3), "template": g.podTemplate(m)}})
	for i, n := 0, g.nPods(4); i < n; i++ {
		g.addPod(w, g.name(job.Name), &job, m, c18PodOpt{key: "all", wantName: c18PGName(top.Name, top.UID)})
	}
	return c18Workload{Shape: "unknown-crd-job", Top: top, WantMin: 1, WantOwnerIs: "top"}
}

func c18GenTekton(g *c18G, w int, m *c18Meta) c18Workload {
	top := g.obj("tekton.dev/v1", "PipelineRun", g.name("pr"), m.ownerLabels, m.ownerAnn, nil, map[string]any{"spec": map[string]any{"pipelineRef": map[string]any{"name": "p"}}})
	for i, n := 0, g.between(1, 3, "tektonTasks"); i < n; i++ {
		tr := g.obj("tekton.dev/v1", "TaskRun", fmt.Sprintf("%s-task-%d", top.Name, i), m.midLabels, nil, &top, map[string]any{"spec": map[string]any{"taskRef": map[string]any{"name": "t"}}})
		g.addPod(w, tr.Name+"-pod", &tr, m, c18PodOpt{key: "all", wantName: c18PGName(top.Name, top.UID)})
	}
	return c18Workload{Shape: "tekton", Top: top, WantMin: 1, WantOwnerIs: "top"}
}

func c18GenKnative(g *c18G, w int, m *c18Meta) c18Workload {
	name := g.name("ksvc")
	top := g.obj("serving.knative.dev/v1", "Service", name, m.ownerLabels, m.ownerAnn, nil, map[string]any{"spec": map[string]any{"template": g.podTemplate(m)}})
	cfg := g.obj("serving.knative.dev/v1", "Configuration", name, m.midLabels, nil, &top, map[string]any{"spec": map[string]any{"template": g.podTemplate(m)}})
	revAnn := map[string]string{}
	minScale := 0
	if g.chance(5, "knMinScale") {
		minScale = g.between(1, 3, "knMinScaleV")
		revAnn["autoscaling.knative.dev/min-scale"] = strconv.Itoa(minScale)
	}
	revLabels := c18Copy(m.midLabels, map[string]string{"serving.knative.dev/service": name, "serving.knative.dev/configuration": name})
	rev := g.obj("serving.knative.dev/v1", "Revision", name+"-00001", revLabels, revAnn, &cfg, map[string]any{"spec": map[string]any{"containerConcurrency": int64(0)}})
	d := g.obj("apps/v1", "Deployment", rev.Name+"-deployment", nil, nil, &rev, map[string]any{"spec": map[string]any{"replicas": int64(2),
		"selector": map[string]any{"matchLabels": map[string]any{"serving.knative.dev/revision": rev.Name}}, "template": g.podTemplate(m)}})
	rs := g.obj("apps/v1", "ReplicaSet", d.Name+"-7f9c", nil, nil, &d, map[string]any{"spec": map[string]any{"replicas": int64(2),
		"selector": map[string]any{"matchLabels": map[string]any{"serving.knative.dev/revision": rev.Name}}}})
	gang := g.c.Cfg.KnativeGang
	for i, n := 0, g.nPods(4); i < n; i++ {
		pn := g.name(rs.Name)
		o := c18PodOpt{role: map[string]string{"serving.knative.dev/revision": rev.Name, "serving.knative.dev/service": name}, key: "all"}
		if !gang {
			o.key = pn
		}
		g.addPod(w, pn, &rs, m, o)
	}
	return c18Workload{Shape: "knative", Top: top}
}

func c18GenGrove(dynamo bool) func(g *c18G, w int, m *c18Meta) c18Workload {
	return func(g *c18G, w int, m *c18Meta) c18Workload {
		var outer *c18Ref
		shape := "grove"
		pcsLabels, pcsAnn := m.ownerLabels, m.ownerAnn
		if dynamo {
			o := g.obj("nvidia.com/v1alpha1", "DynamoGraphDeployment", g.name("dgd"), m.ownerLabels, m.ownerAnn, nil, map[string]any{"spec": map[string]any{"services": map[string]any{}}})
			outer = &o
			shape = "dynamo-grove"
			pcsLabels, pcsAnn = m.midLabels, nil
		}
		pcs := g.obj("grove.io/v1alpha1", "PodCliqueSet", g.name("pcs"), pcsLabels, pcsAnn, outer, map[string]any{"spec": map[string]any{"replicas": int64(1)}})
		nGangs := g.between(1, 2, "groveGangs")
		for gi := 0; gi < nGangs; gi++ {
			gangName := fmt.Sprintf("%s-%d", pcs.Name, gi)
			var podgroups []any
			type pend struct{ pod, clique, group string }
			var pods []pend
			for ci, nc := 0, g.between(1, 2, "groveCliques"); ci < nc; ci++ {
				clique := fmt.Sprintf("%s-%s", gangName, []string{"prefill", "decode"}[ci])
				var refs []any
				np := g.between(1, 3, "groveCliquePods")
				for k := 0; k < np; k++ {
					pn := fmt.Sprintf("%s-%s", clique, c18Letters[g.u(16, "grovePodSfx")]+strconv.Itoa(k))
					refs = append(refs, map[string]any{"namespace": c18NS, "name": pn})
					if (g.chance(8, "grovePodExists") || len(pods) == 0 && k == np-1 && ci == nc-1) && len(g.c.Pods)+len(pods) < 12 {
						pods = append(pods, pend{pn, clique, clique})
					}
				}
				podgroups = append(podgroups, map[string]any{"name": clique, "minReplicas": int64(g.between(1, np, "groveMinReplicas")), "podReferences": refs})
			}
			gangSpec := map[string]any{"podgroups": podgroups}
			if g.chance(2, "groveGangPrio") {
				gangSpec["priorityClassName"] = g.pick("groveGangPrioV", "high", "low")
			}
			// the PodGang carries the PodCliqueSet's metadata (Grove propagates it)
			gang := g.obj("scheduler.grove.io/v1alpha1", "PodGang", gangName, c18Copy(pcsLabels), c18Copy(pcsAnn), &pcs, map[string]any{"spec": gangSpec})
			cliques := map[string]c18Ref{}
			for _, p := range pods {
				cl, ok := cliques[p.clique]
				if !ok {
					cl = g.obj("grove.io/v1alpha1", "PodClique", p.clique, m.midLabels, nil, &pcs, map[string]any{"spec": map[string]any{"replicas": int64(2)}})
					cliques[p.clique] = cl
				}
				g.addPod(w, p.pod, &cl, m, c18PodOpt{role: map[string]string{"grove.io/podgang": gangName, "grove.io/podclique": p.clique}, key: gangName,
					wantName: c18PGName(gang.Name, gang.UID), wantSub: p.group})
			}
		}
		wl := c18Workload{Shape: shape, Top: pcs}
		if dynamo {
			wl.Top = *outer
		}
		return wl
	}
}

func c18GenAml(g *c18G, w int, m *c18Meta) c18Workload {
	n := g.between(1, 4, "amlNodes")
	top := g.obj("amlarc.azureml.com/v1alpha1", "AmlJob", g.name("aml"), m.ownerLabels, m.ownerAnn, nil,
		map[string]any{"spec": map[string]any{"job": map[string]any{"options": map[string]any{"envs": map[string]any{"AZUREML_NODE_COUNT": int64(n)}}}}})
	added := 0
	for i := 0; i < n; i++ {
		if g.chance(8, "amlPodExists") || (i == n-1 && added == 0) {
			added++
			g.addPod(w, fmt.Sprintf("%s-%d", top.Name, i), &top, m, c18PodOpt{key: "all", wantName: c18PGName(top.Name, top.UID)})
		}
	}
	return c18Workload{Shape: "amljob", Top: top, WantOwnerIs: "top"}
}

// ---------------------------------------------------------------------------------------------
// whole case

func (g *c18G) perm(n int, label string) []int {
	p := make([]int, n)
	for i := range p {
		p[i] = i
	}
	for i := n - 1; i > 0; i-- {
		j := g.u(i+1, label)
		p[i], p[j] = p[j], p[i]
	}
	return p
}

// order draws a work-queue order: a permutation of all pods with a few duplicates inserted.
func (g *c18G) order(n int, label string) []int {
	o := g.perm(n, label+"Perm")
	for d, nd := 0, g.u(n+1, label+"Dups"); d < nd; d++ {
		x := g.u(n, label+"DupPod")
		pos := g.u(len(o)+1, label+"DupPos")
		o = append(o[:pos], append([]int{x}, o[pos:]...)...)
	}
	return o
}

func c18GenCase(t *rapid.T) *c18Case {
	g := &c18G{t: t, c: &c18Case{}, names: map[string]bool{}}
	c := g.c
	c.Cfg.QueueKey = "kai.scheduler/queue"
	if g.chance(2, "altQueueKey") {
		c.Cfg.QueueKey = "runai/queue"
	}
	if g.chance(7, "nodePoolKeyOn") {
		c.Cfg.NodePoolKey = "kai.scheduler/node-pool"
	}
	c.Cfg.SearchLegacy = g.chance(7, "searchLegacy")
	c.Cfg.KnativeGang = g.chance(7, "knativeGang")
	for i, n := range c18PrioNames {
		if g.chance(8, "prioExists") {
			c.Prios = append(c.Prios, c18Prio{Name: n, Value: []int32{50, 100, 125, 200, 10}[i]})
		}
	}
	if g.chance(2, "defaultsCM") {
		var entries []map[string]string
		for _, e := range [][2]string{{"Job", "batch"}, {"Deployment", "apps"}, {"PyTorchJob", "kubeflow.org"}, {"Pod", ""}, {"StatefulSet", "apps"}, {"Widget", "example.com"}, {"RayCluster", "ray.io"}} {
			if g.chance(5, "defaultsEntry") {
				ent := map[string]string{"typeName": e[0], "group": e[1]}
				if g.chance(7, "defaultsPrio") {
					ent["priorityName"] = g.pick("defaultsPrioV", "high", "low", "build", "missing-class")
				}
				if g.chance(5, "defaultsPreempt") {
					ent["preemptibility"] = g.pick("defaultsPreemptV", "preemptible", "non-preemptible", "Preemptible")
				}
				if g.chance(3, "defaultsNoGroup") {
					delete(ent, "group")
				}
				entries = append(entries, ent)
			}
		}
		b, _ := json.Marshal(entries)
		c.Cfg.DefaultsCM = string(b)
	}
	total := 0
	for _, s := range c18Shapes {
		total += s.weight
	}
	nW := 1
	if g.chance(3, "twoWorkloads") {
		nW = 2
	}
	for w := 0; w < nW; w++ {
		x := g.u(total, "shape")
		var sh c18Shape
		for _, s := range c18Shapes {
			if x < s.weight {
				sh = s
				break
			}
			x -= s.weight
		}
		m := g.meta()
		wl := sh.gen(g, w, m)
		wl.Shape = sh.name
		if c18PlainLabelShapes[sh.name] && len(m.midLabels) == 0 {
			// shapes whose PodGroup is derived from exactly the generated top owner and the pod template
			oq, pq := m.ownerLabels[c.Cfg.QueueKey], m.podLabels[c.Cfg.QueueKey]
			if oq != "" && (pq == "" || pq == oq) {
				wl.WantQueue = oq
			} else if oq == "" && pq != "" {
				wl.WantQueue = pq
			}
			for _, e := range c.Existing {
				if e.Owner == wl.Top {
					wl.WantQueue = "" // a pre-existing PodGroup keeps its queue ("queue after creation" belongs to other actors)
				}
			}
			if c.Cfg.DefaultsCM == "" {
				v := m.ownerLabels["kai.scheduler/preemptibility"]
				if v == "" {
					v = m.podLabels["kai.scheduler/preemptibility"]
				}
				wl.WantPreempt = &v
			}
		}
		c.Workloads = append(c.Workloads, wl)
	}
	if g.chance(1, "hetero") && g.chance(5, "hetero2") {
		// observation only (see c18Case.Hetero): one pod gets scheduling labels of its own
		c.Hetero = true
		i := g.u(len(c.Pods), "heteroPod")
		extra, _ := g.schedLabels("hetero", 6)
		c.Pods[i].Labels = c18Copy(c.Pods[i].Labels, extra)
	}
	n := len(c.Pods)
	c.OrderA = g.order(n, "orderA")
	c.OrderB = g.order(n, "orderB")
	if g.chance(7, "runC") {
		steps := c18Steps(g.order(n, "orderC"))
		for k, nf := 0, g.between(1, 3, "nForeign"); k < nf; k++ {
			f := &c18Foreign{Sel: g.u(8, "foreignSel")}
			any := false
			if g.chance(6, "foreignQueue") {
				q := g.pick("foreignQueueV", "q-other", "q-a", "default-queue")
				f.Queue, any = &q, true
			}
			if g.chance(5, "foreignMark") {
				b := g.chance(7, "foreignMarkV")
				f.Mark, any = &b, true
			}
			if g.chance(5, "foreignBackoff") {
				v := int32([]int{-1, 1, 5}[g.u(3, "foreignBackoffV")])
				f.Backoff, any = &v, true
			}
			if c.Cfg.NodePoolKey != "" && g.chance(5, "foreignNodePool") {
				v := g.pick("foreignNodePoolV", "pool-x", "pool-a")
				f.NodePool, any = &v, true
			}
			if !any {
				q := "q-other"
				f.Queue = &q
			}
			pos := g.u(len(steps)+1, "foreignPos")
			if g.chance(6, "foreignLate") {
				pos = 1 + g.u(len(steps), "foreignPosLate")
			}
			steps = append(steps[:pos], append([]c18Step{{Foreign: f}}, steps[pos:]...)...)
		}
		c.StepsC = steps
	}
	return c
}
