// C18 — "Pod-grouper is a deterministic, idempotent function of the workload".
//
// White-box harness injected into package pkg/podgrouper (package controllers): the real PodReconciler
// with the real plugin hub and the real PodGroup handler is driven over a controller-runtime fake
// client by a small event-loop model (the controller watches Pods only: a reconcile that changes its
// own pod re-enqueues it). Oracles (see NOTES.md): order independence, zero-write fixpoint, foreign
// fields preserved, documented grouping rules.
package controllers

import (
	"context"
	"encoding/json"
	"fmt"
	"sort"
	"strings"
	"testing"

	"github.com/go-logr/logr"
	v1 "k8s.io/api/core/v1"
	schedulingv1 "k8s.io/api/scheduling/v1"
	"k8s.io/apimachinery/pkg/api/meta"
	metav1 "k8s.io/apimachinery/pkg/apis/meta/v1"
	"k8s.io/apimachinery/pkg/apis/meta/v1/unstructured"
	"k8s.io/apimachinery/pkg/runtime"
	"k8s.io/apimachinery/pkg/runtime/schema"
	"k8s.io/apimachinery/pkg/runtime/serializer"
	"k8s.io/apimachinery/pkg/types"
	clientgoscheme "k8s.io/client-go/kubernetes/scheme"
	clienttesting "k8s.io/client-go/testing"
	ctrl "sigs.k8s.io/controller-runtime"
	"sigs.k8s.io/controller-runtime/pkg/client"
	"sigs.k8s.io/controller-runtime/pkg/client/apiutil"
	"sigs.k8s.io/controller-runtime/pkg/client/fake"
	"sigs.k8s.io/controller-runtime/pkg/client/interceptor"

	"pgregory.net/rapid"

	schedulingv2 "github.com/NVIDIA/KAI-scheduler/pkg/apis/scheduling/v2"
	"github.com/NVIDIA/KAI-scheduler/pkg/apis/scheduling/v2alpha2"
	"github.com/NVIDIA/KAI-scheduler/pkg/common/constants"
	"github.com/NVIDIA/KAI-scheduler/pkg/podgrouper/podgroup"
	"github.com/NVIDIA/KAI-scheduler/pkg/podgrouper/podgrouper"
	pluginshub "github.com/NVIDIA/KAI-scheduler/pkg/podgrouper/podgrouper/hub"
	kit "github.com/NVIDIA/KAI-scheduler/zz_verif/verifkit"
)

const (
	c18Prop      = "C18"
	c18NS        = "ns"
	c18Scheduler = "kai-scheduler"
	c18CMName    = "kai-defaults"
	c18CMNS      = "kai-system"
)

func TestMain(m *testing.M) {
	ctrl.SetLogger(logr.Discard()) // otherwise controller-runtime captures a stack trace per deferred log call
	kit.Main(m)
}

// ---------------------------------------------------------------------------------------------
// case

type c18Cfg struct {
	NodePoolKey  string `json:"nodePoolKey"` // "" = node-pool labelling off
	QueueKey     string `json:"queueKey"`
	SearchLegacy bool   `json:"searchLegacy"`
	KnativeGang  bool   `json:"knativeGang"`
	DefaultsCM   string `json:"defaultsCM,omitempty"` // content of the per-type defaults ConfigMap ("types" key); "" = not configured
}

type c18Ref struct {
	APIVersion string `json:"apiVersion"`
	Kind       string `json:"kind"`
	Name       string `json:"name"`
	UID        string `json:"uid"`
}

type c18Prio struct {
	Name  string `json:"name"`
	Value int32  `json:"value"`
}

type c18Pod struct {
	Name        string            `json:"name"`
	UID         string            `json:"uid"`
	Labels      map[string]string `json:"labels,omitempty"`
	Annotations map[string]string `json:"annotations,omitempty"`
	Owner       *c18Ref           `json:"owner,omitempty"`
	NodeName    string            `json:"nodeName,omitempty"`
	PrioClass   string            `json:"priorityClassName,omitempty"`
	Scheduler   string            `json:"scheduler"`
	W           int               `json:"workload"`
	// expectations of the generator's model (documented rules only)
	Key      string `json:"key"`                     // pods with equal keys must share a PodGroup, different keys must not; "" = no group expected
	WantName string `json:"wantName,omitempty"`      // documented exact PodGroup name, "" = not asserted
	WantSub  string `json:"wantSub,omitempty"`       // expected sub-group label; "?" = not asserted
	WantMin  int32  `json:"wantMinMember,omitempty"` // documented minMember of this pod's group (overrides the workload's); 0 = not asserted
}

type c18Workload struct {
	Shape       string `json:"shape"`
	Top         c18Ref `json:"top"`
	WantMin     int32  `json:"wantMinMember,omitempty"` // documented minMember; 0 = not asserted
	WantPrio    string `json:"wantPriorityClass,omitempty"`
	WantOwnerIs string `json:"wantOwnerIs,omitempty"` // "top" | "pod" | "" (not asserted): what the PodGroup's owner reference points to
	// documented label semantics (docs/quickstart "queue label on the pod/workload"; design priority-preemptibility-separation:
	// label on the top owner, then on the pod); "" / nil = not asserted
	WantQueue    string  `json:"wantQueue,omitempty"`
	WantPreempt  *string `json:"wantPreemptibility,omitempty"`
	SubGroupsMin int     `json:"subGroupsMin,omitempty"`
}

// c18Existing is a PodGroup that exists before any pod is reconciled (created by an earlier pod-grouper version).
type c18Existing struct {
	Name   string            `json:"name"`
	Owner  c18Ref            `json:"owner"`
	Queue  string            `json:"queue,omitempty"`
	Labels map[string]string `json:"labels,omitempty"`
}

type c18Foreign struct {
	Sel      int     `json:"sel"`
	Queue    *string `json:"queue,omitempty"`
	Mark     *bool   `json:"markUnschedulable,omitempty"`
	Backoff  *int32  `json:"schedulingBackoff,omitempty"`
	NodePool *string `json:"nodePool,omitempty"`
}

type c18Step struct {
	Pod     int         `json:"pod"`
	Foreign *c18Foreign `json:"foreign,omitempty"`
}

type c18Case struct {
	Cfg       c18Cfg           `json:"cfg"`
	Prios     []c18Prio        `json:"priorityClasses"`
	Objects   []map[string]any `json:"objects"` // owner-chain objects, namespace ns
	Pods      []c18Pod         `json:"pods"`
	Workloads []c18Workload    `json:"workloads"`
	Existing  []c18Existing    `json:"existingPodGroups,omitempty"`
	OrderA    []int            `json:"orderA"`
	OrderB    []int            `json:"orderB"`
	StepsC    []c18Step        `json:"stepsC,omitempty"`
	// Hetero = sibling pods carry different scheduling labels (e.g. master and worker templates differ). This is outside
	// the property's domain ("depend only on the owner chain and pod template"); such cases are run for the record only:
	// their outcome is counted under notes "observation-hetero-*" and never reported as a violation.
	Hetero bool `json:"hetero,omitempty"`
}

// ---------------------------------------------------------------------------------------------
// store + controller under test

var c18Scheme = func() *runtime.Scheme {
	s := runtime.NewScheme()
	must := func(err error) {
		if err != nil {
			panic(err)
		}
	}
	must(clientgoscheme.AddToScheme(s))
	must(schedulingv2.AddToScheme(s))
	must(v2alpha2.AddToScheme(s))
	return s
}()

var c18Decoder = serializer.NewCodecFactory(c18Scheme).UniversalDecoder()

type c18Recorder struct{ events []string }

func (r *c18Recorder) Event(_ runtime.Object, _, reason, message string) {
	r.events = append(r.events, reason+": "+message)
}
func (r *c18Recorder) Eventf(o runtime.Object, et, reason, f string, a ...interface{}) {
	r.Event(o, et, reason, fmt.Sprintf(f, a...))
}
func (r *c18Recorder) AnnotatedEventf(o runtime.Object, _ map[string]string, et, reason, f string, a ...interface{}) {
	r.Event(o, et, reason, fmt.Sprintf(f, a...))
}

type c18Run struct {
	c        *c18Case
	base     client.WithWatch
	cl       client.WithWatch
	rec      *PodReconciler
	recorder *c18Recorder
	writes   int
	writeLog []string
	log      []string // trace
	errPods  map[int]string
}

func c18SetGVK(obj runtime.Object) {
	if _, ok := obj.(runtime.Unstructured); ok {
		return
	}
	if _, ok := obj.(*metav1.PartialObjectMetadata); ok {
		return
	}
	gvk, err := apiutil.GVKForObject(obj, c18Scheme)
	if err == nil {
		obj.GetObjectKind().SetGroupVersionKind(gvk)
	}
}

func (c *c18Case) podObject(p *c18Pod) *v1.Pod {
	pod := &v1.Pod{
		ObjectMeta: metav1.ObjectMeta{Name: p.Name, Namespace: c18NS, UID: types.UID(p.UID)},
		Spec: v1.PodSpec{SchedulerName: p.Scheduler, NodeName: p.NodeName, PriorityClassName: p.PrioClass,
			Containers: []v1.Container{{Name: "c", Image: "img"}}},
		Status: v1.PodStatus{Phase: v1.PodPending},
	}
	if len(p.Labels) > 0 {
		pod.Labels = map[string]string{}
		for k, v := range p.Labels {
			pod.Labels[k] = v
		}
	}
	if len(p.Annotations) > 0 {
		pod.Annotations = map[string]string{}
		for k, v := range p.Annotations {
			pod.Annotations[k] = v
		}
	}
	if p.Owner != nil {
		t := true
		pod.OwnerReferences = []metav1.OwnerReference{{APIVersion: p.Owner.APIVersion, Kind: p.Owner.Kind, Name: p.Owner.Name,
			UID: types.UID(p.Owner.UID), Controller: &t, BlockOwnerDeletion: &t}}
	}
	return pod
}

func c18NewRun(c *c18Case) (*c18Run, error) {
	r := &c18Run{c: c, recorder: &c18Recorder{}, errPods: map[int]string{}}
	var objs []client.Object
	for _, pc := range c.Prios {
		objs = append(objs, &schedulingv1.PriorityClass{ObjectMeta: metav1.ObjectMeta{Name: pc.Name}, Value: pc.Value})
	}
	if c.Cfg.DefaultsCM != "" {
		objs = append(objs, &v1.ConfigMap{ObjectMeta: metav1.ObjectMeta{Name: c18CMName, Namespace: c18CMNS},
			Data: map[string]string{"types": c.Cfg.DefaultsCM}})
	}
	for i := range c.Pods {
		objs = append(objs, c.podObject(&c.Pods[i]))
	}
	for _, e := range c.Existing {
		objs = append(objs, &v2alpha2.PodGroup{ObjectMeta: metav1.ObjectMeta{Name: e.Name, Namespace: c18NS, Labels: e.Labels,
			OwnerReferences: []metav1.OwnerReference{{APIVersion: e.Owner.APIVersion, Kind: e.Owner.Kind, Name: e.Owner.Name, UID: types.UID(e.Owner.UID)}}},
			Spec: v2alpha2.PodGroupSpec{MinMember: 1, Queue: e.Queue}})
	}
	// plain object tracker: the default field-managed tracker rebuilds a REST mapper of the whole scheme on every write
	r.base = fake.NewClientBuilder().WithScheme(c18Scheme).
		WithObjectTracker(clienttesting.NewObjectTracker(c18Scheme, c18Decoder)).WithObjects(objs...).
		WithStatusSubresource(&v2alpha2.PodGroup{}).Build()
	for _, o := range c.Objects {
		raw, err := json.Marshal(o)
		if err != nil {
			return nil, err
		}
		u := &unstructured.Unstructured{}
		if err := u.UnmarshalJSON(raw); err != nil {
			return nil, fmt.Errorf("object %s: %w", raw, err)
		}
		u.SetNamespace(c18NS)
		if err := r.base.Create(context.Background(), u); err != nil {
			return nil, fmt.Errorf("create %s %s: %w", u.GetKind(), u.GetName(), err)
		}
	}
	note := func(verb string, obj client.Object) {
		r.writes++
		r.writeLog = append(r.writeLog, fmt.Sprintf("%s %T %s", verb, obj, obj.GetName()))
	}
	r.cl = interceptor.NewClient(r.base, interceptor.Funcs{
		Get: func(ctx context.Context, cl client.WithWatch, key client.ObjectKey, obj client.Object, opts ...client.GetOption) error {
			err := cl.Get(ctx, key, obj, opts...)
			if err == nil {
				c18SetGVK(obj) // the manager's cache reader stamps the GVK on typed objects
			}
			return err
		},
		List: func(ctx context.Context, cl client.WithWatch, list client.ObjectList, opts ...client.ListOption) error {
			err := cl.List(ctx, list, opts...)
			if err == nil {
				_ = meta.EachListItem(list, func(o runtime.Object) error { c18SetGVK(o); return nil })
			}
			return err
		},
		Create: func(ctx context.Context, cl client.WithWatch, obj client.Object, opts ...client.CreateOption) error {
			note("create", obj)
			return cl.Create(ctx, obj, opts...)
		},
		Update: func(ctx context.Context, cl client.WithWatch, obj client.Object, opts ...client.UpdateOption) error {
			note("update", obj)
			return cl.Update(ctx, obj, opts...)
		},
		Patch: func(ctx context.Context, cl client.WithWatch, obj client.Object, patch client.Patch, opts ...client.PatchOption) error {
			note("patch", obj)
			return cl.Patch(ctx, obj, patch, opts...)
		},
		Delete: func(ctx context.Context, cl client.WithWatch, obj client.Object, opts ...client.DeleteOption) error {
			note("delete", obj)
			return cl.Delete(ctx, obj, opts...)
		},
		DeleteAllOf: func(ctx context.Context, cl client.WithWatch, obj client.Object, opts ...client.DeleteAllOfOption) error {
			note("deleteAllOf", obj)
			return cl.DeleteAllOf(ctx, obj, opts...)
		},
		SubResourceUpdate: func(ctx context.Context, cl client.Client, sub string, obj client.Object, opts ...client.SubResourceUpdateOption) error {
			note("update/"+sub, obj)
			return cl.SubResource(sub).Update(ctx, obj, opts...)
		},
		SubResourcePatch: func(ctx context.Context, cl client.Client, sub string, obj client.Object, patch client.Patch, opts ...client.SubResourcePatchOption) error {
			note("patch/"+sub, obj)
			return cl.SubResource(sub).Patch(ctx, obj, patch, opts...)
		},
		SubResourceCreate: func(ctx context.Context, cl client.Client, sub string, obj client.Object, subObj client.Object, opts ...client.SubResourceCreateOption) error {
			note("create/"+sub, obj)
			return cl.SubResource(sub).Create(ctx, obj, subObj, opts...)
		},
	})
	cmName, cmNS := "", ""
	if c.Cfg.DefaultsCM != "" {
		cmName, cmNS = c18CMName, c18CMNS
	}
	cfg := Configs{NodePoolLabelKey: c.Cfg.NodePoolKey, MaxConcurrentReconciles: 1, SearchForLegacyPodGroups: c.Cfg.SearchLegacy,
		KnativeGangSchedule: c.Cfg.KnativeGang, SchedulerName: c18Scheduler, SchedulingQueueLabelKey: c.Cfg.QueueKey,
		DefaultConfigPerTypeConfigMapName: cmName, DefaultConfigPerTypeConfigMapNamespace: cmNS}
	hub := pluginshub.NewDefaultPluginsHub(r.cl, cfg.SearchForLegacyPodGroups, cfg.KnativeGangSchedule, cfg.SchedulingQueueLabelKey,
		cfg.NodePoolLabelKey, cmName, cmNS)
	// exactly what SetupWithManager wires (the manager's client for both roles; the uncached client differs only in caching)
	r.rec = &PodReconciler{Client: r.cl, Scheme: c18Scheme,
		podGrouper:      podgrouper.NewPodgrouper(r.cl, r.cl, hub),
		PodGroupHandler: podgroup.NewHandler(r.cl, cfg.NodePoolLabelKey, cfg.SchedulingQueueLabelKey),
		configs:         cfg, eventRecorder: r.recorder}
	return r, nil
}

func c18Canon(obj client.Object) string {
	o := obj.DeepCopyObject().(client.Object)
	o.SetResourceVersion("")
	o.SetManagedFields(nil)
	o.SetCreationTimestamp(metav1.Time{})
	o.SetGeneration(0)
	o.SetUID("")
	o.GetObjectKind().SetGroupVersionKind(schema.GroupVersionKind{})
	b, _ := json.Marshal(o)
	return string(b)
}

func (r *c18Run) podCanon(i int) string {
	p := &v1.Pod{}
	if err := r.base.Get(context.Background(), types.NamespacedName{Namespace: c18NS, Name: r.c.Pods[i].Name}, p); err != nil {
		return "ERR " + err.Error()
	}
	p.TypeMeta = metav1.TypeMeta{}
	return c18Canon(p)
}

// reconcile runs one Reconcile of pod i; it reports whether the pod object changed (=> the watch would
// re-enqueue it) and how many mutating calls were issued.
func (r *c18Run) reconcile(i int) (podChanged bool, writes int, panicMsg string) {
	before := r.podCanon(i)
	w0 := r.writes
	func() {
		defer func() {
			if x := recover(); x != nil {
				panicMsg = fmt.Sprint(x)
			}
		}()
		_, err := r.rec.Reconcile(context.Background(), ctrl.Request{NamespacedName: types.NamespacedName{Namespace: c18NS, Name: r.c.Pods[i].Name}})
		if err != nil {
			r.errPods[i] = err.Error()
		} else {
			delete(r.errPods, i)
		}
	}()
	writes = r.writes - w0
	podChanged = r.podCanon(i) != before
	r.log = append(r.log, fmt.Sprintf("reconcile %s: %d writes %v err=%q", r.c.Pods[i].Name, writes, r.writeLog[len(r.writeLog)-writes:], r.errPods[i]))
	return
}

func (r *c18Run) podGroups() map[string]*v2alpha2.PodGroup {
	l := &v2alpha2.PodGroupList{}
	_ = r.base.List(context.Background(), l, client.InNamespace(c18NS))
	out := map[string]*v2alpha2.PodGroup{}
	for i := range l.Items {
		out[l.Items[i].Name] = &l.Items[i]
	}
	return out
}

func c18SortedKeys[V any](m map[string]V) []string {
	ks := make([]string, 0, len(m))
	for k := range m {
		ks = append(ks, k)
	}
	sort.Strings(ks)
	return ks
}

// applyForeign models another actor (scheduler, pod-group assigner, admin) editing a PodGroup.
func (r *c18Run) applyForeign(f *c18Foreign, touched map[string]*c18Foreign) {
	pgs := r.podGroups()
	names := c18SortedKeys(pgs)
	if len(names) == 0 {
		r.log = append(r.log, "foreign update: no PodGroup yet")
		return
	}
	name := names[f.Sel%len(names)]
	pg := pgs[name]
	t := touched[name]
	if t == nil {
		t = &c18Foreign{}
		touched[name] = t
	}
	if f.Queue != nil {
		pg.Spec.Queue = *f.Queue
		t.Queue = f.Queue
	}
	if f.Mark != nil {
		pg.Spec.MarkUnschedulable = f.Mark
		t.Mark = f.Mark
	}
	if f.Backoff != nil {
		pg.Spec.SchedulingBackoff = f.Backoff
		t.Backoff = f.Backoff
	}
	if f.NodePool != nil && r.c.Cfg.NodePoolKey != "" {
		if pg.Labels == nil {
			pg.Labels = map[string]string{}
		}
		pg.Labels[r.c.Cfg.NodePoolKey] = *f.NodePool
		t.NodePool = f.NodePool
	}
	if err := r.base.Update(context.Background(), pg); err != nil {
		r.log = append(r.log, "foreign update failed: "+err.Error())
		return
	}
	b, _ := json.Marshal(f)
	r.log = append(r.log, fmt.Sprintf("foreign update of %s: %s", name, b))
}

// drain processes the drawn work-queue order and then whatever the modelled Pod watch re-enqueues,
// until the queue is empty. It returns a panic message, if any.
func (r *c18Run) drain(steps []c18Step, touched map[string]*c18Foreign) (panicMsg string, converged bool) {
	queue := append([]c18Step(nil), steps...)
	budget := 20*len(r.c.Pods) + len(steps) + 20
	for n := 0; len(queue) > 0; n++ {
		if n > budget {
			return "", false
		}
		s := queue[0]
		queue = queue[1:]
		if s.Foreign != nil {
			r.applyForeign(s.Foreign, touched)
			continue
		}
		changed, _, pm := r.reconcile(s.Pod)
		if pm != "" {
			return pm, true
		}
		if changed {
			queue = append(queue, c18Step{Pod: s.Pod})
		}
	}
	return "", true
}

type c18Snap struct {
	PGs  map[string]string // name -> canonical JSON
	Pods []c18PodSnap
}
type c18PodSnap struct {
	Group, Sub string
	Canon      string
}

func (r *c18Run) snapshot() c18Snap {
	s := c18Snap{PGs: map[string]string{}}
	for n, pg := range r.podGroups() {
		pg.TypeMeta = metav1.TypeMeta{}
		s.PGs[n] = c18Canon(pg)
	}
	for i := range r.c.Pods {
		p := &v1.Pod{}
		_ = r.base.Get(context.Background(), types.NamespacedName{Namespace: c18NS, Name: r.c.Pods[i].Name}, p)
		s.Pods = append(s.Pods, c18PodSnap{Group: p.Annotations[constants.PodGroupAnnotationForPod], Sub: p.Labels[constants.SubGroupLabelKey], Canon: r.podCanon(i)})
	}
	return s
}

// extraRound reconciles every pod once more (in index order) and reports the mutating calls it saw.
func (r *c18Run) extraRound() (writes []string, panicMsg string) {
	w0 := len(r.writeLog)
	r.log = append(r.log, "-- extra round over all pods --")
	for i := range r.c.Pods {
		if _, _, pm := r.reconcile(i); pm != "" {
			return nil, pm
		}
	}
	return append([]string(nil), r.writeLog[w0:]...), ""
}

func c18Steps(order []int) []c18Step {
	out := make([]c18Step, len(order))
	for i, p := range order {
		out[i] = c18Step{Pod: p}
	}
	return out
}

// ---------------------------------------------------------------------------------------------
// oracle

type c18Facts struct {
	orderDiffers   bool // >= 2 pods of one top owner first reconciled in different relative order in A and B
	foreignHit     bool
	groups         int
	errs           int
	subGroups      bool
	multiPodGroups bool
}

func c18FirstOcc(order []int) map[int]int {
	m := map[int]int{}
	for pos, p := range order {
		if _, ok := m[p]; !ok {
			m[p] = pos
		}
	}
	return m
}

func c18Judge(c *c18Case) (sig, msg string, f c18Facts, trace map[string]any) {
	trace = map[string]any{}
	fail := func(s, m string) (string, string, c18Facts, map[string]any) { return s, m, f, trace }

	// ---- run A and run B: two work-queue orders from the same initial store
	var snaps [2]c18Snap
	var errsAB [2]map[int]string
	for k, order := range [][]int{c.OrderA, c.OrderB} {
		r, err := c18NewRun(c)
		if err != nil {
			return fail("harness-error", err.Error())
		}
		pm, conv := r.drain(c18Steps(order), nil)
		name := string(rune('A' + k))
		trace["run"+name] = r.log
		if pm != "" {
			return fail("panic", fmt.Sprintf("Reconcile panicked in run %s: %s", name, pm))
		}
		if !conv {
			return fail("no-fixpoint", fmt.Sprintf("run %s: pods keep being re-enqueued by their own reconciles (work queue not empty after %d steps)", name, len(r.log)))
		}
		snaps[k] = r.snapshot()
		writes, pm := r.extraRound()
		trace["run"+name] = r.log
		if pm != "" {
			return fail("panic", fmt.Sprintf("Reconcile panicked in run %s: %s", name, pm))
		}
		if len(writes) > 0 {
			return fail("writes-after-fixpoint", fmt.Sprintf("run %s: after the work queue drained, reconciling every pod again without any external change issued %d mutating call(s): %v", name, len(writes), c18Head(writes, 6)))
		}
		if d := c18DiffSnap(snaps[k], r.snapshot()); d != "" {
			return fail("store-changes-after-fixpoint", fmt.Sprintf("run %s: the extra round changed the store: %s", name, d))
		}
		errsAB[k] = r.errPods
	}
	f.errs = len(errsAB[0])
	f.groups = len(snaps[0].PGs)

	// (a) order independence
	if d := c18DiffSnap(snaps[0], snaps[1]); d != "" {
		return fail("order-dependent-result", fmt.Sprintf("two reconcile orders of the same pods (A=%v, B=%v) end in different stores: %s", c.OrderA, c.OrderB, d))
	}
	for i := range c.Pods {
		if (errsAB[0][i] == "") != (errsAB[1][i] == "") {
			return fail("order-dependent-error", fmt.Sprintf("pod %s fails to reconcile in one order only: A=%q B=%q", c.Pods[i].Name, errsAB[0][i], errsAB[1][i]))
		}
	}

	// grouping rules on the result of run A
	if s, m := c18CheckGrouping(c, snaps[0], errsAB[0], &f); s != "" {
		return fail(s, m)
	}
	fa, fb := c18FirstOcc(c.OrderA), c18FirstOcc(c.OrderB)
	for i := range c.Pods {
		for j := i + 1; j < len(c.Pods); j++ {
			if c.Pods[i].W == c.Pods[j].W && (fa[i] < fa[j]) != (fb[i] < fb[j]) {
				f.orderDiffers = true
			}
		}
	}

	// ---- run C: a third order with foreign updates interleaved
	if len(c.StepsC) > 0 {
		r, err := c18NewRun(c)
		if err != nil {
			return fail("harness-error", err.Error())
		}
		touched := map[string]*c18Foreign{}
		pm, conv := r.drain(c.StepsC, touched)
		trace["runC"] = r.log
		if pm != "" {
			return fail("panic", "Reconcile panicked in run C: "+pm)
		}
		if !conv {
			return fail("no-fixpoint", "run C (foreign updates interleaved): work queue does not drain")
		}
		// one more pass so that every pod is reconciled at least once after the last foreign update
		for i := range c.Pods {
			if _, _, pm := r.reconcile(i); pm != "" {
				return fail("panic", "Reconcile panicked in run C: "+pm)
			}
		}
		sc := r.snapshot()
		f.foreignHit = len(touched) > 0
		if s, m := c18CheckForeign(c, snaps[0], sc, touched); s != "" {
			trace["runC"] = r.log
			return fail(s, m)
		}
		writes, pm := r.extraRound()
		trace["runC"] = r.log
		if pm != "" {
			return fail("panic", "Reconcile panicked in run C: "+pm)
		}
		if len(writes) > 0 {
			return fail("writes-after-foreign-update", fmt.Sprintf("after foreign updates of %v the controller keeps writing: a further round over all pods issued %d mutating call(s): %v", c18SortedKeys(touched), len(writes), c18Head(writes, 6)))
		}
	}
	return "", "", f, trace
}

func c18Head(s []string, n int) []string {
	if len(s) > n {
		return append(append([]string(nil), s[:n]...), "...")
	}
	return s
}

func c18DiffSnap(a, b c18Snap) string {
	for _, n := range c18SortedKeys(a.PGs) {
		if _, ok := b.PGs[n]; !ok {
			return fmt.Sprintf("PodGroup %s exists only in the first store", n)
		}
		if a.PGs[n] != b.PGs[n] {
			return fmt.Sprintf("PodGroup %s differs: %s  VS  %s", n, c18Short(a.PGs[n]), c18Short(b.PGs[n]))
		}
	}
	for _, n := range c18SortedKeys(b.PGs) {
		if _, ok := a.PGs[n]; !ok {
			return fmt.Sprintf("PodGroup %s exists only in the second store", n)
		}
	}
	for i := range a.Pods {
		if a.Pods[i].Canon != b.Pods[i].Canon {
			return fmt.Sprintf("pod #%d differs: group %q/%q sub-group %q/%q: %s VS %s", i, a.Pods[i].Group, b.Pods[i].Group, a.Pods[i].Sub, b.Pods[i].Sub, c18Short(a.Pods[i].Canon), c18Short(b.Pods[i].Canon))
		}
	}
	return ""
}

func c18Short(s string) string {
	if len(s) > 700 {
		return s[:700] + "…"
	}
	return s
}

func c18ParsePG(s string) *v2alpha2.PodGroup {
	pg := &v2alpha2.PodGroup{}
	_ = json.Unmarshal([]byte(s), pg)
	return pg
}

// c18CheckGrouping: all siblings of one grouping key in one PodGroup, different keys in different groups,
// documented names / minMember / priority class / owner reference, and nothing but the assignment changed on the pods.
func c18CheckGrouping(c *c18Case, s c18Snap, errs map[int]string, f *c18Facts) (string, string) {
	byKey := map[string]string{}
	byGroup := map[string]string{}
	members := map[string]int{}
	for i := range c.Pods {
		p := &c.Pods[i]
		if errs[i] != "" {
			continue // the controller reported an error for this pod (counted); nothing is asserted about it
		}
		g := s.Pods[i].Group
		if p.Key == "" {
			if orig := p.Annotations[constants.PodGroupAnnotationForPod]; g != orig {
				return "unexpected-assignment", fmt.Sprintf("pod %s is outside the controller's remit but its pod-group annotation changed from %q to %q", p.Name, orig, g)
			}
			continue
		}
		if g == "" {
			return "pod-not-assigned", fmt.Sprintf("pod %s (workload %s) reconciled without error but carries no pod-group annotation", p.Name, c.Workloads[p.W].Shape)
		}
		pgJSON, ok := s.PGs[g]
		if !ok {
			return "assigned-group-missing", fmt.Sprintf("pod %s is assigned to PodGroup %s which does not exist", p.Name, g)
		}
		members[g]++
		key := fmt.Sprintf("%d/%s", p.W, p.Key)
		if prev, ok := byKey[key]; ok && prev != g {
			return "siblings-split", fmt.Sprintf("pods of the same workload %s (%s %s, grouping key %q) are in different PodGroups %s and %s", c.Workloads[p.W].Shape, c.Workloads[p.W].Top.Kind, c.Workloads[p.W].Top.Name, p.Key, prev, g)
		}
		byKey[key] = g
		if prev, ok := byGroup[g]; ok && prev != key {
			return "distinct-groups-merged", fmt.Sprintf("PodGroup %s holds pods that must be grouped separately (%s and %s) — workload shape %s", g, prev, key, c.Workloads[p.W].Shape)
		}
		byGroup[g] = key
		if p.WantName != "" && g != p.WantName {
			return "group-name", fmt.Sprintf("pod %s of %s: PodGroup is named %q, documented name is %q", p.Name, c.Workloads[p.W].Shape, g, p.WantName)
		}
		if p.WantSub != "?" && s.Pods[i].Sub != p.WantSub {
			return "sub-group-assignment", fmt.Sprintf("pod %s of %s carries sub-group label %q, expected %q", p.Name, c.Workloads[p.W].Shape, s.Pods[i].Sub, p.WantSub)
		}
		pg := c18ParsePG(pgJSON)
		w := &c.Workloads[p.W]
		wantMin := w.WantMin
		if p.WantMin != 0 {
			wantMin = p.WantMin
		}
		if wantMin != 0 && pg.Spec.MinMember != wantMin {
			return "min-member", fmt.Sprintf("PodGroup %s of %s has minMember %d, documented value is %d", g, w.Shape, pg.Spec.MinMember, wantMin)
		}
		if w.WantPrio != "" && pg.Spec.PriorityClassName != w.WantPrio {
			return "priority-class", fmt.Sprintf("PodGroup %s of %s has priorityClassName %q, documented value is %q", g, w.Shape, pg.Spec.PriorityClassName, w.WantPrio)
		}
		if w.WantQueue != "" && pg.Spec.Queue != w.WantQueue {
			return "queue", fmt.Sprintf("PodGroup %s of %s has spec.queue %q although the workload is labelled for queue %q", g, w.Shape, pg.Spec.Queue, w.WantQueue)
		}
		if w.WantPreempt != nil && string(pg.Spec.Preemptibility) != *w.WantPreempt {
			return "preemptibility", fmt.Sprintf("PodGroup %s of %s has spec.preemptibility %q, the labels say %q", g, w.Shape, pg.Spec.Preemptibility, *w.WantPreempt)
		}
		if len(pg.OwnerReferences) != 1 {
			return "owner-reference", fmt.Sprintf("PodGroup %s has %d owner references", g, len(pg.OwnerReferences))
		}
		or := pg.OwnerReferences[0]
		switch w.WantOwnerIs {
		case "top":
			if or.Kind != w.Top.Kind || or.Name != w.Top.Name || string(or.UID) != w.Top.UID || or.APIVersion != w.Top.APIVersion {
				return "owner-reference", fmt.Sprintf("PodGroup %s of %s is owned by %s %s/%s (uid %s), expected the top owner %+v", g, w.Shape, or.APIVersion, or.Kind, or.Name, or.UID, w.Top)
			}
		case "pod":
			if or.Kind != "Pod" || or.APIVersion != "v1" || or.Name != p.Name || string(or.UID) != p.UID {
				return "owner-reference", fmt.Sprintf("per-pod PodGroup %s of %s is owned by %q %q/%q (uid %q), expected Pod v1 %s (uid %s)", g, w.Shape, or.APIVersion, or.Kind, or.Name, or.UID, p.Name, p.UID)
			}
		}
		if s.Pods[i].Sub != "" {
			found := false
			for _, sg := range pg.Spec.SubGroups {
				if sg.Name == s.Pods[i].Sub {
					found = true
				}
			}
			if !found {
				return "sub-group-missing", fmt.Sprintf("pod %s is labelled with sub-group %q which PodGroup %s does not define", p.Name, s.Pods[i].Sub, g)
			}
		}
		if len(pg.Spec.SubGroups) > 0 {
			f.subGroups = true
		}
		// nothing but the assignment may change on the pod
		want := c.podObject(p)
		if want.Annotations == nil {
			want.Annotations = map[string]string{}
		}
		want.Annotations[constants.PodGroupAnnotationForPod] = g
		if s.Pods[i].Sub != "" {
			if want.Labels == nil {
				want.Labels = map[string]string{}
			}
			want.Labels[constants.SubGroupLabelKey] = s.Pods[i].Sub
		}
		if wc := c18Canon(want); wc != s.Pods[i].Canon {
			return "pod-modified", fmt.Sprintf("reconciling changed more than the assignment on pod %s: %s VS expected %s", p.Name, c18Short(s.Pods[i].Canon), c18Short(wc))
		}
	}
	for _, n := range members {
		if n > 1 {
			f.multiPodGroups = true
		}
	}
	return "", ""
}

// c18CheckForeign: in run C every PodGroup must equal the one of run A except for the fields the foreign actor set,
// and those must carry the foreign values.
func c18CheckForeign(c *c18Case, sa, sc c18Snap, touched map[string]*c18Foreign) (string, string) {
	for _, n := range c18SortedKeys(sc.PGs) {
		if _, ok := sa.PGs[n]; !ok {
			return "order-dependent-result", fmt.Sprintf("run C created PodGroup %s which run A did not", n)
		}
	}
	for _, n := range c18SortedKeys(sa.PGs) {
		got, ok := sc.PGs[n]
		if !ok {
			return "order-dependent-result", fmt.Sprintf("run C lacks PodGroup %s of run A", n)
		}
		pg := c18ParsePG(got)
		want := c18ParsePG(sa.PGs[n])
		if t := touched[n]; t != nil {
			if t.Queue != nil {
				if pg.Spec.Queue != *t.Queue {
					return "foreign-queue-overwritten", fmt.Sprintf("PodGroup %s: another actor set spec.queue=%q, after reconciling it is %q", n, *t.Queue, pg.Spec.Queue)
				}
				want.Spec.Queue = *t.Queue
			}
			if t.Mark != nil {
				if pg.Spec.MarkUnschedulable == nil || *pg.Spec.MarkUnschedulable != *t.Mark {
					return "foreign-markunschedulable-overwritten", fmt.Sprintf("PodGroup %s: another actor set spec.markUnschedulable=%v, after reconciling it is %v", n, *t.Mark, c18PB(pg.Spec.MarkUnschedulable))
				}
				want.Spec.MarkUnschedulable = t.Mark
			}
			if t.Backoff != nil {
				if pg.Spec.SchedulingBackoff == nil || *pg.Spec.SchedulingBackoff != *t.Backoff {
					return "foreign-backoff-overwritten", fmt.Sprintf("PodGroup %s: another actor set spec.schedulingBackoff=%d, after reconciling it is %v", n, *t.Backoff, c18PI(pg.Spec.SchedulingBackoff))
				}
				want.Spec.SchedulingBackoff = t.Backoff
			}
			if t.NodePool != nil {
				if pg.Labels[c.Cfg.NodePoolKey] != *t.NodePool {
					return "foreign-nodepool-overwritten", fmt.Sprintf("PodGroup %s: another actor set label %s=%q, after reconciling it is %q", n, c.Cfg.NodePoolKey, *t.NodePool, pg.Labels[c.Cfg.NodePoolKey])
				}
				if want.Labels == nil {
					want.Labels = map[string]string{}
				}
				want.Labels[c.Cfg.NodePoolKey] = *t.NodePool
			}
		}
		if a, b := c18Canon(pg), c18Canon(want); a != b {
			return "foreign-update-disturbs-result", fmt.Sprintf("PodGroup %s after foreign updates differs from the undisturbed result in more than the foreign fields: %s VS %s", n, c18Short(a), c18Short(b))
		}
	}
	for i := range sa.Pods {
		if sa.Pods[i].Canon != sc.Pods[i].Canon {
			return "foreign-update-disturbs-result", fmt.Sprintf("pod %s ends up differently when foreign PodGroup updates are interleaved: %s VS %s", c.Pods[i].Name, c18Short(sc.Pods[i].Canon), c18Short(sa.Pods[i].Canon))
		}
	}
	return "", ""
}

func c18PB(b *bool) string {
	if b == nil {
		return "<unset>"
	}
	return fmt.Sprint(*b)
}
func c18PI(b *int32) string {
	if b == nil {
		return "<unset>"
	}
	return fmt.Sprint(*b)
}

// ---------------------------------------------------------------------------------------------
// property + replay

func c18Record(c *c18Case, f c18Facts) {
	classes := []string{}
	seen := map[string]bool{}
	for _, w := range c.Workloads {
		if !seen[w.Shape] {
			classes = append(classes, "shape:"+w.Shape)
			seen[w.Shape] = true
		}
	}
	add := func(b bool, s string) {
		if b {
			classes = append(classes, s)
		}
	}
	add(f.orderDiffers, "sibling-order-differs")
	add(f.foreignHit, "foreign-update-hit")
	add(len(c.StepsC) > 0 && !f.foreignHit, "foreign-update-missed")
	add(f.subGroups, "sub-groups")
	add(f.multiPodGroups, "multi-pod-group")
	add(f.errs > 0, "reconcile-error")
	add(c.Cfg.NodePoolKey != "", "node-pool-key-on")
	add(c.Cfg.DefaultsCM != "", "defaults-configmap")
	add(len(c.Workloads) > 1, "two-workloads")
	add(len(c.Existing) > 0, "pre-existing-legacy-podgroup")
	classes = append(classes, fmt.Sprintf("pods:%d", len(c.Pods)), fmt.Sprintf("groups:%d", min(f.groups, 6)))
	nt := f.orderDiffers || f.foreignHit
	kit.Eval(kit.HexKey(c), nt, classes...)
	if nt && kit.WantSample() {
		kit.Sample(c)
	}
}

func TestCheckPodGrouper(t *testing.T) {
	kit.Run(t, kit.Budget{Quick: 20000, Thorough: 400000}, func(t *rapid.T) {
		c := c18GenCase(t)
		sig, msg, f, trace := c18Judge(c)
		if sig == "harness-error" {
			kit.Inconclusive()
			kit.Note("harness-error", 1)
			t.Fatalf("harness error: %s", msg)
		}
		if c.Hetero {
			kit.Note("observation-hetero-cases", 1)
			if sig != "" {
				kit.Note("observation-hetero-"+sig, 1)
			}
			kit.Class("hetero-templates(observation-only)")
			return
		}
		c18Record(c, f)
		if f.errs > 0 {
			kit.Note("cases-with-reconcile-errors", 1)
		}
		if sig != "" {
			if kit.Known(c18Prop, sig) {
				return // listed in known_findings.json: counted by the kit, the search goes on
			}
			path := kit.Violation(c18Prop, sig, msg, c, trace)
			t.Fatalf("VIOLATION %s: %s (%s)", sig, msg, path)
		}
	})
}

func TestReplay(t *testing.T) {
	kit.ReplayMain(t, func(rf *kit.ReplayFile) kit.ReplayResult {
		var c c18Case
		if err := json.Unmarshal(rf.Case, &c); err != nil {
			t.Fatalf("bad case: %v", err)
		}
		sig, msg, _, trace := c18Judge(&c)
		if sig != "" {
			b, _ := json.MarshalIndent(trace, "", " ")
			t.Logf("trace: %s", b)
		}
		bad := 0
		if sig != "" {
			bad = 1
		}
		return kit.ReplayResult{Violated: sig != "", Signature: sig, Message: msg, Runs: 1, Bad: bad}
	})
}

var _ = strings.Join
