package c19

import (
	"context"
	"encoding/json"
	"fmt"
	"math"
	"math/big"
	"reflect"
	"regexp"
	"strings"
	"testing"

	v1 "k8s.io/api/core/v1"
	"k8s.io/apimachinery/pkg/api/resource"
	metav1 "k8s.io/apimachinery/pkg/apis/meta/v1"
	"pgregory.net/rapid"

	admissionplugins "github.com/NVIDIA/KAI-scheduler/pkg/admission/plugins"
	"github.com/NVIDIA/KAI-scheduler/pkg/admission/webhook/v1alpha2/gpusharing"
	"github.com/NVIDIA/KAI-scheduler/pkg/admission/webhook/v1alpha2/podhooks"
	bindercommon "github.com/NVIDIA/KAI-scheduler/pkg/binder/common"
	"github.com/NVIDIA/KAI-scheduler/pkg/binder/common/gpusharingconfigmap"
	gpurequesthandler "github.com/NVIDIA/KAI-scheduler/pkg/binder/plugins/gpusharing/gpu-request"
	"github.com/NVIDIA/KAI-scheduler/pkg/common/constants"
	"github.com/NVIDIA/KAI-scheduler/pkg/scheduler/api/pod_info"
	"github.com/NVIDIA/KAI-scheduler/pkg/scheduler/api/resource_info"
	kit "github.com/NVIDIA/KAI-scheduler/zz_verif/verifkit"
)

const prop = "C19"
const schedulerName = "kai-scheduler"

func TestMain(m *testing.M) { kit.Main(m) }

// ---------------------------------------------------------------------------------------------
// case

type Container struct {
	Name string `json:"name"`
	GPUs int    `json:"gpus"` // nvidia.com/gpu request = limit; 0 = none
	CPU  int    `json:"cpu"`  // millicpu
}

type Case struct {
	Fraction    *string     `json:"fraction"`
	Memory      *string     `json:"memory"`
	Count       *string     `json:"count"`
	ContainerNm *string     `json:"containerName"`
	Containers  []Container `json:"containers"`
	Inits       []Container `json:"inits"`
	Sharing     bool        `json:"sharingEnabled"`
	Owner       bool        `json:"owner"`
}

func (c *Case) pod() *v1.Pod {
	p := &v1.Pod{
		ObjectMeta: metav1.ObjectMeta{Name: "p", Namespace: "ns", UID: "uid-p", Annotations: map[string]string{}},
		Spec:       v1.PodSpec{SchedulerName: schedulerName},
		Status:     v1.PodStatus{Phase: v1.PodPending},
	}
	if c.Owner {
		p.OwnerReferences = []metav1.OwnerReference{{APIVersion: "batch/v1", Kind: "Job", Name: "a-rather-long-owner-name-to-exercise-truncation-of-the-configmap-prefix", UID: "o"}}
	}
	if c.Fraction != nil {
		p.Annotations[constants.GpuFraction] = *c.Fraction
	}
	if c.Memory != nil {
		p.Annotations[constants.GpuMemory] = *c.Memory
	}
	if c.Count != nil {
		p.Annotations[constants.GpuFractionsNumDevices] = *c.Count
	}
	if c.ContainerNm != nil {
		p.Annotations[constants.GpuFractionContainerName] = *c.ContainerNm
	}
	mk := func(cs []Container) []v1.Container {
		var out []v1.Container
		for _, x := range cs {
			ct := v1.Container{Name: x.Name, Resources: v1.ResourceRequirements{Requests: v1.ResourceList{}, Limits: v1.ResourceList{}}}
			if x.CPU > 0 {
				ct.Resources.Requests[v1.ResourceCPU] = *resource.NewMilliQuantity(int64(x.CPU), resource.DecimalSI)
			}
			if x.GPUs > 0 {
				q := *resource.NewQuantity(int64(x.GPUs), resource.DecimalSI)
				ct.Resources.Requests[constants.NvidiaGpuResource] = q
				ct.Resources.Limits[constants.NvidiaGpuResource] = q
			}
			out = append(out, ct)
		}
		return out
	}
	p.Spec.Containers = mk(c.Containers)
	p.Spec.InitContainers = mk(c.Inits)
	return p
}

// ---------------------------------------------------------------------------------------------
// generators

var numberLits = []string{
	"0.5", "0.25", ".5", "0.50", "0.99", "0.01", "0.001", "0.004", "0.005", "1", "1.0", "0", "0.0", "-0", "2", "1.5", "0.999999999999999999999",
	"5e-1", "5E-1", "1e-300", "1e-400", "1e400", "0.5e0", "50e-2", "1e0",
	"0x1p-1", "0X1P-2", "0x.8p0", "0x1p0", "0x1p-1074", "0x1.fffffffffffffp-1",
	"NaN", "nan", "NAN", "Inf", "+Inf", "-Inf", "inf", "infinity", "Infinity",
	"+0.5", "-0.5", "+1", "-1", " 0.5", "0.5 ", "0.5\n", "\t1", "0_5", "0x_1p-1", "1_0", "0,5", "1/2", "½",
	"", " ", "abc", "0.5.5", "--1", "0x", "1e", "e1", ".", "+", "0b1", "0o7", "07", "0.5f", "1_000",
	"9223372036854775807", "9223372036854775808", "18446744073709551615", "18446744073709551616", "99999999999999999999", "100000000000000000000",
	"4611686018427387904", "184467440737095516", "1000", "2000", "16384", "40000", "3", "8", "64",
	"+2000", "-2000", "2000.0", "2e3", "0x7d0", "2_000", "٢٠٠٠",
}

func genNumString(t *rapid.T, label string) string {
	switch rapid.IntRange(0, 9).Draw(t, label+"Kind") {
	case 0, 1, 2, 3:
		return rapid.SampledFrom(numberLits).Draw(t, label+"Lit")
	case 4: // plain decimal fraction
		return fmt.Sprintf("0.%0*d", rapid.IntRange(1, 4).Draw(t, label+"W"), rapid.IntRange(0, 9999).Draw(t, label+"D"))
	case 5: // plain integer
		return fmt.Sprintf("%d", rapid.Int64Range(0, 70000).Draw(t, label+"I"))
	case 6: // big integer around the int64 / uint64 borders
		base := new(big.Int).Lsh(big.NewInt(1), uint(rapid.SampledFrom([]int{31, 32, 53, 62, 63, 64}).Draw(t, label+"Sh")))
		base.Add(base, big.NewInt(int64(rapid.IntRange(-2, 2).Draw(t, label+"Off"))))
		return base.String()
	case 7: // exponent forms
		return fmt.Sprintf("%de%d", rapid.IntRange(0, 99).Draw(t, label+"M"), rapid.IntRange(-330, 330).Draw(t, label+"E"))
	default: // grammar soup
		return rapid.StringMatching(`[ +\-]?(0[xX])?[0-9_]{0,4}(\.[0-9]{0,3})?([eEpP][+\-]?[0-9]{1,3})?[ fF]?`).Draw(t, label+"Soup")
	}
}

func optStr(t *rapid.T, label string, pPresent int) *string {
	if rapid.IntRange(0, 9).Draw(t, label+"Present") >= pPresent {
		return nil
	}
	s := genNumString(t, label)
	return &s
}

func genCase(t *rapid.T) *Case {
	c := &Case{Sharing: rapid.IntRange(0, 4).Draw(t, "sharing") > 0, Owner: rapid.Bool().Draw(t, "owner")}
	shape := rapid.IntRange(0, 9).Draw(t, "shape")
	switch {
	case shape <= 3:
		c.Fraction = optStr(t, "fraction", 10)
		c.Count = optStr(t, "count", 4)
	case shape <= 6:
		c.Memory = optStr(t, "memory", 10)
		c.Count = optStr(t, "count", 4)
	case shape == 7:
		c.Fraction = optStr(t, "fraction", 5)
		c.Memory = optStr(t, "memory", 5)
		c.Count = optStr(t, "count", 5)
	default: // whole GPUs / cpu only, annotations rare
		c.Count = optStr(t, "count", 1)
	}
	nC := rapid.IntRange(0, 3).Draw(t, "nContainers")
	if rapid.IntRange(0, 19).Draw(t, "zeroContainers") > 0 && nC == 0 {
		nC = 1
	}
	wholeLikely := shape >= 8 || rapid.IntRange(0, 7).Draw(t, "mixWhole") == 0
	for i := 0; i < nC; i++ {
		ct := Container{Name: fmt.Sprintf("c%d", i), CPU: rapid.SampledFrom([]int{0, 100, 1000}).Draw(t, "cpu")}
		if wholeLikely && rapid.Bool().Draw(t, "hasGpu") {
			ct.GPUs = rapid.IntRange(1, 8).Draw(t, "gpus")
		}
		c.Containers = append(c.Containers, ct)
	}
	for i := 0; i < rapid.IntRange(0, 2).Draw(t, "nInits"); i++ {
		ct := Container{Name: fmt.Sprintf("i%d", i), CPU: rapid.SampledFrom([]int{0, 100, 4000}).Draw(t, "icpu")}
		if wholeLikely && rapid.IntRange(0, 2).Draw(t, "iHasGpu") == 0 {
			ct.GPUs = rapid.IntRange(1, 8).Draw(t, "igpus")
		}
		c.Inits = append(c.Inits, ct)
	}
	if rapid.IntRange(0, 3).Draw(t, "named") == 0 {
		names := []string{"c0", "c1", "c2", "i0", "i1", "nope", ""}
		s := rapid.SampledFrom(names).Draw(t, "containerName")
		c.ContainerNm = &s
	}
	return c
}

// ---------------------------------------------------------------------------------------------
// reference reading of the annotation strings (independent of strconv)

var plainDecimal = regexp.MustCompile(`^[0-9]+(\.[0-9]+)?$`)

// denotes returns the exact rational the string denotes as a number, if any. Only plain, finite
// numerals count: optional sign, decimal or hex-float syntax, optional exponent. NaN/Inf, blanks,
// empty strings and anything else denote nothing.
func denotes(s string) (*big.Rat, bool) {
	if s == "" || strings.ContainsAny(s, " \t\n\r/") {
		return nil, false
	}
	if strings.Contains(s, "_") {
		// Go numeric-literal syntax allows '_' as a digit separator (between digits, or between a
		// base prefix and a digit). The reference is liberal here: any '_' that separates two
		// digit/prefix characters is ignored; a stricter component simply rejects, which is sound.
		if regexp.MustCompile(`(^|[^0-9a-fA-FxX])_|_([^0-9a-fA-F]|$)|__`).MatchString(s) {
			return nil, false
		}
		s = strings.ReplaceAll(s, "_", "")
	}
	if !regexp.MustCompile(`^[+\-]?((0[xX][0-9a-fA-F]*\.?[0-9a-fA-F]*[pP][+\-]?[0-9]+)|([0-9]*\.?[0-9]*([eE][+\-]?[0-9]+)?))$`).MatchString(s) {
		return nil, false
	}
	if !regexp.MustCompile(`[0-9a-fA-F]`).MatchString(strings.TrimLeft(s, "+-")) {
		return nil, false
	}
	// guard against astronomically large exponents blowing up big.Rat
	if m := regexp.MustCompile(`[eEpP]([+\-]?[0-9]+)$`).FindStringSubmatch(s); m != nil && len(strings.TrimLeft(m[1], "+-")) > 5 {
		return nil, false
	}
	r, ok := new(big.Rat).SetString(s)
	if !ok {
		return nil, false
	}
	return r, true
}

func ratIsInt(r *big.Rat) bool { return r.IsInt() }

type verdicts struct {
	admitErr, binderErr error
	task                *pod_info.PodInfo
}

func newValidator(sharing bool) podhooks.PodValidator {
	pl := admissionplugins.New()
	pl.RegisterPlugin(gpusharing.New(nil, sharing))
	return podhooks.NewPodValidator(nil, pl, schedulerName)
}

func newPlugins(sharing bool) *admissionplugins.KaiAdmissionPlugins {
	pl := admissionplugins.New()
	pl.RegisterPlugin(gpusharing.New(nil, sharing))
	return pl
}

func evaluate(c *Case, p *v1.Pod) (v verdicts, panicMsg string) {
	defer func() {
		if r := recover(); r != nil {
			panicMsg = fmt.Sprint(r)
		}
	}()
	_, v.admitErr = newValidator(c.Sharing).ValidateCreate(context.Background(), p.DeepCopy())
	v.binderErr = gpurequesthandler.ValidateGpuRequests(p.DeepCopy())
	v.task = pod_info.NewTaskInfo(p.DeepCopy(), nil, resource_info.NewResourceVectorMap())
	return v, ""
}

func safeMutate(c *Case, p *v1.Pod) (err error, panicMsg string) {
	defer func() {
		if r := recover(); r != nil {
			panicMsg = fmt.Sprint(r)
		}
	}()
	return newPlugins(c.Sharing).Mutate(p), ""
}

type facts struct {
	accepted, sharingReq, nonPlain, multiAnn bool
}

// judgeUpdates submits the (mutated) pod as the new version of an update at three stages of its life - still
// unscheduled, bound to a node, terminating - the old version being a plain pod without GPU request.
func judgeUpdates(c *Case, p *v1.Pod, createAccepts bool) (sig, msg string) {
	old := p.DeepCopy()
	for _, k := range []string{"gpu-fraction", "gpu-memory", "gpu-fraction-num-devices", "gpu-fraction-container-name"} {
		delete(old.Annotations, k)
	}
	stages := []struct {
		name string
		set  func(*v1.Pod)
	}{
		{"unscheduled", func(*v1.Pod) {}},
		{"bound", func(x *v1.Pod) { x.Spec.NodeName = "node-1"; x.Status.Phase = v1.PodRunning }},
		{"terminating", func(x *v1.Pod) {
			x.Spec.NodeName = "node-1"
			x.Status.Phase = v1.PodRunning
			ts := metav1.Unix(1700000000, 0)
			x.DeletionTimestamp = &ts
		}},
	}
	for _, st := range stages {
		o, n := old.DeepCopy(), p.DeepCopy()
		st.set(o)
		st.set(n)
		var err error
		pm := ""
		func() {
			defer func() {
				if r := recover(); r != nil {
					pm = fmt.Sprint(r)
				}
			}()
			_, err = newValidator(c.Sharing).ValidateUpdate(context.Background(), o, n)
		}()
		if pm != "" {
			return "panic-validate-update", fmt.Sprintf("ValidateUpdate panics for a %s pod: %s", st.name, pm)
		}
		if (err == nil) != createAccepts {
			return "update-verdict-differs-from-create", fmt.Sprintf("the same pod is %s on creation but %s as an update of a %s pod (update error: %v); annotations %v",
				map[bool]string{true: "admitted", false: "rejected"}[createAccepts], map[bool]string{true: "admitted", false: "rejected"}[err == nil], st.name, err, p.Annotations)
		}
	}
	return "", ""
}

func judge(c *Case) (sig, msg string, f facts) {
	if len(c.Containers) == 0 {
		// a pod without containers cannot exist in the API; only totality is checked
		_, pm := evaluate(c, c.pod())
		if pm != "" {
			return "panic-no-containers", pm, f
		}
		return "", "", f
	}
	// Admission = mutating webhook, then validating webhook on the mutated object; the scheduler
	// and the binder see the mutated object.
	orig := c.pod()
	p := orig.DeepCopy()
	mutateErr, pmM := safeMutate(c, p)
	if pmM != "" {
		return "panic-mutate", pmM, f
	}
	if mutateErr != nil {
		p = orig.DeepCopy() // rejected by the mutating webhook; the scheduler's reading is still judged for clause 2
	}
	v, pm := evaluate(c, p)
	if pm != "" {
		return "panic", pm, f
	}
	if mutateErr != nil {
		v.admitErr = mutateErr
	}
	s := v.task
	req := s.ResReq
	f.accepted = v.admitErr == nil
	f.sharingReq = s.IsSharedGPURequest()
	nAnn := 0
	for _, a := range []*string{c.Fraction, c.Memory, c.Count} {
		if a != nil {
			nAnn++
			if !plainDecimal.MatchString(*a) {
				f.nonPlain = true
			}
		}
	}
	f.multiAnn = nAnn >= 2

	// The validating webhook is registered for UPDATE as well and the GPU request lives in mutable annotations, which
	// the scheduler re-reads for bound and running pods on every snapshot: an update that turns an admitted pod into
	// this one must get the verdict a creation gets, at every stage of the pod's life.
	if mutateErr == nil {
		if usig, umsg := judgeUpdates(c, p, v.admitErr == nil); usig != "" {
			return usig, umsg, f
		}
	}

	// what the strings denote
	var fracV, memV, cntV *big.Rat
	fracOK, memOK, cntOK := false, false, false
	if c.Fraction != nil {
		fracV, fracOK = denotes(*c.Fraction)
		fracOK = fracOK && fracV.Sign() > 0 && fracV.Cmp(big.NewRat(1, 1)) < 0
	}
	if c.Memory != nil {
		memV, memOK = denotes(*c.Memory)
		memOK = memOK && memV.Sign() > 0 && ratIsInt(memV)
	}
	if c.Count != nil {
		cntV, cntOK = denotes(*c.Count)
		cntOK = cntOK && cntV.Sign() > 0 && ratIsInt(cntV)
	}
	validSharing := (c.Fraction != nil || c.Memory != nil) &&
		(c.Fraction == nil || fracOK) && (c.Memory == nil || memOK) && (c.Count == nil || cntOK)

	// clause 2: whatever the scheduler would treat as a sharing request must be rejected by admission
	// when it is malformed or sharing is off
	if f.sharingReq && f.accepted {
		if !c.Sharing {
			return "accepted-while-sharing-disabled", fmt.Sprintf("admission accepts a pod the scheduler treats as %s request while GPU sharing is disabled", s.ResourceRequestType), f
		}
		if !validSharing {
			return "accepted-malformed-sharing-request", fmt.Sprintf(
				"admission accepts fraction=%s memory=%s count=%s, which do not denote a finite positive request, and the scheduler treats the pod as a %s request (portion %v, memory %v, devices %v)",
				show(c.Fraction), show(c.Memory), show(c.Count), s.ResourceRequestType, req.GpuFractionalPortion(), req.GpuMemory(), req.GetNumOfGpuDevices()), f
		}
	}

	// clause 1: accepted => finite, positive, exactly what the strings say; binder agrees
	if f.accepted {
		if v.binderErr != nil {
			return "binder-rejects-admitted", fmt.Sprintf("admission accepts but the binder's validation rejects: %v", v.binderErr), f
		}
		g := req.GPUs()
		if math.IsNaN(g) || math.IsInf(g, 0) || g < 0 || math.IsNaN(req.GpuFractionalPortion()) || req.GpuMemory() < 0 || req.GetNumOfGpuDevices() < 0 {
			return "admitted-nonfinite-request", fmt.Sprintf(
				"admitted pod (fraction=%s memory=%s count=%s) is seen by the scheduler as GPUs=%v portion=%v memory=%v devices=%v",
				show(c.Fraction), show(c.Memory), show(c.Count), g, req.GpuFractionalPortion(), req.GpuMemory(), req.GetNumOfGpuDevices()), f
		}
		if c.Fraction != nil || c.Memory != nil {
			if !validSharing {
				return "admitted-invalid-strings", fmt.Sprintf(
					"admission accepts fraction=%s memory=%s count=%s although they do not denote a finite positive request (scheduler: type %s)",
					show(c.Fraction), show(c.Memory), show(c.Count), s.ResourceRequestType), f
			}
			wantCount := int64(1)
			if c.Count != nil {
				if !cntV.Num().IsInt64() {
					return "admitted-count-unrepresentable", fmt.Sprintf("admission accepts device count %s which the scheduler cannot represent (it sees %d devices)", *c.Count, req.GetNumOfGpuDevices()), f
				}
				wantCount = cntV.Num().Int64()
			}
			if c.Fraction != nil {
				want, _ := fracV.Float64()
				if s.ResourceRequestType != pod_info.RequestTypeFraction || req.GpuFractionalPortion() != want {
					return "fraction-mismatch", fmt.Sprintf("admitted gpu-fraction %q denotes %v but the scheduler sees type %s portion %v", *c.Fraction, want, s.ResourceRequestType, req.GpuFractionalPortion()), f
				}
			}
			if c.Memory != nil {
				if !memV.Num().IsInt64() || s.ResourceRequestType != pod_info.RequestTypeGpuMemory || req.GpuMemory() != memV.Num().Int64() {
					return "memory-mismatch", fmt.Sprintf("admitted gpu-memory %q denotes %s MiB but the scheduler sees type %s memory %d", *c.Memory, memV.Num().String(), s.ResourceRequestType, req.GpuMemory()), f
				}
			}
			if req.GetNumOfGpuDevices() != wantCount {
				return "count-mismatch", fmt.Sprintf("admitted device count %s denotes %d but the scheduler sees %d devices", show(c.Count), wantCount, req.GetNumOfGpuDevices()), f
			}
			// the request is exactly the annotations: whole GPUs asked by any container or init container would be
			// handed out by the device plugin but are not part of what the scheduler accounts for a sharing pod
			sumWhole, maxInitWhole := 0, 0
			for _, x := range c.Containers {
				sumWhole += x.GPUs
			}
			for _, x := range c.Inits {
				if x.GPUs > maxInitWhole {
					maxInitWhole = x.GPUs
				}
			}
			if sumWhole > 0 || maxInitWhole > 0 {
				return "admitted-sharing-plus-whole-gpu", fmt.Sprintf(
					"admission accepts a sharing request (fraction=%s memory=%s) on a pod whose containers also ask for whole GPUs (containers %d, largest init container %d); the scheduler accounts only GPUs=%v",
					show(c.Fraction), show(c.Memory), sumWhole, maxInitWhole, g), f
			}
		} else {
			// whole GPUs: Kubernetes' definition max(sum containers, each init container)
			sum, maxInit := 0, 0
			for _, x := range c.Containers {
				sum += x.GPUs
			}
			for _, x := range c.Inits {
				if x.GPUs > maxInit {
					maxInit = x.GPUs
				}
			}
			want := sum
			if maxInit > want {
				want = maxInit
			}
			if g != float64(want) || f.sharingReq {
				return "whole-gpu-mismatch", fmt.Sprintf("pod requests %d whole GPUs but the scheduler sees %v (type %s)", want, g, s.ResourceRequestType), f
			}
		}
	}

	// clauses 3, 4: mutation is idempotent, does not change the verdicts, and wires the names the binder fills
	if mutateErr == nil {
		m2 := p.DeepCopy()
		if err2, pm2 := safeMutate(c, m2); err2 != nil || pm2 != "" {
			return "mutate-second-fails", fmt.Sprintf("second mutation fails: %v %s", err2, pm2), f
		}
		if !reflect.DeepEqual(p, m2) {
			return "mutate-not-idempotent", fmt.Sprintf("Mutate(Mutate(p)) != Mutate(p): %s vs %s", brief(p), brief(m2)), f
		}
		v0, pm0 := evaluate(c, orig)
		if pm0 != "" {
			return "panic-before-mutate", pm0, f
		}
		if (v0.admitErr == nil) != (v.admitErr == nil) {
			return "mutate-changes-admission", fmt.Sprintf("validation verdict changes with mutation: %v -> %v", v0.admitErr, v.admitErr), f
		}
		r0 := v0.task.ResReq
		if v0.task.ResourceRequestType != s.ResourceRequestType || !(r0.GPUs() == req.GPUs() || (math.IsNaN(r0.GPUs()) && math.IsNaN(req.GPUs()))) ||
			r0.GpuMemory() != req.GpuMemory() || r0.GetNumOfGpuDevices() != req.GetNumOfGpuDevices() || r0.Cpu() != req.Cpu() {
			return "mutate-changes-scheduler-view", "scheduler's request differs after mutation", f
		}
		if f.accepted && (c.Fraction != nil || c.Memory != nil) {
			if sig, msg := wiring(p); sig != "" {
				return sig, msg, f
			}
		}
	}
	return "", "", f
}

// wiring checks that the ConfigMap the binder will fill is the one the mutated container reads.
func wiring(m *v1.Pod) (string, string) {
	ref, err := bindercommon.GetFractionContainerRef(m)
	if err != nil {
		return "binder-container-ref", fmt.Sprintf("binder cannot resolve the fraction container of an admitted pod: %v", err)
	}
	name, err := gpusharingconfigmap.ExtractCapabilitiesConfigMapName(m, ref)
	if err != nil {
		return "binder-configmap-name", fmt.Sprintf("binder cannot derive the ConfigMap name of an admitted, mutated pod: %v", err)
	}
	evar, _ := gpusharingconfigmap.ExtractDirectEnvVarsConfigMapName(m, ref)
	seen := map[string]string{}
	for _, e := range ref.Container.Env {
		if e.ValueFrom != nil && e.ValueFrom.ConfigMapKeyRef != nil {
			seen[e.Name] = e.ValueFrom.ConfigMapKeyRef.Name
		}
	}
	for _, k := range []string{constants.NvidiaVisibleDevices, bindercommon.GPUPortion} {
		if seen[k] != name {
			return "wiring-env-mismatch", fmt.Sprintf("container reads %s from ConfigMap %q but the binder fills %q", k, seen[k], name)
		}
	}
	okFrom := false
	for _, ef := range ref.Container.EnvFrom {
		if ef.ConfigMapRef != nil && ef.ConfigMapRef.Name == evar {
			okFrom = true
		}
	}
	if !okFrom {
		return "wiring-envfrom-missing", fmt.Sprintf("container lacks envFrom of %q", evar)
	}
	vol := false
	for _, vv := range m.Spec.Volumes {
		if vv.ConfigMap != nil && vv.ConfigMap.Name == name {
			vol = true
			if len(vv.Name) > 63 {
				return "wiring-volume-name-too-long", vv.Name
			}
		}
	}
	if !vol {
		return "wiring-volume-missing", fmt.Sprintf("no volume for ConfigMap %q", name)
	}
	return "", ""
}

func show(s *string) string {
	if s == nil {
		return "<absent>"
	}
	return fmt.Sprintf("%q", *s)
}

func brief(p *v1.Pod) string {
	b, _ := json.Marshal(map[string]any{"ann": p.Annotations, "containers": p.Spec.Containers, "inits": p.Spec.InitContainers, "volumes": p.Spec.Volumes})
	if len(b) > 1500 {
		b = b[:1500]
	}
	return string(b)
}

func record(c *Case, f facts) {
	classes := []string{}
	add := func(b bool, s string) {
		if b {
			classes = append(classes, s)
		}
	}
	add(f.accepted, "admitted")
	add(!f.accepted, "rejected")
	add(f.sharingReq, "scheduler-sees-sharing-request")
	add(f.nonPlain, "non-plain-literal")
	add(f.multiAnn, ">=2-annotations")
	add(c.Fraction != nil, "has-fraction")
	add(c.Memory != nil, "has-memory")
	add(c.Count != nil, "has-count")
	add(!c.Sharing, "sharing-disabled")
	add(c.ContainerNm != nil, "named-container")
	add(f.accepted && f.sharingReq, "admitted-sharing")
	nt := f.nonPlain || f.multiAnn
	kit.Eval(kit.HexKey(c), nt, classes...)
	if nt && f.accepted && kit.WantSample() {
		kit.Sample(c)
	}
}

func TestCheckAgreement(t *testing.T) {
	kit.Run(t, kit.Budget{Quick: 240000, Thorough: 4000000}, func(t *rapid.T) {
		c := genCase(t)
		sig, msg, f := judge(c)
		record(c, f)
		if sig != "" {
			path := kit.Violation(prop, sig, msg, c, nil)
			t.Fatalf("VIOLATION %s: %s (%s)", sig, msg, path)
		}
	})
}

// FuzzAgreement drives the same oracle with coverage-guided native fuzzing (thorough tier): the three annotation
// strings are fuzzed byte-wise, the pod shape comes from a few flag bits. Seeds: the literal table of the
// generator. A failing input is saved as an ordinary replay file (the case, not the fuzz corpus entry).
func FuzzAgreement(f *testing.F) {
	for i, l := range numberLits {
		f.Add(l, numberLits[(i*7+3)%len(numberLits)], numberLits[(i*13+5)%len(numberLits)], uint16(i*37))
	}
	f.Fuzz(func(t *testing.T, frac, mem, cnt string, flags uint16) {
		c := &Case{Sharing: flags&1 == 0, Owner: flags&2 != 0}
		if flags&4 != 0 {
			c.Fraction = &frac
		}
		if flags&8 != 0 {
			c.Memory = &mem
		}
		if flags&16 != 0 {
			c.Count = &cnt
		}
		c.Containers = []Container{{Name: "c0", CPU: 100}}
		if flags&32 != 0 {
			c.Containers[0].GPUs = int(flags>>12)%4 + 1
		}
		if flags&64 != 0 {
			c.Containers = append(c.Containers, Container{Name: "c1", CPU: 100})
		}
		if flags&128 != 0 {
			ic := Container{Name: "i0", CPU: 100}
			if flags&256 != 0 {
				ic.GPUs = 1
			}
			c.Inits = []Container{ic}
		}
		if flags&512 != 0 {
			n := []string{"c0", "c1", "i0", "nope", ""}[int(flags>>10)%5]
			c.ContainerNm = &n
		}
		sig, msg, _ := judge(c)
		if sig != "" && !kit.Known(prop, sig) {
			path := kit.Violation(prop, sig, msg, c, nil)
			t.Fatalf("VIOLATION %s: %s (%s)", sig, msg, path)
		}
	})
}

func TestReplay(t *testing.T) {
	kit.ReplayMain(t, func(rf *kit.ReplayFile) kit.ReplayResult {
		var c Case
		if err := json.Unmarshal(rf.Case, &c); err != nil {
			t.Fatalf("bad case: %v", err)
		}
		sig, msg, _ := judge(&c)
		return kit.ReplayResult{Violated: sig != "", Signature: sig, Message: msg, Runs: 1, Bad: b2i(sig != "")}
	})
}

func b2i(b bool) int {
	if b {
		return 1
	}
	return 0
}
