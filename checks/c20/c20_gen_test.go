package controllers

import (
	"fmt"

	"pgregory.net/rapid"
)

// fair draws (rapid's integer generators are biased towards small values)
type c20G struct {
	t *rapid.T
	c *c20Case
	m *c20Model // generator-side view of the current objects
	n int       // name counter
}

func (g *c20G) u(n int, label string) int {
	if n <= 1 {
		return 0
	}
	v := 0
	for _, b := range rapid.SliceOfN(rapid.Bool(), 8, 8).Draw(g.t, label) {
		v <<= 1
		if b {
			v |= 1
		}
	}
	return v * n / 256
}
func (g *c20G) chance(tenths int, label string) bool {
	if tenths <= 0 {
		return false
	}
	if tenths >= 10 {
		return true
	}
	return g.u(10, label) >= 10-tenths
}
func (g *c20G) between(lo, hi int, label string) int { return lo + g.u(hi-lo+1, label) }
func (g *c20G) pick(label string, vals ...string) string {
	return vals[g.u(len(vals), label)]
}
func (g *c20G) pickI(label string, vals ...int64) int64 { return vals[g.u(len(vals), label)] }

func (g *c20G) pgName() string {
	names := c20Keys(g.m.pgs)
	switch {
	case len(names) == 0 || g.chance(1, "podNoGroup"):
		return g.pick("podOddGroup", "", "pg-missing")
	}
	return names[g.u(len(names), "podGroup")]
}

// placement draws phase, scheduled condition and node consistently.
func (g *c20G) placement(p *c20Pod) {
	switch x := g.u(20, "podPhase"); {
	case x < 5: // waiting for the scheduler
		p.Phase, p.Scheduled, p.Node = "Pending", g.pick("unschedCond", "", "False"), ""
	case x < 8: // bound, not started yet
		p.Phase, p.Scheduled = "Pending", "True"
	case x < 15:
		p.Phase, p.Scheduled = "Running", "True"
	case x < 17:
		p.Phase, p.Scheduled = "Succeeded", "True"
	case x < 19:
		p.Phase, p.Scheduled = "Failed", "True"
	default:
		p.Phase, p.Scheduled = "Unknown", "True"
	}
	if p.Scheduled == "True" && p.Node == "" {
		if p.GPUMemory > 0 {
			p.Node = g.pick("gpuMemNode", "n1", "n2") // nodes that advertise nvidia.com/gpu.memory
		} else {
			p.Node = g.pick("node", "n1", "n2", "n3")
		}
	}
	sharing := p.Fraction != "" || p.GPUMemory > 0
	p.Received = sharing && p.Node != "" // the binder stamps received-resource-type when it binds a sharing pod
}

func (g *c20G) newPod() *c20Pod {
	g.n++
	p := &c20Pod{Name: fmt.Sprintf("p%d", g.n), Group: g.pgName()}
	nc := g.between(1, 2, "containers")
	kind := g.u(20, "podKind") // 0-9 plain, 10-14 fraction, 15-17 gpu-memory, 18-19 whole gpu heavy
	for i := 0; i < nc; i++ {
		ct := c20Container{CPUm: g.pickI("cpu", 0, 100, 250, 1000, 1500), MemMi: g.pickI("mem", 0, 128, 1024)}
		if kind < 10 && g.chance(4, "wholeGpu") || kind >= 18 {
			ct.GPUs = g.pickI("gpus", 1, 1, 2, 4)
		}
		p.Containers = append(p.Containers, ct)
	}
	if kind >= 10 && kind < 15 {
		p.Fraction = g.pick("fraction", "0.5", "0.25", "0.75", "0.1", "0.333", "0.05", "0.9")
		if g.chance(1, "exoticLiteral") {
			// other spellings the admission webhook accepts (strconv.ParseFloat)
			switch g.u(4, "exoticLiteralV") {
			case 0:
				p.Fraction, p.FracValue = "5e-1", "0.5"
			case 1:
				p.Fraction, p.FracValue = ".25", "0.25"
			case 2:
				p.Fraction, p.FracValue = "0.50", "0.5"
			default:
				p.Fraction, p.FracValue = "0x1p-1", "0.5" // hex float: admitted by strconv.ParseFloat
			}
		}
	} else if kind >= 15 && kind < 18 {
		p.GPUMemory = g.pickI("gpuMemory", 1024, 2000, 4096, 8192, 5000)
	}
	if p.Fraction != "" || p.GPUMemory > 0 {
		switch x := g.u(10, "devices"); {
		case x < 5:
		case x < 6:
			p.Devices = 1
		default:
			p.Devices = int64(g.between(2, 3, "devicesN"))
		}
	}
	if g.chance(2, "dra") {
		for i, n := 0, g.between(1, 2, "claims"); i < n; i++ {
			cl := c20Claim{Name: fmt.Sprintf("claim%d", i), Class: g.pick("claimClass", "gpu.nvidia.com", "gpu.nvidia.com", "mig.gpu.example.com", "nic.example.com"),
				Mode: g.pick("claimMode", "ExactCount", "ExactCount", "ExactCount", "All"), Template: g.chance(5, "claimTemplate")}
			if cl.Mode == "ExactCount" {
				cl.Count = g.pickI("claimCount", 0, 1, 1, 2, 4)
			}
			p.Claims = append(p.Claims, cl)
		}
	}
	g.placement(p)
	return p
}

func (g *c20G) newPG() *c20PG {
	g.n++
	pg := &c20PG{Name: fmt.Sprintf("pg%d", g.n), MinMember: 1}
	pg.Queue = g.someQueue()
	pg.PrioClass = g.pick("pgPrio", "train", "train", "build", "inference", "", "missing-class")
	if g.chance(4, "pgExplicit") {
		pg.Preempt = g.pick("pgPreempt", "preemptible", "non-preemptible")
	}
	return pg
}

func (g *c20G) someQueue() string {
	qs := c20Keys(g.m.queues)
	if len(qs) == 0 || g.chance(1, "oddQueue") && g.chance(5, "oddQueue2") {
		return g.pick("oddQueueV", "", "q-missing")
	}
	// prefer leaves
	var leaves []string
	for _, q := range qs {
		leaf := true
		for _, o := range g.m.queues {
			if o.Parent == q {
				leaf = false
			}
		}
		if leaf {
			leaves = append(leaves, q)
		}
	}
	if len(leaves) > 0 && g.chance(7, "leafQueue") {
		return leaves[g.u(len(leaves), "leafQueueV")]
	}
	return qs[g.u(len(qs), "anyQueueV")]
}

func (g *c20G) inSubtree(root, x string) bool {
	for d := 0; x != "" && d < 10; d++ {
		if x == root {
			return true
		}
		q := g.m.queues[x]
		if q == nil {
			return false
		}
		x = q.Parent
	}
	return false
}

func (g *c20G) event() *c20Event {
	pods, pgs, qs := c20Keys(g.m.pods), c20Keys(g.m.pgs), c20Keys(g.m.queues)
	for try := 0; try < 8; try++ {
		switch x := g.u(20, "eventKind"); {
		case x < 5 && len(pods) > 0: // phase / placement change
			p := *g.m.pods[pods[g.u(len(pods), "evPod")]]
			p.Containers = append([]c20Container(nil), p.Containers...)
			p.Claims = append([]c20Claim(nil), p.Claims...)
			g.placement(&p)
			return &c20Event{Kind: "setPod", Pod: &p}
		case x < 7:
			if len(pods) < 10 {
				return &c20Event{Kind: "setPod", Pod: g.newPod()}
			}
		case x < 8 && len(pods) > 0:
			return &c20Event{Kind: "delPod", Name: pods[g.u(len(pods), "evDelPod")]}
		case x < 9 && len(pods) > 0: // pod moved to another group
			p := *g.m.pods[pods[g.u(len(pods), "evMovePod")]]
			p.Group = g.pgName()
			return &c20Event{Kind: "setPod", Pod: &p}
		case x < 13 && len(pgs) > 0: // preemptibility flip (explicit or through the priority class)
			pg := *g.m.pgs[pgs[g.u(len(pgs), "evFlipPG")]]
			was := g.m.preemptible(&pg)
			switch g.u(3, "flipHow") {
			case 0:
				if was {
					pg.Preempt = "non-preemptible"
				} else {
					pg.Preempt = "preemptible"
				}
			case 1:
				pg.Preempt = ""
				if was {
					pg.PrioClass = g.pick("flipClassUp", "build", "inference")
				} else {
					pg.PrioClass = g.pick("flipClassDown", "train", "")
				}
			default:
				pg.Preempt = g.pick("flipAny", "", "preemptible", "non-preemptible")
				pg.PrioClass = g.pick("flipAnyClass", "train", "build", "inference", "", "missing-class")
			}
			return &c20Event{Kind: "setPG", PG: &pg}
		case x < 14 && len(pgs) > 0: // PodGroup moves to another queue
			pg := *g.m.pgs[pgs[g.u(len(pgs), "evQueuePG")]]
			pg.Queue = g.someQueue()
			return &c20Event{Kind: "setPG", PG: &pg}
		case x < 15:
			if len(pgs) < 6 {
				pg := g.newPG()
				if _, exists := g.m.pgs["pg-missing"]; !exists && g.chance(3, "adoptingPG") {
					pg.Name = "pg-missing" // pods that already point to this name are adopted by the late PodGroup
				}
				return &c20Event{Kind: "setPG", PG: pg}
			}
		case x < 16 && len(pgs) > 0:
			return &c20Event{Kind: "delPG", Name: pgs[g.u(len(pgs), "evDelPG")]}
		case x < 18 && len(qs) > 1: // re-parenting (acyclic)
			q := *g.m.queues[qs[g.u(len(qs), "evReparent")]]
			var cands []string
			for _, o := range qs {
				if o != q.Parent && !g.inSubtree(q.Name, o) {
					cands = append(cands, o)
				}
			}
			if q.Parent != "" {
				cands = append(cands, "")
			}
			if len(cands) == 0 {
				continue
			}
			q.Parent = cands[g.u(len(cands), "evReparentTo")]
			return &c20Event{Kind: "setQueue", Queue: &q}
		case x < 19:
			if len(qs) < 8 {
				g.n++
				q := &c20Queue{Name: fmt.Sprintf("q%d", g.n)}
				if len(qs) > 0 && g.chance(8, "newQueueChild") {
					q.Parent = qs[g.u(len(qs), "newQueueParent")]
				}
				return &c20Event{Kind: "setQueue", Queue: q}
			}
		default:
			// delete a leaf queue
			var leaves []string
			for _, q := range qs {
				leaf := true
				for _, o := range g.m.queues {
					if o.Parent == q {
						leaf = false
					}
				}
				if leaf {
					leaves = append(leaves, q)
				}
			}
			if len(leaves) > 0 && len(qs) > 1 {
				return &c20Event{Kind: "delQueue", Name: leaves[g.u(len(leaves), "evDelQueue")]}
			}
		}
	}
	return &c20Event{Kind: "setPod", Pod: g.newPod()}
}

func c20GenCase(t *rapid.T) *c20Case {
	c := &c20Case{}
	g := &c20G{t: t, c: c}
	for _, p := range []c20Prio{{Name: "train", Value: 50}, {Name: "build", Value: 100}, {Name: "inference", Value: 125}} {
		if g.chance(8, "prioExists") {
			c.Prios = append(c.Prios, p)
		}
	}
	if g.chance(3, "globalDefault") {
		c.Prios = append(c.Prios, c20Prio{Name: "cluster-default", Value: int32(g.pickI("globalDefaultV", 30, 150)), Default: true})
	}
	c.Nodes = []c20Node{{Name: "n1", GPUMemory: 16384}, {Name: "n2", GPUMemory: 40960}, {Name: "n3"}}
	// queue tree, 1-3 levels
	g.m = c20NewModel(c)
	add := func(parent string) string {
		g.n++
		q := c20Queue{Name: fmt.Sprintf("q%d", g.n), Parent: parent}
		c.Queues = append(c.Queues, q)
		return q.Name
	}
	for i, nTop := 0, g.between(1, 2, "topQueues"); i < nTop; i++ {
		top := add("")
		for j, nMid := 0, g.between(0, 2, "midQueues"); j < nMid; j++ {
			mid := add(top)
			for k, nLeaf := 0, g.between(0, 2, "leafQueues"); k < nLeaf && len(c.Queues) < 7; k++ {
				add(mid)
			}
		}
	}
	g.m = c20NewModel(c)
	for i, n := 0, g.between(1, 4, "podGroups"); i < n; i++ {
		c.PGs = append(c.PGs, *g.newPG())
		g.m = c20NewModel(c)
	}
	for i, n := 0, g.between(0, 6, "pods"); i < n; i++ {
		c.Pods = append(c.Pods, *g.newPod())
	}
	g.m = c20NewModel(c)
	for i, n := 0, g.between(3, 12, "events"); i < n; i++ {
		e := g.event()
		c.Events = append(c.Events, *e)
		g.m.apply(&c.Events[len(c.Events)-1])
	}
	for i := 0; i < 48; i++ {
		c.Tape = append(c.Tape, g.u(256, "tape"))
	}
	return c
}
