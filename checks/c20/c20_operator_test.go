// C20, operator part — "the operator's deployment of the components is likewise a fixpoint determined only by its
// configuration". The real ConfigReconciler (all operands, real DeployableOperands.Deploy, real collectables with their
// field indexes) runs over a controller-runtime fake client. For a generated pair of kai Config specs (A, B):
//
//	store 1: empty cluster, Config = B, reconcile to a fixpoint;
//	store 2: empty cluster, Config = A, reconcile to a fixpoint, Config := B, reconcile to a fixpoint.
//
// Oracle: (1) in every store the reconcile after the fixpoint performs zero create / update / patch / delete calls on
// deployed objects; (2) the deployed object set (kind, namespace, name, labels, spec — generated certificate material
// normalised) is the same in store 1 and store 2.
package controllers

import (
	"context"
	"encoding/json"
	"fmt"
	"sort"
	"strings"
	"testing"

	monitoringv1 "github.com/prometheus-operator/prometheus-operator/pkg/apis/monitoring/v1"
	admissionv1 "k8s.io/api/admissionregistration/v1"
	appsv1 "k8s.io/api/apps/v1"
	v1 "k8s.io/api/core/v1"
	apiextensionsv1 "k8s.io/apiextensions-apiserver/pkg/apis/apiextensions/v1"
	"k8s.io/apimachinery/pkg/api/meta"
	"k8s.io/apimachinery/pkg/api/resource"
	metav1 "k8s.io/apimachinery/pkg/apis/meta/v1"
	"k8s.io/apimachinery/pkg/runtime"
	"k8s.io/apimachinery/pkg/runtime/serializer"
	"k8s.io/apimachinery/pkg/types"
	clientgoscheme "k8s.io/client-go/kubernetes/scheme"
	clienttesting "k8s.io/client-go/testing"
	"k8s.io/utils/ptr"
	ctrl "sigs.k8s.io/controller-runtime"
	"sigs.k8s.io/controller-runtime/pkg/client"
	"sigs.k8s.io/controller-runtime/pkg/client/apiutil"
	"sigs.k8s.io/controller-runtime/pkg/client/fake"
	"sigs.k8s.io/controller-runtime/pkg/client/interceptor"

	nvidiav1 "github.com/NVIDIA/gpu-operator/api/nvidia/v1"
	"pgregory.net/rapid"

	kaiv1 "github.com/NVIDIA/KAI-scheduler/pkg/apis/kai/v1"
	kaiadmission "github.com/NVIDIA/KAI-scheduler/pkg/apis/kai/v1/admission"
	kaibinder "github.com/NVIDIA/KAI-scheduler/pkg/apis/kai/v1/binder"
	kaicommon "github.com/NVIDIA/KAI-scheduler/pkg/apis/kai/v1/common"
	kainsa "github.com/NVIDIA/KAI-scheduler/pkg/apis/kai/v1/node_scale_adjuster"
	kaipgc "github.com/NVIDIA/KAI-scheduler/pkg/apis/kai/v1/pod_group_controller"
	kaipodgrouper "github.com/NVIDIA/KAI-scheduler/pkg/apis/kai/v1/pod_grouper"
	kaiqc "github.com/NVIDIA/KAI-scheduler/pkg/apis/kai/v1/queue_controller"
	kaischeduler "github.com/NVIDIA/KAI-scheduler/pkg/apis/kai/v1/scheduler"
	opcontroller "github.com/NVIDIA/KAI-scheduler/pkg/operator/controller"
	"github.com/NVIDIA/KAI-scheduler/pkg/operator/operands"
	opadmission "github.com/NVIDIA/KAI-scheduler/pkg/operator/operands/admission"
	opbinder "github.com/NVIDIA/KAI-scheduler/pkg/operator/operands/binder"
	"github.com/NVIDIA/KAI-scheduler/pkg/operator/operands/known_types"
	opnsa "github.com/NVIDIA/KAI-scheduler/pkg/operator/operands/node_scale_adjuster"
	oppgc "github.com/NVIDIA/KAI-scheduler/pkg/operator/operands/pod_group_controller"
	oppodgrouper "github.com/NVIDIA/KAI-scheduler/pkg/operator/operands/pod_grouper"
	opprometheus "github.com/NVIDIA/KAI-scheduler/pkg/operator/operands/prometheus"
	opqc "github.com/NVIDIA/KAI-scheduler/pkg/operator/operands/queue_controller"
	opscheduler "github.com/NVIDIA/KAI-scheduler/pkg/operator/operands/scheduler"
	kit "github.com/NVIDIA/KAI-scheduler/zz_verif/verifkit"
)

type c20OpCase struct {
	Configs []kaiv1.ConfigSpec `json:"configs"` // [A, B]
	// QueueCRD: the queues.scheduling.run.ai CRD exists in the cluster (with a conversion stanza the operator strips)
	QueueCRD bool `json:"queueCRD,omitempty"`
}

type c20OpFacts struct {
	differ       bool
	objects      int
	disabled     int
	nsChange     bool
	reconcileErr bool
}

var c20OpScheme = func() *runtime.Scheme {
	s := runtime.NewScheme()
	for _, f := range []func(*runtime.Scheme) error{clientgoscheme.AddToScheme, apiextensionsv1.AddToScheme, kaiv1.AddToScheme,
		nvidiav1.AddToScheme, monitoringv1.AddToScheme} {
		if err := f(s); err != nil {
			panic(err)
		}
	}
	return s
}()

var c20OpDecoder = serializer.NewCodecFactory(c20OpScheme).UniversalDecoder()

type c20OpStore struct {
	cl     client.WithWatch
	base   client.WithWatch
	rec    *opcontroller.ConfigReconciler
	writes []string
	log    []string
}

func c20OpStamp(obj runtime.Object) {
	if _, ok := obj.(runtime.Unstructured); ok {
		return
	}
	if _, ok := obj.(*metav1.PartialObjectMetadata); ok {
		return
	}
	if gvk, err := apiutil.GVKForObject(obj, c20OpScheme); err == nil {
		obj.GetObjectKind().SetGroupVersionKind(gvk)
	}
}

func c20OpNewStore(c *c20OpCase) *c20OpStore {
	s := &c20OpStore{}
	b := fake.NewClientBuilder().WithScheme(c20OpScheme).
		WithObjectTracker(clienttesting.NewObjectTracker(c20OpScheme, c20OpDecoder)).
		WithStatusSubresource(&kaiv1.Config{})
	for _, col := range known_types.KAIConfigRegisteredCollectible {
		if col.InitWithFakeClientBuilder != nil {
			col.InitWithFakeClientBuilder(b) // the field indexes the collectables register with the manager
		}
	}
	s.base = b.Build()
	if c.QueueCRD {
		crd := &apiextensionsv1.CustomResourceDefinition{
			TypeMeta:   metav1.TypeMeta{Kind: "CustomResourceDefinition", APIVersion: "apiextensions.k8s.io/v1"},
			ObjectMeta: metav1.ObjectMeta{Name: "queues.scheduling.run.ai"},
			Spec: apiextensionsv1.CustomResourceDefinitionSpec{Group: "scheduling.run.ai", Scope: apiextensionsv1.ClusterScoped,
				Names:      apiextensionsv1.CustomResourceDefinitionNames{Plural: "queues", Kind: "Queue"},
				Conversion: &apiextensionsv1.CustomResourceConversion{Strategy: apiextensionsv1.NoneConverter}},
		}
		_ = s.base.Create(context.Background(), crd)
	}
	note := func(verb string, obj client.Object) {
		if _, isConfig := obj.(*kaiv1.Config); isConfig {
			return // the Config's own status conditions are not part of the deployment
		}
		s.writes = append(s.writes, fmt.Sprintf("%s %T %s/%s", verb, obj, obj.GetNamespace(), obj.GetName()))
	}
	s.cl = interceptor.NewClient(s.base, interceptor.Funcs{
		Get: func(ctx context.Context, cl client.WithWatch, key client.ObjectKey, obj client.Object, opts ...client.GetOption) error {
			err := cl.Get(ctx, key, obj, opts...)
			if err == nil {
				c20OpStamp(obj) // the manager's cache reader stamps the GVK on typed objects
			}
			return err
		},
		List: func(ctx context.Context, cl client.WithWatch, list client.ObjectList, opts ...client.ListOption) error {
			err := cl.List(ctx, list, opts...)
			if err == nil {
				_ = meta.EachListItem(list, func(o runtime.Object) error { c20OpStamp(o); return nil })
			}
			return err
		},
		Create: func(ctx context.Context, cl client.WithWatch, obj client.Object, opts ...client.CreateOption) error {
			note("create", obj)
			return cl.Create(ctx, obj, opts...)
		},
		Update: func(ctx context.Context, cl client.WithWatch, obj client.Object, opts ...client.UpdateOption) error {
			if _, isConfig := obj.(*kaiv1.Config); !isConfig {
				// for the trace: what the operator believes to be different
				cur := obj.DeepCopyObject().(client.Object)
				if err := cl.Get(ctx, client.ObjectKeyFromObject(obj), cur); err == nil {
					c20OpStamp(cur)
					a, _ := json.Marshal(cur)
					b, _ := json.Marshal(obj)
					if string(a) == string(b) {
						s.log = append(s.log, fmt.Sprintf("  update %T %s: stored and written object serialise identically", obj, obj.GetName()))
					} else {
						s.log = append(s.log, fmt.Sprintf("  update %T %s: stored %s  written %s", obj, obj.GetName(), c20Diff(string(a), string(b)), c20Diff(string(b), string(a))))
					}
				}
			}
			note("update", obj)
			return cl.Update(ctx, obj, opts...)
		},
		Patch: func(ctx context.Context, cl client.WithWatch, obj client.Object, patch client.Patch, opts ...client.PatchOption) error {
			note("patch", obj)
			return cl.Patch(ctx, obj, patch, opts...)
		},
		Delete: func(ctx context.Context, cl client.WithWatch, obj client.Object, opts ...client.DeleteOption) error {
			note("delete", obj)
			return cl.Delete(ctx, obj, opts...)
		},
		DeleteAllOf: func(ctx context.Context, cl client.WithWatch, obj client.Object, opts ...client.DeleteAllOfOption) error {
			note("deleteAllOf", obj)
			return cl.DeleteAllOf(ctx, obj, opts...)
		},
	})
	ops := []operands.Operand{&oppodgrouper.PodGrouper{}, &opbinder.Binder{}, &opqc.QueueController{}, &oppgc.PodGroupController{},
		&opnsa.NodeScaleAdjuster{}, &opadmission.Admission{}, &opprometheus.Prometheus{}, &opscheduler.SchedulerForConfig{}}
	s.rec = opcontroller.VerifNewConfigReconciler(s.cl, c20OpScheme, ops)
	return s
}

func (s *c20OpStore) setConfig(spec *kaiv1.ConfigSpec) error {
	ctx := context.Background()
	cur := &kaiv1.Config{}
	err := s.base.Get(ctx, types.NamespacedName{Name: known_types.SingletonInstanceName}, cur)
	if err != nil {
		cfg := &kaiv1.Config{TypeMeta: metav1.TypeMeta{Kind: "Config", APIVersion: kaiv1.GroupVersion.String()},
			ObjectMeta: metav1.ObjectMeta{Name: known_types.SingletonInstanceName, UID: "uid-kai-config", Generation: 1}, Spec: *spec.DeepCopy()}
		return s.base.Create(ctx, cfg)
	}
	cur.Spec = *spec.DeepCopy()
	cur.Generation++
	return s.base.Update(ctx, cur)
}

// reconcile runs one Reconcile of the Config and returns the mutating calls on deployed objects.
func (s *c20OpStore) reconcile() (writes []string, err error, panicMsg string) {
	w0 := len(s.writes)
	func() {
		defer func() {
			if x := recover(); x != nil {
				panicMsg = fmt.Sprint(x)
			}
		}()
		_, err = s.rec.Reconcile(context.Background(), ctrl.Request{NamespacedName: types.NamespacedName{Name: known_types.SingletonInstanceName}})
	}()
	writes = append([]string(nil), s.writes[w0:]...)
	s.log = append(s.log, fmt.Sprintf("reconcile: %d writes %v err=%v", len(writes), c20Head(writes, 12), err))
	return
}

func c20Head(s []string, n int) []string {
	if len(s) > n {
		return append(append([]string(nil), s[:n]...), "...")
	}
	return s
}

// settle reconciles until a reconcile writes nothing (at most 4 times) and then once more: that one must write nothing.
func (s *c20OpStore) settle(what string) (sig, msg string, hadErr bool) {
	for i := 0; i < 4; i++ {
		w, err, pm := s.reconcile()
		if pm != "" {
			return "operator-panic", what + ": Reconcile panicked: " + pm, false
		}
		if err != nil {
			return "", "", true
		}
		if len(w) == 0 {
			break
		}
	}
	w, err, pm := s.reconcile()
	if pm != "" {
		return "operator-panic", what + ": Reconcile panicked: " + pm, false
	}
	if err != nil {
		return "", "", true
	}
	if len(w) > 0 {
		return "operator-not-a-fixpoint", fmt.Sprintf("%s: reconciling the unchanged Config again still issues %d mutating call(s) on deployed objects (after up to 5 reconciles): %v", what, len(w), c20Head(w, 8)), false
	}
	return "", "", false
}

// dump lists every kind the operator manages, normalised.
func (s *c20OpStore) dump() map[string]string {
	out := map[string]string{}
	ctx := context.Background()
	lists := []client.ObjectList{&appsv1.DeploymentList{}, &appsv1.DaemonSetList{}, &v1.ServiceAccountList{}, &v1.ConfigMapList{}, &v1.ServiceList{},
		&v1.SecretList{}, &admissionv1.MutatingWebhookConfigurationList{}, &admissionv1.ValidatingWebhookConfigurationList{},
		&monitoringv1.PrometheusList{}, &monitoringv1.ServiceMonitorList{}}
	// (the queues CRD is pre-existing cluster state that the operator only edits in place — conversion stanza — and never
	// owns; it is not part of the deployed object set)
	for _, l := range lists {
		if err := s.base.List(ctx, l); err != nil {
			out["ERR "+fmt.Sprintf("%T", l)] = err.Error()
			continue
		}
		_ = meta.EachListItem(l, func(o runtime.Object) error {
			obj := o.(client.Object)
			key := fmt.Sprintf("%T %s/%s", obj, obj.GetNamespace(), obj.GetName())
			out[key] = c20OpNormalise(obj)
			return nil
		})
	}
	return out
}

func c20OpNormalise(obj client.Object) string {
	o := obj.DeepCopyObject().(client.Object)
	o.SetResourceVersion("")
	o.SetManagedFields(nil)
	o.SetCreationTimestamp(metav1.Time{})
	o.SetGeneration(0)
	o.SetUID("")
	switch t := o.(type) {
	case *v1.Secret:
		// generated certificate material: only the key set is determined by the configuration
		for k := range t.Data {
			t.Data[k] = []byte("<generated>")
		}
	case *admissionv1.ValidatingWebhookConfiguration:
		for i := range t.Webhooks {
			if len(t.Webhooks[i].ClientConfig.CABundle) > 0 {
				t.Webhooks[i].ClientConfig.CABundle = []byte("<ca>")
			}
		}
	case *admissionv1.MutatingWebhookConfiguration:
		for i := range t.Webhooks {
			if len(t.Webhooks[i].ClientConfig.CABundle) > 0 {
				t.Webhooks[i].ClientConfig.CABundle = []byte("<ca>")
			}
		}
	}
	b, _ := json.Marshal(o)
	return string(b)
}

func c20OpJudge(c *c20OpCase) (sig, msg string, f c20OpFacts, trace []string) {
	if len(c.Configs) != 2 {
		return "harness-error", "need two configs", f, nil
	}
	a, b := &c.Configs[0], &c.Configs[1]
	ja, _ := json.Marshal(a)
	jb, _ := json.Marshal(b)
	f.differ = string(ja) != string(jb)
	f.nsChange = a.Namespace != b.Namespace

	// store 1: B from an empty cluster
	s1 := c20OpNewStore(c)
	fail := func(sg, m string) (string, string, c20OpFacts, []string) {
		return sg, m, f, trace
	}
	if err := s1.setConfig(b); err != nil {
		return fail("harness-error", err.Error())
	}
	sg, m, hadErr := s1.settle("config B deployed into an empty cluster")
	trace = append(trace, "store 1 (B from empty):")
	trace = append(trace, s1.log...)
	if sg != "" {
		return fail(sg, m)
	}
	if hadErr {
		f.reconcileErr = true
		return fail("", "")
	}
	d1 := s1.dump()
	f.objects = len(d1)

	// store 2: A, then B
	s2 := c20OpNewStore(c)
	if err := s2.setConfig(a); err != nil {
		return fail("harness-error", err.Error())
	}
	sg, m, hadErr = s2.settle("config A deployed into an empty cluster")
	if sg == "" && !hadErr {
		if err := s2.setConfig(b); err != nil {
			return fail("harness-error", err.Error())
		}
		s2.log = append(s2.log, "-- Config changed from A to B --")
		sg, m, hadErr = s2.settle("config B deployed over the objects left by config A")
	}
	trace = append(trace, "store 2 (A, then B):")
	trace = append(trace, s2.log...)
	if sg != "" {
		return fail(sg, m)
	}
	if hadErr {
		f.reconcileErr = true
		return fail("", "")
	}
	d2 := s2.dump()
	keys := map[string]bool{}
	for k := range d1 {
		keys[k] = true
	}
	for k := range d2 {
		keys[k] = true
	}
	ks := make([]string, 0, len(keys))
	for k := range keys {
		ks = append(ks, k)
	}
	sort.Strings(ks)
	for _, k := range ks {
		x, ok1 := d1[k]
		y, ok2 := d2[k]
		switch {
		case !ok1:
			return fail("operator-leftover-object", fmt.Sprintf("deploying config B over the objects of config A leaves %s, which deploying B into an empty cluster does not create", k))
		case !ok2:
			return fail("operator-missing-object", fmt.Sprintf("deploying config B over the objects of config A lacks %s, which deploying B into an empty cluster creates", k))
		case x != y:
			return fail("operator-history-dependent-object", fmt.Sprintf("%s differs depending on the previous configuration: from empty %s  VS  after config A %s", k, c20Diff(x, y), c20Diff(y, x)))
		}
	}
	return fail("", "")
}

// c20Diff returns a window of a around the first difference with b.
func c20Diff(a, b string) string {
	i := 0
	for i < len(a) && i < len(b) && a[i] == b[i] {
		i++
	}
	lo := i - 120
	if lo < 0 {
		lo = 0
	}
	hi := i + 200
	if hi > len(a) {
		hi = len(a)
	}
	return "…" + a[lo:hi] + "…"
}

// ---------------------------------------------------------------------------------------------
// generator

type c20OpG struct {
	c20G
	// additionalImagePullSecrets is drawn once per case: the operator deliberately keeps pull secrets it finds on existing
	// ServiceAccounts (union with the configured ones), so a change of this list between A and B is history dependent by design
	pullSecrets []string
}

func (g *c20OpG) optI32(label string, vals ...int32) *int32 {
	if g.chance(5, label+"Set") {
		return ptr.To(vals[g.u(len(vals), label)])
	}
	return nil
}
func (g *c20OpG) optInt(label string, vals ...int) *int {
	if g.chance(4, label+"Set") {
		return ptr.To(vals[g.u(len(vals), label)])
	}
	return nil
}
func (g *c20OpG) optS(label string, vals ...string) *string {
	if g.chance(4, label+"Set") {
		return ptr.To(vals[g.u(len(vals), label)])
	}
	return nil
}
func (g *c20OpG) optB(label string, pSet int) *bool {
	if g.chance(pSet, label+"Set") {
		return ptr.To(g.chance(5, label))
	}
	return nil
}

func (g *c20OpG) service(label string, pDisabled int) *kaicommon.Service {
	if g.chance(3, label+"SvcNil") {
		return nil
	}
	s := &kaicommon.Service{}
	if g.chance(pDisabled, label+"Disabled") {
		s.Enabled = ptr.To(false)
	} else if g.chance(3, label+"EnabledExplicit") {
		s.Enabled = ptr.To(true)
	}
	if g.chance(4, label+"Image") {
		s.Image = &kaicommon.Image{Repository: g.optS(label+"Repo", "registry.local/kai", "ghcr.io/nvidia"), Tag: g.optS(label+"Tag", "v0.9.0", "v1.0.0"),
			Name: g.optS(label+"ImgName", "custom-image")}
		if g.chance(3, label+"PullPolicy") {
			s.Image.PullPolicy = ptr.To(v1.PullAlways)
		}
	}
	if g.chance(3, label+"Resources") {
		s.Resources = &kaicommon.Resources{Requests: v1.ResourceList{v1.ResourceCPU: resource.MustParse(g.pick(label+"CPU", "75m", "200m"))}}
		if g.chance(5, label+"Limits") {
			s.Resources.Limits = v1.ResourceList{v1.ResourceMemory: resource.MustParse(g.pick(label+"Mem", "300Mi", "1Gi"))}
		}
	}
	if g.chance(2, label+"ClientCfg") {
		s.K8sClientConfig = &kaicommon.K8sClientConfig{QPS: g.optInt(label+"QPS", 20, 100), Burst: g.optInt(label+"Burst", 50, 400)}
	}
	return s
}

func (g *c20OpG) selector(label string) map[string]string {
	switch g.u(6, label) {
	case 0, 1, 2:
		return nil
	case 3:
		return map[string]string{"team": "a"}
	case 4:
		return map[string]string{"env": "prod"}
	default:
		return map[string]string{"team": "a", "env": "prod"}
	}
}

func (g *c20OpG) config() kaiv1.ConfigSpec {
	var c kaiv1.ConfigSpec
	if g.chance(3, "ns") {
		c.Namespace = g.pick("nsV", "kai-alt", "kai-scheduler")
	}
	if g.chance(6, "global") || len(g.pullSecrets) > 0 {
		gl := &kaiv1.GlobalConfig{ReplicaCount: g.optI32("replicaCount", 1, 2, 3), Openshift: g.optB("openshift", 2),
			SchedulerName: g.optS("schedulerName", "kai-scheduler", "alt-scheduler"), QueueLabelKey: g.optS("queueLabelKey", "kai.scheduler/queue", "runai/queue"),
			NodePoolLabelKey: g.optS("nodePoolLabelKey", "kai.scheduler/node-pool", "pool"), RequireDefaultPodAntiAffinityTerm: g.optB("requireAntiAffinity", 2)}
		if g.chance(3, "nodeSelector") {
			gl.NodeSelector = map[string]string{"node-role": g.pick("nodeSelectorV", "system", "infra")}
		}
		if g.chance(2, "tolerations") {
			gl.Tolerations = []v1.Toleration{{Key: "dedicated", Operator: v1.TolerationOpEqual, Value: "kai", Effect: v1.TaintEffectNoSchedule}}
		}
		gl.ImagePullSecrets = g.pullSecrets
		if g.chance(2, "affinity") {
			gl.Affinity = &v1.Affinity{NodeAffinity: &v1.NodeAffinity{RequiredDuringSchedulingIgnoredDuringExecution: &v1.NodeSelector{NodeSelectorTerms: []v1.NodeSelectorTerm{
				{MatchExpressions: []v1.NodeSelectorRequirement{{Key: "zone", Operator: v1.NodeSelectorOpIn, Values: []string{"z1"}}}}}}}}
		}
		gl.NamespaceLabelSelector = g.selector("nsSelector")
		gl.PodLabelSelector = g.selector("podSelector")
		c.Global = gl
	}
	if g.chance(7, "podGrouper") {
		c.PodGrouper = &kaipodgrouper.PodGrouper{Service: g.service("podGrouper", 2), Replicas: g.optI32("pgReplicas", 1, 2), MaxConcurrentReconciles: g.optInt("pgMaxConc", 5, 20)}
		if g.chance(4, "pgArgs") {
			c.PodGrouper.Args = &kaipodgrouper.Args{GangScheduleKnative: g.optB("gangKnative", 6)}
			if g.chance(3, "pgDefaultsCM") {
				c.PodGrouper.Args.DefaultPrioritiesConfigMapName = ptr.To("kai-defaults")
				c.PodGrouper.Args.DefaultPrioritiesConfigMapNamespace = ptr.To("kai-scheduler")
			}
		}
		if g.chance(2, "pgClientCfg") {
			c.PodGrouper.K8sClientConfig = &kaicommon.K8sClientConfig{QPS: g.optInt("pgQPS", 30, 80), Burst: g.optInt("pgBurst", 100, 300)}
		}
	}
	if g.chance(7, "binder") {
		c.Binder = &kaibinder.Binder{Service: g.service("binder", 2), Replicas: g.optI32("binderReplicas", 1, 2), MaxConcurrentReconciles: g.optInt("binderMaxConc", 5, 10),
			VolumeBindingTimeoutSeconds: g.optInt("binderVolTimeout", 60, 120), CDIEnabled: g.optB("cdi", 3), ProbePort: g.optInt("binderProbePort", 8081, 9081), MetricsPort: g.optInt("binderMetricsPort", 8080, 9080)}
		if g.chance(3, "resourceReservation") {
			c.Binder.ResourceReservation = &kaibinder.ResourceReservation{Namespace: g.optS("rrNamespace", "kai-resource-reservation", "rr-alt"), AllocationTimeout: g.optInt("rrTimeout", 40, 90),
				RuntimeClassName: g.optS("rrRuntimeClass", "nvidia", ""), AppLabel: g.optS("rrAppLabel", "kai-resource-reservation", "rr")}
		}
	}
	if g.chance(7, "queueController") {
		c.QueueController = &kaiqc.QueueController{Service: g.service("qc", 2), Replicas: g.optI32("qcReplicas", 1, 2), MetricsNamespace: g.optS("qcMetricsNs", "kai", "custom"),
			QueueLabelToMetricLabel: g.optS("qcLabelMap", "priority=queue_priority"), QueueLabelToDefaultMetricValue: g.optS("qcLabelDefault", "priority=normal")}
		if g.chance(3, "qcWebhooks") {
			c.QueueController.Webhooks = &kaiqc.QueueControllerWebhooks{EnableValidation: g.optB("qcValidation", 7), WebhookConfigurationNamePrefix: g.optS("qcPrefix", "kai-queue-validation-", "alt-queue-validation-")}
		}
		if g.chance(2, "qcPorts") {
			c.QueueController.ControllerService = &kaiqc.Service{Metrics: &kaiqc.PortMapping{Port: g.optInt("qcMetricsPort", 8080, 9090)}, Webhook: &kaiqc.PortMapping{Port: g.optInt("qcWebhookPort", 443, 8443)}}
		}
	}
	if g.chance(7, "podGroupController") {
		c.PodGroupController = &kaipgc.PodGroupController{Service: g.service("pgc", 2), Replicas: g.optI32("pgcReplicas", 1, 2), MaxConcurrentReconciles: g.optInt("pgcMaxConc", 5, 10)}
		if g.chance(3, "pgcWebhooks") {
			c.PodGroupController.Webhooks = &kaipgc.PodGroupControllerWebhooks{EnableValidation: g.optB("pgcValidation", 7), WebhookConfigurationNamePrefix: g.optS("pgcPrefix", "kai-podgroup-validation-", "alt-podgroup-validation-")}
		}
	}
	if g.chance(6, "admission") {
		c.Admission = &kaiadmission.Admission{Service: g.service("admission", 2), Replicas: g.optI32("admReplicas", 1, 2), GPUSharing: g.optB("gpuSharing", 6), QueueLabelSelector: g.optB("queueLabelSelector", 3),
			ValidatingWebhookConfigurationName: g.optS("admValidatingName", "validating-kai-admission", "alt-validating"), MutatingWebhookConfigurationName: g.optS("admMutatingName", "mutating-kai-admission", "alt-mutating"),
			GPUPodRuntimeClassName: g.optS("gpuRuntimeClass", "nvidia", "")}
		if g.chance(2, "admWebhook") {
			c.Admission.Webhook = &kaiadmission.Webhook{Port: g.optInt("admPort", 443, 8443), TargetPort: g.optInt("admTargetPort", 9443, 10443), ProbePort: g.optInt("admProbePort", 8081), MetricsPort: g.optInt("admMetricsPort", 8080)}
		}
	}
	if g.chance(6, "scheduler") {
		c.Scheduler = &kaischeduler.Scheduler{Service: g.service("scheduler", 2), Replicas: g.optI32("schedReplicas", 1, 2), GOGC: g.optInt("gogc", 100, 400)}
		if g.chance(2, "schedService") {
			c.Scheduler.SchedulerService = &kaischeduler.Service{Port: g.optInt("schedPort", 8080, 9090), TargetPort: g.optInt("schedTargetPort", 8080, 9090)}
			if g.chance(3, "schedServiceType") {
				c.Scheduler.SchedulerService.Type = ptr.To(v1.ServiceTypeNodePort)
			}
		}
	}
	if g.chance(5, "nodeScaleAdjuster") {
		c.NodeScaleAdjuster = &kainsa.NodeScaleAdjuster{Service: g.service("nsa", 3)}
		if g.chance(4, "nsaArgs") {
			c.NodeScaleAdjuster.Args = &kainsa.Args{NodeScaleNamespace: g.optS("nsaNamespace", "kai-scale-adjust", "scale-alt"), NodeScaleServiceAccount: g.optS("nsaSA", "kai-scale-adjust", "scale-sa")}
			if g.chance(3, "nsaRatio") {
				c.NodeScaleAdjuster.Args.GPUMemoryToFractionRatio = ptr.To(0.2)
			}
		}
	}
	return c
}

func c20OpGenCase(t *rapid.T) *c20OpCase {
	g := &c20OpG{c20G: c20G{t: t}}
	if g.chance(3, "pullSecrets") {
		g.pullSecrets = []string{g.pick("pullSecretV", "regcred", "other-cred")}
	}
	c := &c20OpCase{QueueCRD: g.chance(5, "queueCRD")}
	a := g.config()
	var b kaiv1.ConfigSpec
	if g.chance(2, "sameConfig") {
		b = *a.DeepCopy()
	} else {
		b = g.config()
	}
	c.Configs = []kaiv1.ConfigSpec{a, b}
	return c
}

func TestCheckOperatorDeploy(t *testing.T) {
	t.Setenv("MS_REPOSITORY", "registry.local/default")
	t.Setenv("MS_TAG", "v0.0.0-verif")
	kit.Run(t, kit.Budget{Quick: 320, Thorough: 3000}, func(t *rapid.T) {
		c := c20OpGenCase(t)
		sig, msg, f, trace := c20OpJudge(c)
		if sig == "harness-error" {
			kit.Inconclusive()
			kit.Note("harness-error", 1)
			t.Fatalf("harness error: %s", msg)
		}
		classes := []string{"operator"}
		add := func(b bool, s string) {
			if b {
				classes = append(classes, s)
			}
		}
		add(f.differ, "operator:configs-differ")
		add(!f.differ, "operator:same-config-twice")
		add(f.nsChange, "operator:namespace-change")
		add(f.reconcileErr, "operator:reconcile-error")
		add(c.QueueCRD, "operator:queue-crd-present")
		for _, name := range c20OpDisabled(&c.Configs[1]) {
			classes = append(classes, "operator:B-disables-"+name)
		}
		classes = append(classes, fmt.Sprintf("operator:objects:%d", f.objects/5*5))
		kit.Eval(kit.HexKey(c), f.differ && !f.reconcileErr, classes...)
		if f.reconcileErr {
			kit.Note("operator-cases-with-reconcile-errors", 1)
		}
		if sig != "" {
			if kit.Known(c20Prop, sig) {
				return // listed in known_findings.json: counted by the kit, the search goes on
			}
			path := kit.Violation(c20Prop, sig, msg, c, trace)
			t.Fatalf("VIOLATION %s: %s (%s)", sig, msg, path)
		}
	})
}

func c20OpDisabled(c *kaiv1.ConfigSpec) []string {
	var out []string
	chk := func(name string, s *kaicommon.Service) {
		if s != nil && s.Enabled != nil && !*s.Enabled {
			out = append(out, name)
		}
	}
	if c.PodGrouper != nil {
		chk("podgrouper", c.PodGrouper.Service)
	}
	if c.Binder != nil {
		chk("binder", c.Binder.Service)
	}
	if c.QueueController != nil {
		chk("queuecontroller", c.QueueController.Service)
	}
	if c.PodGroupController != nil {
		chk("podgroupcontroller", c.PodGroupController.Service)
	}
	if c.Admission != nil {
		chk("admission", c.Admission.Service)
	}
	if c.Scheduler != nil {
		chk("scheduler", c.Scheduler.Service)
	}
	if c.NodeScaleAdjuster != nil {
		chk("nodescaleadjuster", c.NodeScaleAdjuster.Service)
	}
	return out
}

var _ = strings.Join
