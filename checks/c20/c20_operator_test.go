package controllers

type c20OpCase struct {
	Configs []map[string]any `json:"configs"`
}

type c20OpFacts struct{}

func c20OpJudge(c *c20OpCase) (sig, msg string, f c20OpFacts, trace []string) { return "", "", f, nil }
