// C20 — "Status controllers and operator converge to the true aggregate" (status-controller part).
//
// White-box harness injected into pkg/queuecontroller/controllers: the real QueueReconciler and the real
// PodGroupReconciler run over one controller-runtime fake client (with the field indexes the controllers
// register). A small event-loop model applies the controllers' own watch mappings (mapPodEventToPodGroup,
// enqueueQueue, enqueuePodGroup, "For" self-enqueue) to every content change of the store and drains the two
// work queues in an order dictated by a drawn choice tape. See NOTES.md for the oracle.
package controllers

import (
	"context"
	"encoding/json"
	"fmt"
	"math/big"
	"sort"
	"strconv"
	"strings"
	"testing"

	"github.com/go-logr/logr"
	v1 "k8s.io/api/core/v1"
	resourceapi "k8s.io/api/resource/v1"
	schedulingv1 "k8s.io/api/scheduling/v1"
	apierrors "k8s.io/apimachinery/pkg/api/errors"
	"k8s.io/apimachinery/pkg/api/resource"
	metav1 "k8s.io/apimachinery/pkg/apis/meta/v1"
	"k8s.io/apimachinery/pkg/runtime"
	"k8s.io/apimachinery/pkg/runtime/schema"
	"k8s.io/apimachinery/pkg/runtime/serializer"
	"k8s.io/apimachinery/pkg/types"
	clientgoscheme "k8s.io/client-go/kubernetes/scheme"
	clienttesting "k8s.io/client-go/testing"
	ctrl "sigs.k8s.io/controller-runtime"
	"sigs.k8s.io/controller-runtime/pkg/client"
	"sigs.k8s.io/controller-runtime/pkg/client/fake"

	"pgregory.net/rapid"

	v2 "github.com/NVIDIA/KAI-scheduler/pkg/apis/scheduling/v2"
	"github.com/NVIDIA/KAI-scheduler/pkg/apis/scheduling/v2alpha2"
	gpurequesthandler "github.com/NVIDIA/KAI-scheduler/pkg/binder/plugins/gpusharing/gpu-request"
	pgcontrollers "github.com/NVIDIA/KAI-scheduler/pkg/podgroupcontroller/controllers"
	"github.com/NVIDIA/KAI-scheduler/pkg/podgroupcontroller/controllers/cluster_relations"
	"github.com/NVIDIA/KAI-scheduler/pkg/queuecontroller/common"
	"github.com/NVIDIA/KAI-scheduler/pkg/queuecontroller/controllers/childqueues_updater"
	"github.com/NVIDIA/KAI-scheduler/pkg/queuecontroller/controllers/resource_updater"
	queuemetrics "github.com/NVIDIA/KAI-scheduler/pkg/queuecontroller/metrics"
	kit "github.com/NVIDIA/KAI-scheduler/zz_verif/verifkit"
)

const (
	c20Prop = "C20"
	c20NS   = "ns"
)

func TestMain(m *testing.M) {
	ctrl.SetLogger(logr.Discard()) // otherwise controller-runtime captures a stack trace per deferred log call
	queuemetrics.InitMetrics("kai_verif", nil, nil)
	kit.Main(m)
}

// ---------------------------------------------------------------------------------------------
// case: a self-contained world + history

type c20Container struct {
	CPUm  int64 `json:"cpuMilli,omitempty"`
	MemMi int64 `json:"memMi,omitempty"`
	GPUs  int64 `json:"gpus,omitempty"`
}

type c20Claim struct {
	Name     string `json:"name"`
	Class    string `json:"deviceClass"`
	Count    int64  `json:"count"`              // 0 with mode ExactCount = unspecified (counts as 1)
	Mode     string `json:"mode"`               // ExactCount | All
	Template bool   `json:"template,omitempty"` // referenced through resourceClaimTemplateName + pod.status.resourceClaimStatuses
}

type c20Pod struct {
	Name       string         `json:"name"`
	Group      string         `json:"group,omitempty"` // pod-group-name annotation
	Phase      string         `json:"phase"`
	Scheduled  string         `json:"scheduled,omitempty"` // PodScheduled condition: "", "True", "False"
	Node       string         `json:"node,omitempty"`
	Containers []c20Container `json:"containers"`
	Fraction   string         `json:"gpuFraction,omitempty"`
	FracValue  string         `json:"gpuFractionValue,omitempty"` // the number the literal denotes, when it is not a plain decimal
	GPUMemory  int64          `json:"gpuMemory,omitempty"`
	Devices    int64          `json:"devices,omitempty"` // gpu-fraction-num-devices annotation; 0 = absent
	Received   bool           `json:"receivedFraction,omitempty"`
	Claims     []c20Claim     `json:"claims,omitempty"`
}

type c20PG struct {
	Name      string `json:"name"`
	Queue     string `json:"queue,omitempty"`
	PrioClass string `json:"priorityClassName,omitempty"`
	Preempt   string `json:"preemptibility,omitempty"`
	MinMember int32  `json:"minMember,omitempty"`
}

type c20Queue struct {
	Name   string `json:"name"`
	Parent string `json:"parent,omitempty"`
}

type c20Prio struct {
	Name    string `json:"name"`
	Value   int32  `json:"value"`
	Default bool   `json:"globalDefault,omitempty"`
}

type c20Node struct {
	Name      string `json:"name"`
	GPUMemory int64  `json:"gpuMemory,omitempty"` // nvidia.com/gpu.memory label (MiB); 0 = no label
}

// c20Event replaces (or creates / deletes) one object.
type c20Event struct {
	Kind  string    `json:"kind"` // setPod delPod setPG delPG setQueue delQueue
	Pod   *c20Pod   `json:"pod,omitempty"`
	PG    *c20PG    `json:"podGroup,omitempty"`
	Queue *c20Queue `json:"queue,omitempty"`
	Name  string    `json:"name,omitempty"`
}

type c20Case struct {
	Prios  []c20Prio  `json:"priorityClasses"`
	Nodes  []c20Node  `json:"nodes"`
	Queues []c20Queue `json:"queues"`
	PGs    []c20PG    `json:"podGroups"`
	Pods   []c20Pod   `json:"pods"`
	Events []c20Event `json:"events"`
	Tape   []int      `json:"tape"` // work-queue choices: item = pending[v % len]; v >= 192 re-enqueues the item once (duplicate delivery)
}

// ---------------------------------------------------------------------------------------------
// model (oracle side): current desired objects

type c20Model struct {
	c      *c20Case
	pods   map[string]*c20Pod
	pgs    map[string]*c20PG
	queues map[string]*c20Queue
}

func c20NewModel(c *c20Case) *c20Model {
	m := &c20Model{c: c, pods: map[string]*c20Pod{}, pgs: map[string]*c20PG{}, queues: map[string]*c20Queue{}}
	for i := range c.Pods {
		m.pods[c.Pods[i].Name] = &c.Pods[i]
	}
	for i := range c.PGs {
		m.pgs[c.PGs[i].Name] = &c.PGs[i]
	}
	for i := range c.Queues {
		m.queues[c.Queues[i].Name] = &c.Queues[i]
	}
	return m
}

func (m *c20Model) apply(e *c20Event) {
	switch e.Kind {
	case "setPod":
		m.pods[e.Pod.Name] = e.Pod
	case "delPod":
		delete(m.pods, e.Name)
	case "setPG":
		m.pgs[e.PG.Name] = e.PG
	case "delPG":
		delete(m.pgs, e.Name)
	case "setQueue":
		m.queues[e.Queue.Name] = e.Queue
	case "delQueue":
		delete(m.queues, e.Name)
	}
}

// resource vector in exact rationals
type c20Res map[string]*big.Rat

func (r c20Res) add(name string, v *big.Rat) {
	if cur, ok := r[name]; ok {
		cur.Add(cur, v)
	} else {
		r[name] = new(big.Rat).Set(v)
	}
}
func (r c20Res) addAll(o c20Res) {
	for k, v := range o {
		r.add(k, v)
	}
}
func (r c20Res) String() string {
	ks := make([]string, 0, len(r))
	for k := range r {
		ks = append(ks, k)
	}
	sort.Strings(ks)
	var sb strings.Builder
	sb.WriteString("{")
	for i, k := range ks {
		if i > 0 {
			sb.WriteString(", ")
		}
		sb.WriteString(k + ":" + r[k].FloatString(6))
	}
	sb.WriteString("}")
	return sb.String()
}

func c20Int(v int64) *big.Rat { return new(big.Rat).SetInt64(v) }

func (m *c20Model) nodeGPUMemory(n string) int64 {
	for _, x := range m.c.Nodes {
		if x.Name == n {
			return x.GPUMemory
		}
	}
	return 0
}

// podTruth: what one pod requests and what it holds (property statement + docs, see NOTES.md).
func (m *c20Model) podTruth(p *c20Pod) (requested, allocated c20Res, fuzzy bool) {
	requested, allocated = c20Res{}, c20Res{}
	active := p.Phase == "Pending" || p.Phase == "Running"
	holds := p.Phase == "Running" || (p.Phase == "Pending" && p.Scheduled == "True")
	base := c20Res{}
	for _, ct := range p.Containers {
		if ct.CPUm > 0 {
			base.add("cpu", big.NewRat(ct.CPUm, 1000))
		}
		if ct.MemMi > 0 {
			base.add("memory", c20Int(ct.MemMi*1024*1024))
		}
		if ct.GPUs > 0 {
			base.add("nvidia.com/gpu", c20Int(ct.GPUs))
		}
	}
	dra := c20Res{}
	for _, cl := range p.Claims {
		if !strings.Contains(strings.ToLower(cl.Class), "gpu") {
			continue // only GPU device classes are booked (the statuses account GPUs, CPU, memory and extended resources of containers)
		}
		n := cl.Count
		if cl.Mode == "All" || n <= 0 {
			n = 1
		}
		dra.add(cl.Class, c20Int(n))
	}
	devices := p.Devices
	if devices == 0 {
		devices = 1
	}
	if active {
		requested.addAll(base)
		requested.addAll(dra)
		if p.Fraction != "" {
			requested.add("nvidia.com/gpu", new(big.Rat).Mul(p.fraction(), c20Int(devices)))
		}
		if p.GPUMemory > 0 {
			requested.add("run.ai/gpu.memory", c20Int(p.GPUMemory*devices))
		}
	}
	if holds {
		allocated.addAll(base)
		allocated.addAll(dra)
		if p.Received {
			if p.Fraction != "" {
				allocated.add("nvidia.com/gpu", new(big.Rat).Mul(p.fraction(), c20Int(devices)))
			} else if p.GPUMemory > 0 {
				if nm := m.nodeGPUMemory(p.Node); nm > 0 {
					allocated.add("nvidia.com/gpu", new(big.Rat).Mul(big.NewRat(p.GPUMemory, nm), c20Int(devices)))
					fuzzy = true
				}
			}
		}
	}
	return
}

func (p *c20Pod) fraction() *big.Rat {
	lit := p.Fraction
	if p.FracValue != "" {
		lit = p.FracValue
	}
	f, ok := new(big.Rat).SetString(lit)
	if !ok {
		return new(big.Rat)
	}
	return f
}

func (m *c20Model) preemptible(g *c20PG) bool {
	switch g.Preempt {
	case "preemptible":
		return true
	case "non-preemptible":
		return false
	}
	prio := int32(50)
	found := false
	for _, p := range m.c.Prios {
		if p.Name == g.PrioClass {
			prio, found = p.Value, true
		}
	}
	if !found {
		for _, p := range m.c.Prios {
			if p.Default {
				prio = p.Value
			}
		}
	}
	return prio < 100
}

type c20Truth struct {
	requested, allocated, nonPreempt c20Res
	fuzzy                            int // pods whose allocated GPU amount went through the controller's float division
}

func (m *c20Model) pgTruth(g *c20PG) c20Truth {
	t := c20Truth{requested: c20Res{}, allocated: c20Res{}, nonPreempt: c20Res{}}
	for _, n := range c20Keys(m.pods) {
		p := m.pods[n]
		if p.Group != g.Name {
			continue
		}
		rq, al, fz := m.podTruth(p)
		t.requested.addAll(rq)
		t.allocated.addAll(al)
		if fz {
			t.fuzzy++
		}
	}
	if !m.preemptible(g) {
		t.nonPreempt.addAll(t.allocated)
	}
	return t
}

func (m *c20Model) queueTruth(q string, depth int) c20Truth {
	t := c20Truth{requested: c20Res{}, allocated: c20Res{}, nonPreempt: c20Res{}}
	if depth > 8 {
		return t
	}
	for _, n := range c20Keys(m.pgs) {
		if g := m.pgs[n]; g.Queue == q {
			x := m.pgTruth(g)
			t.requested.addAll(x.requested)
			t.allocated.addAll(x.allocated)
			t.nonPreempt.addAll(x.nonPreempt)
			t.fuzzy += x.fuzzy
		}
	}
	for _, n := range c20Keys(m.queues) {
		if c := m.queues[n]; c.Parent == q {
			x := m.queueTruth(c.Name, depth+1)
			t.requested.addAll(x.requested)
			t.allocated.addAll(x.allocated)
			t.nonPreempt.addAll(x.nonPreempt)
			t.fuzzy += x.fuzzy
		}
	}
	return t
}

func c20Keys[V any](m map[string]V) []string {
	ks := make([]string, 0, len(m))
	for k := range m {
		ks = append(ks, k)
	}
	sort.Strings(ks)
	return ks
}

func c20QuantityRat(q resource.Quantity) *big.Rat {
	d := q.DeepCopy()
	dec := d.AsDec()
	r := new(big.Rat).SetInt(dec.UnscaledBig())
	sc := int64(dec.Scale())
	if sc > 0 {
		r.Quo(r, new(big.Rat).SetInt(new(big.Int).Exp(big.NewInt(10), big.NewInt(sc), nil)))
	} else if sc < 0 {
		r.Mul(r, new(big.Rat).SetInt(new(big.Int).Exp(big.NewInt(10), big.NewInt(-sc), nil)))
	}
	return r
}

// c20CmpRes compares a reported resource list with the truth (absent == 0). tol applies to nvidia.com/gpu only.
func c20CmpRes(got v1.ResourceList, want c20Res, tol *big.Rat) string {
	names := map[string]bool{}
	for k := range got {
		names[string(k)] = true
	}
	for k := range want {
		names[k] = true
	}
	for _, k := range c20Keys(names) {
		g := new(big.Rat)
		if q, ok := got[v1.ResourceName(k)]; ok {
			g = c20QuantityRat(q)
		}
		w := new(big.Rat)
		if x, ok := want[k]; ok {
			w = x
		}
		d := new(big.Rat).Sub(g, w)
		d.Abs(d)
		lim := new(big.Rat)
		if k == "nvidia.com/gpu" && tol != nil {
			lim = tol
		}
		if d.Cmp(lim) > 0 {
			return fmt.Sprintf("%s: reported %s, true value %s", k, g.FloatString(6), w.FloatString(6))
		}
	}
	return ""
}

// ---------------------------------------------------------------------------------------------
// store + controllers

var c20Scheme = func() *runtime.Scheme {
	s := runtime.NewScheme()
	for _, f := range []func(*runtime.Scheme) error{clientgoscheme.AddToScheme, v2.AddToScheme, v2alpha2.AddToScheme} {
		if err := f(s); err != nil {
			panic(err)
		}
	}
	return s
}()

var c20Decoder = serializer.NewCodecFactory(c20Scheme).UniversalDecoder()

type c20Item struct {
	ctl  string // "pg" | "queue"
	name string
}

type c20World struct {
	c       *c20Case
	cl      client.WithWatch
	pgc     *pgcontrollers.PodGroupReconciler
	qc      *QueueReconciler
	pending map[c20Item]bool
	tapePos int
	log     []string
	errs    []string
	// facts
	parentFirst bool
	steps       int
}

func c20MilliQ(m int64) resource.Quantity { return *resource.NewMilliQuantity(m, resource.DecimalSI) }

func (c *c20Case) podObject(p *c20Pod) *v1.Pod {
	pod := &v1.Pod{ObjectMeta: metav1.ObjectMeta{Name: p.Name, Namespace: c20NS, UID: types.UID("uid-" + p.Name), Annotations: map[string]string{}},
		Spec: v1.PodSpec{SchedulerName: "kai-scheduler", NodeName: p.Node}, Status: v1.PodStatus{Phase: v1.PodPhase(p.Phase)}}
	if p.Group != "" {
		pod.Annotations["pod-group-name"] = p.Group
	}
	if p.Fraction != "" {
		pod.Annotations["gpu-fraction"] = p.Fraction
	}
	if p.GPUMemory > 0 {
		pod.Annotations["gpu-memory"] = strconv.FormatInt(p.GPUMemory, 10)
	}
	if p.Devices > 0 {
		pod.Annotations["gpu-fraction-num-devices"] = strconv.FormatInt(p.Devices, 10)
	}
	if p.Received {
		pod.Annotations["received-resource-type"] = "Fraction"
	}
	for i, ct := range p.Containers {
		rl := v1.ResourceList{}
		if ct.CPUm > 0 {
			rl[v1.ResourceCPU] = c20MilliQ(ct.CPUm)
		}
		if ct.MemMi > 0 {
			rl[v1.ResourceMemory] = *resource.NewQuantity(ct.MemMi*1024*1024, resource.BinarySI)
		}
		if ct.GPUs > 0 {
			rl["nvidia.com/gpu"] = *resource.NewQuantity(ct.GPUs, resource.DecimalSI)
		}
		pod.Spec.Containers = append(pod.Spec.Containers, v1.Container{Name: fmt.Sprintf("c%d", i), Image: "img",
			Resources: v1.ResourceRequirements{Requests: rl, Limits: rl.DeepCopy()}})
	}
	for _, cl := range p.Claims {
		name := p.Name + "-" + cl.Name
		if cl.Template {
			tn := "tmpl-" + cl.Name
			pod.Spec.ResourceClaims = append(pod.Spec.ResourceClaims, v1.PodResourceClaim{Name: cl.Name, ResourceClaimTemplateName: &tn})
			pod.Status.ResourceClaimStatuses = append(pod.Status.ResourceClaimStatuses, v1.PodResourceClaimStatus{Name: cl.Name, ResourceClaimName: &name})
		} else {
			pod.Spec.ResourceClaims = append(pod.Spec.ResourceClaims, v1.PodResourceClaim{Name: cl.Name, ResourceClaimName: &name})
		}
	}
	if p.Scheduled != "" {
		pod.Status.Conditions = []v1.PodCondition{{Type: v1.PodScheduled, Status: v1.ConditionStatus(p.Scheduled)}}
	}
	return pod
}

func c20ClaimObject(p *c20Pod, cl *c20Claim) *resourceapi.ResourceClaim {
	ex := &resourceapi.ExactDeviceRequest{DeviceClassName: cl.Class, AllocationMode: resourceapi.DeviceAllocationMode(cl.Mode), Count: cl.Count}
	return &resourceapi.ResourceClaim{ObjectMeta: metav1.ObjectMeta{Name: p.Name + "-" + cl.Name, Namespace: c20NS},
		Spec: resourceapi.ResourceClaimSpec{Devices: resourceapi.DeviceClaim{Requests: []resourceapi.DeviceRequest{{Name: "r", Exactly: ex}}}}}
}

func c20PGObject(g *c20PG) *v2alpha2.PodGroup {
	return &v2alpha2.PodGroup{ObjectMeta: metav1.ObjectMeta{Name: g.Name, Namespace: c20NS, UID: types.UID("uid-" + g.Name)},
		Spec: v2alpha2.PodGroupSpec{MinMember: g.MinMember, Queue: g.Queue, PriorityClassName: g.PrioClass, Preemptibility: v2alpha2.Preemptibility(g.Preempt)}}
}

func c20QueueObject(q *c20Queue) *v2.Queue {
	return &v2.Queue{ObjectMeta: metav1.ObjectMeta{Name: q.Name, UID: types.UID("uid-" + q.Name)}, Spec: v2.QueueSpec{ParentQueue: q.Parent}}
}

func c20NewWorld(c *c20Case) *c20World {
	w := &c20World{c: c, pending: map[c20Item]bool{}}
	var objs []client.Object
	for _, p := range c.Prios {
		objs = append(objs, &schedulingv1.PriorityClass{ObjectMeta: metav1.ObjectMeta{Name: p.Name}, Value: p.Value, GlobalDefault: p.Default})
	}
	for _, n := range c.Nodes {
		node := &v1.Node{ObjectMeta: metav1.ObjectMeta{Name: n.Name, Labels: map[string]string{}}}
		if n.GPUMemory > 0 {
			node.Labels["nvidia.com/gpu.memory"] = strconv.FormatInt(n.GPUMemory, 10)
		}
		objs = append(objs, node)
	}
	w.cl = fake.NewClientBuilder().WithScheme(c20Scheme).
		WithObjectTracker(clienttesting.NewObjectTracker(c20Scheme, c20Decoder)).
		WithIndex(&v1.Pod{}, cluster_relations.PodGroupToPodsIndexer, cluster_relations.PodGroupNameIndexerFunc).
		WithIndex(&v2.Queue{}, common.ParentQueueIndexName, indexQueueByParent).
		WithIndex(&v2alpha2.PodGroup{}, common.PodGroupQueueIndexName, indexPodGroupByQueue).
		WithStatusSubresource(&v2alpha2.PodGroup{}, &v2.Queue{}).
		WithObjects(objs...).Build()
	w.pgc = &pgcontrollers.PodGroupReconciler{Client: w.cl, Scheme: c20Scheme}
	w.qc = &QueueReconciler{Client: w.cl, Scheme: c20Scheme,
		resourceUpdater:    resource_updater.ResourceUpdater{Client: w.cl},
		childQueuesUpdater: childqueues_updater.ChildQueuesUpdater{Client: w.cl}}
	return w
}

// ---- snapshots and the watch model

type c20Snap struct {
	pods   map[string]*v1.Pod
	pgs    map[string]*v2alpha2.PodGroup
	queues map[string]*v2.Queue
	canon  map[string]string
}

func c20Canon(o client.Object) string {
	x := o.DeepCopyObject().(client.Object)
	x.SetResourceVersion("")
	x.SetManagedFields(nil)
	x.GetObjectKind().SetGroupVersionKind(schema.GroupVersionKind{})
	b, _ := json.Marshal(x)
	return string(b)
}

func (w *c20World) snapshot() *c20Snap { return w.snapshotFrom(nil) }

// snapshotFrom re-reads PodGroups and Queues; pods are re-read only when prev is nil (the controllers never write pods).
func (w *c20World) snapshotFrom(prev *c20Snap) *c20Snap {
	s := &c20Snap{pods: map[string]*v1.Pod{}, pgs: map[string]*v2alpha2.PodGroup{}, queues: map[string]*v2.Queue{}, canon: map[string]string{}}
	ctx := context.Background()
	if prev != nil {
		s.pods = prev.pods
		for k, v := range prev.canon {
			if strings.HasPrefix(k, "pod/") {
				s.canon[k] = v
			}
		}
	} else {
		var pl v1.PodList
		_ = w.cl.List(ctx, &pl)
		for i := range pl.Items {
			s.pods[pl.Items[i].Name] = &pl.Items[i]
			s.canon["pod/"+pl.Items[i].Name] = c20Canon(&pl.Items[i])
		}
	}
	var gl v2alpha2.PodGroupList
	_ = w.cl.List(ctx, &gl)
	for i := range gl.Items {
		s.pgs[gl.Items[i].Name] = &gl.Items[i]
		s.canon["pg/"+gl.Items[i].Name] = c20Canon(&gl.Items[i])
	}
	var ql v2.QueueList
	_ = w.cl.List(ctx, &ql)
	for i := range ql.Items {
		s.queues[ql.Items[i].Name] = &ql.Items[i]
		s.canon["queue/"+ql.Items[i].Name] = c20Canon(&ql.Items[i])
	}
	return s
}

func (w *c20World) enqueue(ctl, name string) {
	if name != "" {
		w.pending[c20Item{ctl, name}] = true
	}
}

// deliver turns every content difference between two snapshots into watch events and applies the controllers' own
// mapping functions to them (an update event maps the old and the new object).
func (w *c20World) deliver(before, after *c20Snap) (changed []string) {
	ctx := context.Background()
	for _, k := range c20Keys(c20Union(before.canon, after.canon)) {
		if before.canon[k] == after.canon[k] {
			continue
		}
		changed = append(changed, k)
		kind, name, _ := strings.Cut(k, "/")
		switch kind {
		case "pod":
			for _, s := range []*c20Snap{before, after} {
				if p := s.pods[name]; p != nil {
					for _, r := range pgcontrollers.VerifMapPodEventToPodGroup(ctx, p) {
						w.enqueue("pg", r.Name)
					}
				}
			}
		case "pg":
			w.enqueue("pg", name) // For(&PodGroup{})
			for _, s := range []*c20Snap{before, after} {
				if g := s.pgs[name]; g != nil {
					for _, r := range enqueuePodGroup(ctx, g) {
						w.enqueue("queue", r.Name)
					}
				}
			}
		case "queue":
			w.enqueue("queue", name) // For(&Queue{})
			for _, s := range []*c20Snap{before, after} {
				if q := s.queues[name]; q != nil {
					for _, r := range enqueueQueue(ctx, q) {
						w.enqueue("queue", r.Name)
					}
				}
			}
		}
	}
	return changed
}

func c20Union(a, b map[string]string) map[string]bool {
	u := map[string]bool{}
	for k := range a {
		u[k] = true
	}
	for k := range b {
		u[k] = true
	}
	return u
}

func (w *c20World) reconcile(it c20Item) (panicMsg string) {
	defer func() {
		if x := recover(); x != nil {
			panicMsg = fmt.Sprint(x)
		}
	}()
	var err error
	if it.ctl == "pg" {
		_, err = w.pgc.Reconcile(context.Background(), ctrl.Request{NamespacedName: types.NamespacedName{Namespace: c20NS, Name: it.name}})
	} else {
		_, err = w.qc.Reconcile(context.Background(), ctrl.Request{NamespacedName: types.NamespacedName{Name: it.name}})
	}
	if err != nil {
		w.errs = append(w.errs, fmt.Sprintf("%s %s: %v", it.ctl, it.name, err))
		w.log = append(w.log, fmt.Sprintf("  reconcile %s/%s ERROR %v", it.ctl, it.name, err))
	}
	return ""
}

func (w *c20World) sortedPending() []c20Item {
	items := make([]c20Item, 0, len(w.pending))
	for it := range w.pending {
		items = append(items, it)
	}
	sort.Slice(items, func(i, j int) bool {
		if items[i].ctl != items[j].ctl {
			return items[i].ctl < items[j].ctl
		}
		return items[i].name < items[j].name
	})
	return items
}

// descendantPending: is a PodGroup of q's subtree, or a queue below q, still waiting in a work queue?
func (w *c20World) descendantPending(m *c20Model, q string, depth int) bool {
	if depth > 8 {
		return false
	}
	for it := range w.pending {
		if it.ctl == "pg" {
			if g := m.pgs[it.name]; g != nil && g.Queue == q {
				return true
			}
		}
	}
	for _, c := range m.queues {
		if c.Parent == q {
			if w.pending[c20Item{"queue", c.Name}] || w.descendantPending(m, c.Name, depth+1) {
				return true
			}
		}
	}
	return false
}

// drain processes the work queues until they are empty.
func (w *c20World) drain(m *c20Model) (panicMsg string, converged bool) {
	budget := 60 * (len(m.pgs) + len(m.queues) + 2)
	dups := 0
	var cur *c20Snap
	for n := 0; len(w.pending) > 0; n++ {
		if n > budget {
			return "", false
		}
		items := w.sortedPending()
		v := 0
		if len(w.c.Tape) > 0 {
			v = w.c.Tape[w.tapePos%len(w.c.Tape)]
			w.tapePos++
		}
		it := items[v%len(items)]
		delete(w.pending, it)
		if it.ctl == "queue" && w.descendantPending(m, it.name, 0) {
			w.parentFirst = true
		}
		if cur == nil {
			cur = w.snapshot()
		}
		before := cur
		if pm := w.reconcile(it); pm != "" {
			return fmt.Sprintf("reconcile of %s %s panicked: %s", it.ctl, it.name, pm), true
		}
		w.steps++
		cur = w.snapshotFrom(before)
		changed := w.deliver(before, cur)
		w.log = append(w.log, fmt.Sprintf("  reconcile %s/%s -> changed %v", it.ctl, it.name, changed))
		if v >= 192 && dups < 6 {
			dups++
			w.pending[it] = true // duplicate delivery / resync
		}
	}
	return "", true
}

// applyEvent performs one external change on the store.
func (w *c20World) applyEvent(e *c20Event) error {
	ctx := context.Background()
	switch e.Kind {
	case "setPod":
		want := w.c.podObject(e.Pod)
		if err := gpurequesthandler.ValidateGpuRequests(want); err != nil {
			return fmt.Errorf("generated pod %s is not admissible: %w", e.Pod.Name, err) // domain guard: admission would reject it
		}
		for i := range e.Pod.Claims {
			claim := c20ClaimObject(e.Pod, &e.Pod.Claims[i])
			if err := w.cl.Create(ctx, claim); err != nil && !apierrors.IsAlreadyExists(err) {
				return err
			}
		}
		cur := &v1.Pod{}
		err := w.cl.Get(ctx, types.NamespacedName{Namespace: c20NS, Name: e.Pod.Name}, cur)
		if apierrors.IsNotFound(err) {
			return w.cl.Create(ctx, want)
		} else if err != nil {
			return err
		}
		st := want.Status
		want.ResourceVersion = cur.ResourceVersion
		if err := w.cl.Update(ctx, want); err != nil {
			return err
		}
		want.Status = st
		return w.cl.Status().Update(ctx, want)
	case "delPod":
		return client.IgnoreNotFound(w.cl.Delete(ctx, &v1.Pod{ObjectMeta: metav1.ObjectMeta{Namespace: c20NS, Name: e.Name}}))
	case "setPG":
		want := c20PGObject(e.PG)
		cur := &v2alpha2.PodGroup{}
		err := w.cl.Get(ctx, types.NamespacedName{Namespace: c20NS, Name: e.PG.Name}, cur)
		if apierrors.IsNotFound(err) {
			return w.cl.Create(ctx, want)
		} else if err != nil {
			return err
		}
		cur.Spec = want.Spec
		return w.cl.Update(ctx, cur)
	case "delPG":
		return client.IgnoreNotFound(w.cl.Delete(ctx, &v2alpha2.PodGroup{ObjectMeta: metav1.ObjectMeta{Namespace: c20NS, Name: e.Name}}))
	case "setQueue":
		want := c20QueueObject(e.Queue)
		cur := &v2.Queue{}
		err := w.cl.Get(ctx, types.NamespacedName{Name: e.Queue.Name}, cur)
		if apierrors.IsNotFound(err) {
			return w.cl.Create(ctx, want)
		} else if err != nil {
			return err
		}
		cur.Spec = want.Spec
		return w.cl.Update(ctx, cur)
	case "delQueue":
		return client.IgnoreNotFound(w.cl.Delete(ctx, &v2.Queue{ObjectMeta: metav1.ObjectMeta{Name: e.Name}}))
	}
	return fmt.Errorf("unknown event %q", e.Kind)
}

// ---------------------------------------------------------------------------------------------
// oracle

type c20Facts struct {
	flip, reparent, parentFirst bool
	fraction, gpuMemory, multi  bool
	dra                         bool
	depth                       int
	events                      int
	errs                        int
	steps                       int
}

var c20Tol = big.NewRat(1, 1000000)

func (w *c20World) checkQuiescent(m *c20Model, when string) (string, string) {
	s := w.snapshot()
	for _, n := range c20Keys(m.pgs) {
		g := s.pgs[n]
		if g == nil {
			return "harness-error", fmt.Sprintf("%s: PodGroup %s of the model is not in the store", when, n)
		}
		t := m.pgTruth(m.pgs[n])
		tol := new(big.Rat).Mul(c20Tol, c20Int(int64(t.fuzzy)))
		rs := g.Status.ResourcesStatus
		if d := c20CmpRes(rs.Requested, t.requested, nil); d != "" {
			return "podgroup-requested", fmt.Sprintf("%s: PodGroup %s status.resourcesStatus.requested is not the sum over its Pending/Running pods — %s (true sum %s)", when, n, d, t.requested)
		}
		if d := c20CmpRes(rs.Allocated, t.allocated, tol); d != "" {
			return "podgroup-allocated", fmt.Sprintf("%s: PodGroup %s status.resourcesStatus.allocated is not the sum over its Running / scheduled pods — %s (true sum %s)", when, n, d, t.allocated)
		}
		if d := c20CmpRes(rs.AllocatedNonPreemptible, t.nonPreempt, tol); d != "" {
			return "podgroup-allocated-nonpreemptible", fmt.Sprintf("%s: PodGroup %s (currently %s) status.resourcesStatus.allocatedNonPreemptible — %s (true value %s)", when, n, c20PreemptWord(m.preemptible(m.pgs[n])), d, t.nonPreempt)
		}
	}
	for _, n := range c20Keys(m.queues) {
		q := s.queues[n]
		if q == nil {
			return "harness-error", fmt.Sprintf("%s: Queue %s of the model is not in the store", when, n)
		}
		t := m.queueTruth(n, 0)
		tol := new(big.Rat).Mul(c20Tol, c20Int(int64(t.fuzzy)))
		if d := c20CmpRes(q.Status.Requested, t.requested, nil); d != "" {
			return "queue-requested", fmt.Sprintf("%s: Queue %s status.requested is not the sum over its pod groups and child queues — %s (true sum %s)", when, n, d, t.requested)
		}
		if d := c20CmpRes(q.Status.Allocated, t.allocated, tol); d != "" {
			return "queue-allocated", fmt.Sprintf("%s: Queue %s status.allocated is not the sum over its pod groups and child queues — %s (true sum %s)", when, n, d, t.allocated)
		}
		if d := c20CmpRes(q.Status.AllocatedNonPreemptible, t.nonPreempt, tol); d != "" {
			return "queue-allocated-nonpreemptible", fmt.Sprintf("%s: Queue %s status.allocatedNonPreemptible is not the sum over its non-preemptible pod groups and child queues — %s (true sum %s)", when, n, d, t.nonPreempt)
		}
		var kids []string
		for _, cn := range c20Keys(m.queues) {
			if m.queues[cn].Parent == n {
				kids = append(kids, cn)
			}
		}
		got := append([]string(nil), q.Status.ChildQueues...)
		sort.Strings(got)
		if strings.Join(got, ",") != strings.Join(kids, ",") {
			return "queue-children", fmt.Sprintf("%s: Queue %s status.childQueues = %v, its children are %v", when, n, got, kids)
		}
	}
	return "", ""
}

func c20PreemptWord(p bool) string {
	if p {
		return "preemptible"
	}
	return "non-preemptible"
}

// secondRound: reconcile every PodGroup and every Queue once more; nothing may change.
func (w *c20World) secondRound(m *c20Model, when string) (string, string) {
	before := w.snapshot()
	for _, n := range c20Keys(m.pgs) {
		if pm := w.reconcile(c20Item{"pg", n}); pm != "" {
			return "panic", pm
		}
	}
	for _, n := range c20Keys(m.queues) {
		if pm := w.reconcile(c20Item{"queue", n}); pm != "" {
			return "panic", pm
		}
	}
	after := w.snapshot()
	for _, k := range c20Keys(c20Union(before.canon, after.canon)) {
		if before.canon[k] != after.canon[k] {
			return "second-reconcile-changes-store", fmt.Sprintf("%s: after the work queues drained, reconciling everything again changed %s: %s  ->  %s", when, k, c20Short(before.canon[k]), c20Short(after.canon[k]))
		}
	}
	return "", ""
}

func c20Short(s string) string {
	if len(s) > 600 {
		return s[:600] + "…"
	}
	return s
}

func c20Judge(c *c20Case) (sig, msg string, f c20Facts, trace []string) {
	w := c20NewWorld(c)
	m := c20NewModel(c)
	fail := func(s, ms string) (string, string, c20Facts, []string) {
		f.errs, f.steps = len(w.errs), w.steps
		return s, ms, f, w.log
	}
	// initial objects arrive as create events
	empty := w.snapshot()
	for i := range c.Queues {
		if err := w.applyEvent(&c20Event{Kind: "setQueue", Queue: &c.Queues[i]}); err != nil {
			return fail("harness-error", err.Error())
		}
	}
	for i := range c.PGs {
		if err := w.applyEvent(&c20Event{Kind: "setPG", PG: &c.PGs[i]}); err != nil {
			return fail("harness-error", err.Error())
		}
	}
	for i := range c.Pods {
		if err := w.applyEvent(&c20Event{Kind: "setPod", Pod: &c.Pods[i]}); err != nil {
			return fail("harness-error", err.Error())
		}
	}
	w.log = append(w.log, "initial objects created")
	w.deliver(empty, w.snapshot())
	step := func(when string) (string, string) {
		pm, conv := w.drain(m)
		if pm != "" {
			return "panic", when + ": " + pm
		}
		if !conv {
			return "no-fixpoint", fmt.Sprintf("%s: the controllers keep changing the store: work queues not empty after %d reconciles (pending %v)", when, w.steps, w.sortedPending())
		}
		if len(w.errs) > 0 {
			// every generated object is admissible (pods pass the admission validator), so the controllers must be able to
			// compute the statuses; a failing reconcile is retried for ever and the status never converges
			return "reconcile-error", fmt.Sprintf("%s: a reconcile of a well-formed world fails (and would be retried for ever, the status never converges): %s", when, w.errs[0])
		}
		if s, ms := w.checkQuiescent(m, when); s != "" {
			return s, ms
		}
		return w.secondRound(m, when)
	}
	if s, ms := step("after the initial drain"); s != "" {
		return fail(s, ms)
	}
	for i := range c.Events {
		if len(w.errs) > 0 {
			break
		}
		e := &c.Events[i]
		c20EventFacts(m, e, &f)
		before := w.snapshot()
		if err := w.applyEvent(e); err != nil {
			return fail("harness-error", fmt.Sprintf("event %d: %v", i, err))
		}
		m.apply(e)
		b, _ := json.Marshal(e)
		w.log = append(w.log, fmt.Sprintf("event %d: %s", i, b))
		w.deliver(before, w.snapshot())
		f.events++
		if s, ms := step(fmt.Sprintf("after event %d (%s)", i, e.Kind)); s != "" {
			return fail(s, ms)
		}
	}
	f.parentFirst = w.parentFirst
	return fail("", "")
}

// c20EventFacts classifies the event about to be applied (for the non-triviality rule).
func c20EventFacts(m *c20Model, e *c20Event, f *c20Facts) {
	switch e.Kind {
	case "setPG":
		if old := m.pgs[e.PG.Name]; old != nil {
			if m.preemptible(old) != m.preemptible(e.PG) && len(m.pgTruth(old).allocated) > 0 {
				f.flip = true
			}
		}
	case "setQueue":
		if old := m.queues[e.Queue.Name]; old != nil && old.Parent != e.Queue.Parent {
			f.reparent = true
		}
	}
}

// ---------------------------------------------------------------------------------------------
// property + replay

func c20Record(c *c20Case, f c20Facts) {
	var classes []string
	add := func(b bool, s string) {
		if b {
			classes = append(classes, s)
		}
	}
	add(f.flip, "preemptibility-flip-with-allocation")
	add(f.reparent, "queue-reparented")
	add(f.parentFirst, "parent-reconciled-before-descendant")
	add(f.errs > 0, "reconcile-error")
	depth := 0
	m := c20NewModel(c)
	for _, q := range c.Queues {
		d := 1
		for p := q.Parent; p != "" && d < 6; d++ {
			if pq := m.queues[p]; pq != nil {
				p = pq.Parent
			} else {
				break
			}
		}
		if d > depth {
			depth = d
		}
	}
	classes = append(classes, fmt.Sprintf("queue-depth:%d", depth), fmt.Sprintf("events:%d", f.events))
	kinds := map[string]bool{}
	for _, e := range c.Events {
		kinds["event:"+e.Kind] = true
	}
	classes = append(classes, c20Keys(kinds)...)
	podKinds := map[string]bool{}
	note := func(p *c20Pod) {
		add := func(b bool, s string) {
			if b {
				podKinds[s] = true
			}
		}
		add(p.Fraction != "", "pod:fraction")
		add(p.GPUMemory > 0, "pod:gpu-memory")
		add(p.Devices > 1, "pod:multi-device")
		add(len(p.Claims) > 0, "pod:dra")
		add(p.Phase == "Pending" && p.Scheduled == "True", "pod:scheduled-pending")
		for _, ct := range p.Containers {
			add(ct.GPUs > 0, "pod:whole-gpu")
		}
	}
	for i := range c.Pods {
		note(&c.Pods[i])
	}
	for _, e := range c.Events {
		if e.Pod != nil {
			note(e.Pod)
		}
	}
	classes = append(classes, c20Keys(podKinds)...)
	nt := f.flip || f.reparent || f.parentFirst
	kit.Eval(kit.HexKey(c), nt, classes...)
	if nt && kit.WantSample() {
		kit.Sample(c)
	}
}

func TestCheckStatusControllers(t *testing.T) {
	kit.Run(t, kit.Budget{Quick: 3200, Thorough: 60000}, func(t *rapid.T) {
		c := c20GenCase(t)
		sig, msg, f, trace := c20Judge(c)
		if sig == "harness-error" {
			kit.Inconclusive()
			kit.Note("harness-error", 1)
			t.Fatalf("harness error: %s", msg)
		}
		c20Record(c, f)
		if f.errs > 0 {
			kit.Note("cases-with-reconcile-errors", 1)
		}
		if sig != "" {
			if kit.Known(c20Prop, sig) {
				return // listed in known_findings.json: counted by the kit, the search goes on
			}
			path := kit.Violation(c20Prop, sig, msg, c, trace)
			t.Fatalf("VIOLATION %s: %s (%s)", sig, msg, path)
		}
	})
}

func TestReplay(t *testing.T) {
	kit.ReplayMain(t, func(rf *kit.ReplayFile) kit.ReplayResult {
		var probe struct {
			Configs json.RawMessage `json:"configs"`
		}
		_ = json.Unmarshal(rf.Case, &probe)
		var sig, msg string
		if probe.Configs != nil {
			var oc c20OpCase
			if err := json.Unmarshal(rf.Case, &oc); err != nil {
				t.Fatalf("bad operator case: %v", err)
			}
			// the operator builds arguments by iterating Go maps: replay several times
			bad := 0
			const runs = 6
			for i := 0; i < runs; i++ {
				sg, ms, _, tr := c20OpJudge(&oc)
				if sg != "" {
					if bad == 0 {
						sig, msg = sg, ms
						t.Logf("trace:\n%s", strings.Join(tr, "\n"))
					}
					bad++
				}
			}
			return kit.ReplayResult{Violated: bad > 0, Signature: sig, Message: msg, Runs: runs, Bad: bad}
		} else {
			var c c20Case
			if err := json.Unmarshal(rf.Case, &c); err != nil {
				t.Fatalf("bad case: %v", err)
			}
			var tr []string
			sig, msg, _, tr = c20Judge(&c)
			if sig != "" {
				t.Logf("trace:\n%s", strings.Join(tr, "\n"))
			}
		}
		bad := 0
		if sig != "" {
			bad = 1
		}
		return kit.ReplayResult{Violated: sig != "", Signature: sig, Message: msg, Runs: 1, Bad: bad}
	})
}
