package bindersim

import "pgregory.net/rapid"

// Uniform draws an (almost exactly) uniform integer in [0,n). rapid's own integer generators are
// biased toward small values; eight fair bits are not. All-zero bits (what shrinking converges to)
// map to 0.
func Uniform(t *rapid.T, n int, label string) int {
	if n <= 1 {
		return 0
	}
	v := 0
	bits := rapid.SliceOfN(rapid.Bool(), 8, 8).Draw(t, label)
	for _, b := range bits {
		v <<= 1
		if b {
			v |= 1
		}
	}
	if n > 256 {
		// two more bytes for large ranges
		for _, b := range rapid.SliceOfN(rapid.Bool(), 8, 8).Draw(t, label+"Hi") {
			v <<= 1
			if b {
				v |= 1
			}
		}
		return v * n / 65536
	}
	return v * n / 256
}

// Chance is true with probability pct/100; shrinking drives it to false.
func Chance(t *rapid.T, pct int, label string) bool {
	if pct <= 0 {
		return false
	}
	if pct >= 100 {
		return true
	}
	return Uniform(t, 100, label) >= 100-pct
}

func Pick[T any](t *rapid.T, label string, vals ...T) T { return vals[Uniform(t, len(vals), label)] }

// Weighted picks index i with probability w[i]/sum(w).
func Weighted(t *rapid.T, label string, w ...int) int {
	sum := 0
	for _, x := range w {
		sum += x
	}
	r := Uniform(t, sum, label)
	for i, x := range w {
		if r < x {
			return i
		}
		r -= x
	}
	return len(w) - 1
}
