package bindersim

import (
	"bytes"
	"fmt"
	"runtime"
	"sort"
	"strconv"
	"sync"
	"syscall"
	"time"
)

// Scheduler is the schedule controller: every concurrent actor parks before each of its client
// calls (and before its first instruction) and the harness releases exactly one parked actor at a
// time. Between two of its calls an actor only computes in memory, so the order of releases IS the
// interleaving as far as the API store can tell.
//
// An actor that was released and does not come back to the gate is, by inspection of its goroutine
// stack (not by a time-out), in one of three states: still running (keep waiting), finished, or
// blocked in GroupMutex.LockMutexForGroup -> sync.Mutex.Lock; in the last case another actor is
// released. Wall-clock only bounds the whole batch (watchdog -> inconclusive, never a verdict).
type Scheduler struct {
	mu      sync.Mutex
	cond    *sync.Cond
	workers map[int]*worker
}

type worker struct {
	id      int
	goid    int64
	state   int // wRunning, wParked, wDone
	release chan struct{}
	panicv  any
}

const (
	wRunning = iota
	wParked
	wDone
)

func newScheduler() *Scheduler {
	s := &Scheduler{workers: map[int]*worker{}}
	s.cond = sync.NewCond(&s.mu)
	return s
}

func (s *Scheduler) park(id int) {
	s.mu.Lock()
	w := s.workers[id]
	if w == nil {
		s.mu.Unlock()
		return
	}
	w.state = wParked
	s.cond.Broadcast()
	s.mu.Unlock()
	<-w.release
}

func goid() int64 {
	var buf [64]byte
	n := runtime.Stack(buf[:], false)
	// "goroutine 123 [running]:"
	b := buf[:n]
	b = bytes.TrimPrefix(b, []byte("goroutine "))
	i := bytes.IndexByte(b, ' ')
	if i < 0 {
		return -1
	}
	v, _ := strconv.ParseInt(string(b[:i]), 10, 64)
	return v
}

// blockedOnGroupMutex inspects all goroutine stacks and reports which of the given goroutine ids wait
// in sync.Mutex.Lock called from GroupMutex.LockMutexForGroup.
func blockedOnGroupMutex(ids map[int64]bool) map[int64]bool {
	out := map[int64]bool{}
	buf := make([]byte, 1<<18)
	for {
		n := runtime.Stack(buf, true)
		if n < len(buf) {
			buf = buf[:n]
			break
		}
		buf = make([]byte, 2*len(buf))
	}
	for _, blk := range bytes.Split(buf, []byte("\n\n")) {
		if !bytes.HasPrefix(blk, []byte("goroutine ")) {
			continue
		}
		rest := blk[len("goroutine "):]
		sp := bytes.IndexByte(rest, ' ')
		if sp < 0 {
			continue
		}
		id, err := strconv.ParseInt(string(rest[:sp]), 10, 64)
		if err != nil || !ids[id] {
			continue
		}
		nl := bytes.IndexByte(rest, '\n')
		if nl < 0 {
			continue
		}
		header := rest[sp:nl]
		if !bytes.Contains(header, []byte("[sync.Mutex.Lock")) && !bytes.Contains(header, []byte("[semacquire")) {
			continue
		}
		body := rest[nl:]
		lk := bytes.Index(body, []byte("group_mutex.(*GroupMutex).LockMutexForGroup"))
		if lk < 0 {
			continue
		}
		// the mutex being waited for must be the group's, not the map's: no refcount helper frame
		// between the runtime's lock frames and LockMutexForGroup
		if bytes.Contains(body[:lk], []byte("acquireWithRefcount")) {
			continue
		}
		out[id] = true
	}
	return out
}

// ScheduleResult describes one controlled concurrent batch.
type ScheduleResult struct {
	Order     []int    `json:"order"`            // actor released at each step
	Choices   []int    `json:"choices"`          // index into the sorted ready set that was chosen at each step
	Blocked   int      `json:"blocked"`          // steps at which some actor was found blocked on the group mutex
	Overlap   bool     `json:"overlap"`          // two actors were between their first and last call at the same time
	Deadlock  bool     `json:"deadlock"`         // nobody ready, somebody blocked
	TimedOut  bool     `json:"timedOut"`         // watchdog (inconclusive)
	Panics    []string `json:"panics,omitempty"` // escaped panics of actors
	Stuck     string   `json:"stuck,omitempty"`  // goroutine dump on deadlock / time-out
	ReadySets [][]int  `json:"readySets,omitempty"`
}

// RunConcurrent runs fns[i] as actor i+1 under the schedule controller. choose picks an index into
// the sorted list of ready actors (a rapid draw during search, a recorded choice during replay).
func (s *Sim) RunConcurrent(fns []func(), choose func(step int, ready []int) int) ScheduleResult {
	sc := newScheduler()
	res := ScheduleResult{}
	s.mu.Lock()
	s.sched = sc
	s.mu.Unlock()
	var wg sync.WaitGroup
	for i, fn := range fns {
		id := i + 1
		w := &worker{id: id, release: make(chan struct{}, 1), state: wRunning}
		sc.mu.Lock()
		sc.workers[id] = w
		sc.mu.Unlock()
		wg.Add(1)
		go func(fn func()) {
			defer wg.Done()
			s.bindGoroutine(id)
			sc.mu.Lock()
			w.goid = goid()
			sc.mu.Unlock()
			defer func() {
				if r := recover(); r != nil {
					w.panicv = r
				}
				s.unbindGoroutine()
				sc.mu.Lock()
				w.state = wDone
				sc.cond.Broadcast()
				sc.mu.Unlock()
			}()
			sc.park(id) // start gate
			fn()
		}(fn)
	}
	// watchdog: consumed CPU time of the process, not wall-clock (a starved machine must not look like a stuck
	// harness); the wall-clock bound is only a backstop far beyond any plausible starvation
	cpuStart, wallStop := processCPU(), time.Now().Add(30*time.Minute)
	expired := func() bool { return processCPU()-cpuStart > 90*time.Second || time.Now().After(wallStop) }
	started := map[int]bool{}
	finished := map[int]bool{}
	step := 0
	for {
		// settle: wait until every unfinished worker is parked at the gate or - in one and the same
		// stop-the-world stack inspection - blocked on a group mutex while nobody else runs (then no one
		// can release a mutex and the state is stable)
		blocked := map[int]bool{}
		for {
			sc.mu.Lock()
			nRunning := 0
			for _, w := range sc.workers {
				if w.state == wRunning {
					nRunning++
				}
			}
			if nRunning == 0 {
				sc.mu.Unlock()
				break
			}
			// give them a moment to arrive at the gate by themselves
			waitCond(sc.cond, 200*time.Microsecond)
			still := map[int64]int{}
			unknown := false
			for _, w := range sc.workers {
				if w.state == wRunning {
					if w.goid == 0 {
						unknown = true
					}
					still[w.goid] = w.id
				}
			}
			sc.mu.Unlock()
			if len(still) == 0 {
				break
			}
			if !unknown {
				ids := map[int64]bool{}
				for g := range still {
					ids[g] = true
				}
				b := blockedOnGroupMutex(ids)
				if len(b) == len(still) {
					// re-check the states: a worker may have parked between the two looks; then it is simply ready
					sc.mu.Lock()
					stable := true
					for g, id := range still {
						if sc.workers[id].state == wRunning && !b[g] {
							stable = false
						}
					}
					sc.mu.Unlock()
					if stable {
						for _, id := range still {
							blocked[id] = true
						}
						break
					}
				}
			}
			if expired() {
				res.TimedOut = true
				res.Stuck = allStacks()
				return res // goroutines are abandoned; the caller treats the case as inconclusive
			}
		}
		// a worker classified blocked may have been woken meanwhile: re-check its state below
		sc.mu.Lock()
		ready := []int{}
		alive := 0
		for _, w := range sc.workers {
			switch w.state {
			case wParked:
				ready = append(ready, w.id)
				alive++
			case wRunning:
				alive++
			case wDone:
				finished[w.id] = true
			}
		}
		sc.mu.Unlock()
		sort.Ints(ready)
		if alive == 0 {
			break
		}
		if len(blocked) > 0 {
			res.Blocked++
		}
		if len(ready) == 0 {
			res.Deadlock = true
			res.Stuck = allStacks()
			return res
		}
		ci := choose(step, ready)
		if ci < 0 || ci >= len(ready) {
			ci = 0
		}
		id := ready[ci]
		res.Order = append(res.Order, id)
		res.Choices = append(res.Choices, ci)
		if len(res.ReadySets) < 64 {
			res.ReadySets = append(res.ReadySets, ready)
		}
		// overlap: this actor has started before, and another started actor has not finished
		for o := range started {
			if o != id && !finished[o] {
				res.Overlap = true
			}
		}
		started[id] = true
		step++
		sc.mu.Lock()
		w := sc.workers[id]
		w.state = wRunning
		sc.mu.Unlock()
		w.release <- struct{}{}
	}
	wg.Wait()
	s.mu.Lock()
	s.sched = nil
	s.mu.Unlock()
	for i := range fns {
		if w := sc.workers[i+1]; w.panicv != nil {
			res.Panics = append(res.Panics, fmt.Sprintf("actor %d: %v", i+1, w.panicv))
		}
	}
	return res
}

// waitCond waits on c (whose lock is held) for at most d.
func waitCond(c *sync.Cond, d time.Duration) {
	t := time.AfterFunc(d, func() {
		c.L.Lock()
		c.Broadcast()
		c.L.Unlock()
	})
	c.Wait()
	t.Stop()
}

// processCPU returns the user+system CPU time this process has consumed.
func processCPU() time.Duration {
	var ru syscall.Rusage
	if err := syscall.Getrusage(syscall.RUSAGE_SELF, &ru); err != nil {
		return 0
	}
	return time.Duration(ru.Utime.Nano() + ru.Stime.Nano())
}

func allStacks() string {
	buf := make([]byte, 1<<20)
	n := runtime.Stack(buf, true)
	return string(buf[:n])
}
