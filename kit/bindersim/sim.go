// Package bindersim is engine E3 of the /verif checks: the real binder (BindRequestReconciler,
// binding.Binder, the resource-reservation service, the binder plugins, the pod controller's event
// handlers) over a controller-runtime fake client that is wrapped by an interceptor which
//
//   - numbers every client call per logical actor and can fail call k, fail-stop from call k on
//     (process crash) or mute a watch (the reservation pod never reports a GPU index);
//   - models what the fake client lacks: the pods/binding sub-resource (sets spec.nodeName, 409 on a
//     second bind), the watch on the reservation namespace (a small device-plugin model annotates the
//     reservation pod with a GPU index and the watch delivers it);
//   - optionally acts as schedule controller (sched.go): concurrent actors park at every client call
//     and are released one at a time by the harness.
//
// It is compiled into /repo's module through -overlay (virtual path /repo/zz_verif/bindersim).
package bindersim

import (
	"context"
	"errors"
	"fmt"
	"os"
	"reflect"
	"sort"
	"strconv"
	"strings"
	"sync"
	"time"

	"github.com/go-logr/logr"
	"github.com/go-logr/logr/funcr"
	v1 "k8s.io/api/core/v1"
	apierrors "k8s.io/apimachinery/pkg/api/errors"
	metav1 "k8s.io/apimachinery/pkg/apis/meta/v1"
	"k8s.io/apimachinery/pkg/runtime"
	"k8s.io/apimachinery/pkg/runtime/schema"
	"k8s.io/apimachinery/pkg/watch"
	"k8s.io/client-go/informers"
	k8sfake "k8s.io/client-go/kubernetes/fake"
	k8stesting "k8s.io/client-go/testing"
	"k8s.io/client-go/tools/record"
	"k8s.io/client-go/util/workqueue"
	ctrl "sigs.k8s.io/controller-runtime"
	"sigs.k8s.io/controller-runtime/pkg/client"
	"sigs.k8s.io/controller-runtime/pkg/client/fake"
	"sigs.k8s.io/controller-runtime/pkg/client/interceptor"
	"sigs.k8s.io/controller-runtime/pkg/event"
	ctrllog "sigs.k8s.io/controller-runtime/pkg/log"
	"sigs.k8s.io/controller-runtime/pkg/reconcile"

	schedulingv1alpha2 "github.com/NVIDIA/KAI-scheduler/pkg/apis/scheduling/v1alpha2"
	"github.com/NVIDIA/KAI-scheduler/pkg/binder/binding"
	"github.com/NVIDIA/KAI-scheduler/pkg/binder/binding/resourcereservation"
	"github.com/NVIDIA/KAI-scheduler/pkg/binder/controllers"
	"github.com/NVIDIA/KAI-scheduler/pkg/binder/plugins"
	"github.com/NVIDIA/KAI-scheduler/pkg/binder/plugins/gpusharing"
	k8splugins "github.com/NVIDIA/KAI-scheduler/pkg/binder/plugins/k8s-plugins"
	"github.com/NVIDIA/KAI-scheduler/pkg/common/constants"
)

const (
	ReservationNS   = constants.DefaultResourceReservationName
	ScalingNS       = constants.DefaultScaleAdjustName
	SchedulerName   = constants.DefaultSchedulerName
	IndexAnnotation = "run.ai/reserve_for_gpu_index" // resourcereservation.gpuIndexAnnotationName
	CMAnnotation    = "runai/shared-gpu-configmap"   // gpusharingconfigmap.gpuSharingConfigMapAnnotation
	// AllocationWait is the service's allocation timeout. It must never fire by itself: a time-out that
	// depends on machine load would turn wall-clock into a verdict. The "reservation pod never reports"
	// path is reached through a closed watch / a watch error event instead (same handling in the code).
	AllocationWait = 10 * time.Minute
)

func init() {
	if os.Getenv("VERIF_SUTLOG") != "" {
		l := funcr.New(func(prefix, args string) { fmt.Fprintln(os.Stderr, "SUT:", prefix, args) }, funcr.Options{Verbosity: 2})
		ctrllog.SetLogger(l)
		ctrl.SetLogger(l)
	} else {
		ctrllog.SetLogger(logr.Discard())
		ctrl.SetLogger(logr.Discard())
	}
}

// ---------------------------------------------------------------------------------------------
// faults and call log

// Fault is one injected fault of one actor: at the actor's K-th client call.
type Fault struct {
	K    int    `json:"k"`
	Mode string `json:"mode"`          // "error": call K fails, nothing applied; "crash": fail-stop from call K on (all actors); "mute": watch K opens but never delivers an index; "lost": call K is applied but reports a time-out (outside the fixed fault model: observation only)
	Err  string `json:"err,omitempty"` // error: internal|conflict|timeout|unavailable ; mute: closed|errorevent
}

// Rule is a persistent fault: every call that matches fails (or, for watches, is muted) - the model of a
// failure cause that does not go away between attempts (a node that rejects bindings, a reservation pod
// that never reports, ...). Empty fields match everything.
type Rule struct {
	Verb string `json:"verb,omitempty"`
	Kind string `json:"kind,omitempty"`
	Sub  string `json:"sub,omitempty"`
	Mode string `json:"mode"` // error | mute
	Err  string `json:"err,omitempty"`
}

func (r Rule) matches(verb, kind, sub string) bool {
	return (r.Verb == "" || r.Verb == verb) && (r.Kind == "" || r.Kind == kind) && (r.Sub == "" || r.Sub == sub)
}

// Call is one numbered client call.
type Call struct {
	Seq      int    `json:"seq"` // global order
	Actor    int    `json:"actor"`
	N        int    `json:"n"` // index within the actor's current operation (1-based)
	Verb     string `json:"verb"`
	Kind     string `json:"kind"`
	Key      string `json:"key,omitempty"`
	Sub      string `json:"sub,omitempty"`
	Phase    string `json:"phase,omitempty"` // bind | rollback | "" (reconciler itself)
	Mut      bool   `json:"mut,omitempty"`
	Err      string `json:"err,omitempty"`
	Injected string `json:"injected,omitempty"` // error | crash | crashed | mute
}

func (c Call) String() string {
	s := fmt.Sprintf("#%d a%d.%d %s %s %s", c.Seq, c.Actor, c.N, c.Verb, c.Kind, c.Key)
	if c.Sub != "" {
		s += "/" + c.Sub
	}
	if c.Phase != "" {
		s += " [" + c.Phase + "]"
	}
	if c.Injected != "" {
		s += " <" + c.Injected + ">"
	}
	if c.Err != "" {
		e := c.Err
		if len(e) > 90 {
			e = e[:90]
		}
		s += " err=" + e
	}
	return s
}

// BindRec is one pods/binding create that reached the API server model.
type BindRec struct {
	Pod    string `json:"pod"`
	Node   string `json:"node"`
	OK     bool   `json:"ok"`
	Before string `json:"before,omitempty"` // spec.nodeName stored before the call
	Actor  int    `json:"actor"`
}

type actor struct {
	id      int
	n       int
	faults  []Fault
	phase   string
	crashed bool
}

var ErrCrashed = errors.New("verif: process crashed (fail-stop), API unreachable")

// Sim is one API store plus the interception layer. Base is the harness' own, uncounted view.
type Sim struct {
	Scheme *runtime.Scheme
	Base   client.WithWatch
	Client client.WithWatch
	Kube   *k8sfake.Clientset

	CDI         bool
	IndexPolicy string // "lowest" | "rotating"
	Rules       []Rule // persistent faults (apply to counted operations of every actor)

	mu       sync.Mutex
	seq      int
	calls    []Call
	bindings []BindRec
	actors   map[int]*actor
	goids    map[int64]int // goroutine id -> actor id
	crashed  bool
	cursor   map[string]int // rotating index policy: per node
	sched    *Scheduler
	counting bool // kube reactor counts only while an operation is armed
	marks    []string
}

// Mark appends a harness-side event (Bind returned an error, Rollback was entered, ...).
func (s *Sim) Mark(m string) {
	s.mu.Lock()
	s.marks = append(s.marks, m)
	s.mu.Unlock()
}

// TakeMarks returns and clears the harness-side events.
func (s *Sim) TakeMarks() []string {
	s.mu.Lock()
	defer s.mu.Unlock()
	m := s.marks
	s.marks = nil
	return m
}

var (
	schemeOnce   sync.Once
	sharedScheme *runtime.Scheme
)

// NewScheme returns the (shared, read-only after construction) scheme of the store.
func NewScheme() *runtime.Scheme {
	schemeOnce.Do(func() { sharedScheme = buildScheme() })
	return sharedScheme
}

func buildScheme() *runtime.Scheme {
	s := runtime.NewScheme()
	// core/v1 only: the fake client rebuilds a REST mapper from the scheme on every patch
	must(v1.AddToScheme(s))
	must(schedulingv1alpha2.AddToScheme(s))
	return s
}

func must(err error) {
	if err != nil {
		panic(err)
	}
}

func nodeNameIndexer(o client.Object) []string {
	n := o.(*v1.Pod).Spec.NodeName
	if n == "" {
		return nil
	}
	return []string{n}
}

// New builds a store holding objs (core and KAI objects) and kubeObjs (objects only the client-go
// clientset of the k8s-plugins wrapper sees: ResourceClaims).
func New(objs []client.Object, kubeObjs []runtime.Object) *Sim {
	s := &Sim{Scheme: NewScheme(), actors: map[int]*actor{}, goids: map[int64]int{}, cursor: map[string]int{}, IndexPolicy: "lowest"}
	s.Base = fake.NewClientBuilder().WithScheme(s.Scheme).
		WithIndex(&v1.Pod{}, "spec.nodeName", nodeNameIndexer).
		WithStatusSubresource(&schedulingv1alpha2.BindRequest{}, &v1.Pod{}).
		WithObjects(objs...).Build()
	s.Client = interceptor.NewClient(s.Base, s.funcs())
	s.Kube = k8sfake.NewSimpleClientset(kubeObjs...)
	s.Kube.PrependReactor("*", "*", s.kubeReactor)
	s.actors[0] = &actor{id: 0}
	return s
}

// ---------------------------------------------------------------------------------------------
// operations, actors

// Begin arms a fresh operation of actor id: call numbering restarts, faults apply to it.
func (s *Sim) Begin(id int, faults []Fault) {
	s.mu.Lock()
	defer s.mu.Unlock()
	a := s.actors[id]
	if a == nil {
		a = &actor{id: id}
		s.actors[id] = a
	}
	a.n, a.faults, a.phase, a.crashed = 0, faults, "", false
	s.counting = true
}

// Restart models a process restart after a crash: the API is reachable again, no faults armed.
// Time has passed: reservation pods that were created but not yet observed have started and report
// their GPU index (they do so on their own, whether or not a binder is watching).
func (s *Sim) Restart() {
	s.mu.Lock()
	s.crashed = false
	for _, a := range s.actors {
		a.faults, a.crashed, a.phase, a.n = nil, false, "", 0
	}
	s.mu.Unlock()
	s.SettleReservationPods()
}

// SettleReservationPods lets every reservation pod that has no GPU index yet report one.
func (s *Sim) SettleReservationPods() {
	pods := &v1.PodList{}
	_ = s.Base.List(context.Background(), pods, client.InNamespace(ReservationNS))
	for i := range pods.Items {
		p := &pods.Items[i]
		if p.Annotations[IndexAnnotation] != "" {
			continue
		}
		orig := p.DeepCopy()
		if p.Annotations == nil {
			p.Annotations = map[string]string{}
		}
		p.Annotations[IndexAnnotation] = strconv.Itoa(s.assignIndex(p.Spec.NodeName))
		_ = s.Base.Patch(context.Background(), p, client.MergeFrom(orig))
	}
}

func (s *Sim) Crashed() bool {
	s.mu.Lock()
	defer s.mu.Unlock()
	return s.crashed
}

// TakeCalls returns and clears the call log.
func (s *Sim) TakeCalls() []Call {
	s.mu.Lock()
	defer s.mu.Unlock()
	c := s.calls
	s.calls = nil
	return c
}

func (s *Sim) Bindings() []BindRec {
	s.mu.Lock()
	defer s.mu.Unlock()
	return append([]BindRec(nil), s.bindings...)
}

func (s *Sim) SetPhase(p string) {
	id := s.currentActor()
	s.mu.Lock()
	defer s.mu.Unlock()
	if a := s.actors[id]; a != nil {
		a.phase = p
	}
}

func (s *Sim) currentActor() int {
	s.mu.Lock()
	n := len(s.goids)
	s.mu.Unlock()
	if n == 0 {
		return 0
	}
	g := goid()
	s.mu.Lock()
	defer s.mu.Unlock()
	return s.goids[g]
}

func (s *Sim) bindGoroutine(id int) {
	g := goid()
	s.mu.Lock()
	s.goids[g] = id
	s.mu.Unlock()
}

func (s *Sim) unbindGoroutine() {
	g := goid()
	s.mu.Lock()
	delete(s.goids, g)
	s.mu.Unlock()
}

// pre numbers a call, waits at the schedule gate and applies faults. It returns the index of the log
// entry (for post) and the injected error, if any. muted is set for a muted watch.
func (s *Sim) pre(verb, kind, key, sub string, mut bool) (idx int, muted string, err error) {
	id := s.currentActor()
	if id > 0 && s.sched != nil {
		s.sched.park(id)
	}
	s.mu.Lock()
	defer s.mu.Unlock()
	a := s.actors[id]
	if a == nil {
		a = &actor{id: id}
		s.actors[id] = a
	}
	a.n++
	s.seq++
	c := Call{Seq: s.seq, Actor: id, N: a.n, Verb: verb, Kind: kind, Key: key, Sub: sub, Phase: a.phase, Mut: mut}
	if s.crashed || a.crashed {
		c.Injected, c.Err = "crashed", ErrCrashed.Error()
		err = ErrCrashed
	} else {
		for _, f := range a.faults {
			if f.K != a.n {
				continue
			}
			switch f.Mode {
			case "error":
				c.Injected = "error"
				err = injectedError(f.Err, kind, key)
				c.Err = err.Error()
			case "crash":
				c.Injected, c.Err = "crash", ErrCrashed.Error()
				s.crashed = true
				err = ErrCrashed
			case "lost":
				// the call is applied but its reply is lost (post turns a success into a time-out)
				c.Injected = "lost"
			case "mute":
				if verb == "watch" {
					c.Injected = "mute"
					muted = f.Err
					if muted == "" {
						muted = "closed"
					}
				}
			}
		}
		if c.Injected == "" && s.counting {
			for _, r := range s.Rules {
				if !r.matches(verb, kind, sub) {
					continue
				}
				if r.Mode == "mute" && verb == "watch" {
					c.Injected = "mute"
					muted = r.Err
					if muted == "" {
						muted = "closed"
					}
				} else if r.Mode == "error" {
					c.Injected = "error"
					err = injectedError(r.Err, kind, key)
					c.Err = err.Error()
				}
				break
			}
		}
	}
	s.calls = append(s.calls, c)
	return len(s.calls) - 1, muted, err
}

func (s *Sim) post(idx int, err error) error {
	if err == nil {
		s.mu.Lock()
		lost := idx < len(s.calls) && s.calls[idx].Injected == "lost"
		s.mu.Unlock()
		if lost {
			err = apierrors.NewTimeoutError("verif: reply lost (the call was applied)", 1)
		}
	}
	if err != nil {
		s.mu.Lock()
		if idx < len(s.calls) {
			s.calls[idx].Err = err.Error()
		}
		s.mu.Unlock()
	}
	return err
}

func injectedError(kind, objKind, key string) error {
	switch kind {
	case "conflict":
		return apierrors.NewConflict(schema.GroupResource{Resource: strings.ToLower(objKind) + "s"}, key, errors.New("verif: injected conflict"))
	case "timeout":
		return apierrors.NewTimeoutError("verif: injected timeout", 1)
	case "unavailable":
		return apierrors.NewServiceUnavailable("verif: injected unavailability")
	default:
		return apierrors.NewInternalError(errors.New("verif: injected failure"))
	}
}

func kindOf(o any) string {
	t := reflect.TypeOf(o)
	for t.Kind() == reflect.Ptr {
		t = t.Elem()
	}
	return strings.TrimSuffix(t.Name(), "List")
}

func keyOf(o client.Object) string {
	if o.GetNamespace() == "" {
		return o.GetName()
	}
	return o.GetNamespace() + "/" + o.GetName()
}

func listKey(opts []client.ListOption) string {
	lo := client.ListOptions{}
	lo.ApplyOptions(opts)
	parts := []string{}
	if lo.Namespace != "" {
		parts = append(parts, "ns="+lo.Namespace)
	}
	if lo.LabelSelector != nil && !lo.LabelSelector.Empty() {
		parts = append(parts, "l:"+lo.LabelSelector.String())
	}
	if lo.FieldSelector != nil && !lo.FieldSelector.Empty() {
		parts = append(parts, "f:"+lo.FieldSelector.String())
	}
	return strings.Join(parts, " ")
}

// ---------------------------------------------------------------------------------------------
// the interceptor

func (s *Sim) funcs() interceptor.Funcs {
	return interceptor.Funcs{
		Get: func(ctx context.Context, c client.WithWatch, key client.ObjectKey, obj client.Object, opts ...client.GetOption) error {
			k := key.Name
			if key.Namespace != "" {
				k = key.Namespace + "/" + key.Name
			}
			i, _, err := s.pre("get", kindOf(obj), k, "", false)
			if err != nil {
				return err
			}
			return s.post(i, c.Get(ctx, key, obj, opts...))
		},
		List: func(ctx context.Context, c client.WithWatch, list client.ObjectList, opts ...client.ListOption) error {
			i, _, err := s.pre("list", kindOf(list), listKey(opts), "", false)
			if err != nil {
				return err
			}
			return s.post(i, c.List(ctx, list, opts...))
		},
		Create: func(ctx context.Context, c client.WithWatch, obj client.Object, opts ...client.CreateOption) error {
			i, _, err := s.pre("create", kindOf(obj), keyOf(obj), "", true)
			if err != nil {
				return err
			}
			return s.post(i, c.Create(ctx, obj, opts...))
		},
		Delete: func(ctx context.Context, c client.WithWatch, obj client.Object, opts ...client.DeleteOption) error {
			i, _, err := s.pre("delete", kindOf(obj), keyOf(obj), "", true)
			if err != nil {
				return err
			}
			return s.post(i, c.Delete(ctx, obj, opts...))
		},
		DeleteAllOf: func(ctx context.Context, c client.WithWatch, obj client.Object, opts ...client.DeleteAllOfOption) error {
			i, _, err := s.pre("deleteallof", kindOf(obj), "", "", true)
			if err != nil {
				return err
			}
			return s.post(i, c.DeleteAllOf(ctx, obj, opts...))
		},
		Update: func(ctx context.Context, c client.WithWatch, obj client.Object, opts ...client.UpdateOption) error {
			i, _, err := s.pre("update", kindOf(obj), keyOf(obj), "", true)
			if err != nil {
				return err
			}
			return s.post(i, c.Update(ctx, obj, opts...))
		},
		Patch: func(ctx context.Context, c client.WithWatch, obj client.Object, patch client.Patch, opts ...client.PatchOption) error {
			i, _, err := s.pre("patch", kindOf(obj), keyOf(obj), "", true)
			if err != nil {
				return err
			}
			return s.post(i, c.Patch(ctx, obj, patch, opts...))
		},
		Apply: func(ctx context.Context, c client.WithWatch, obj runtime.ApplyConfiguration, opts ...client.ApplyOption) error {
			i, _, err := s.pre("apply", kindOf(obj), "", "", true)
			if err != nil {
				return err
			}
			return s.post(i, c.Apply(ctx, obj, opts...))
		},
		Watch: func(ctx context.Context, c client.WithWatch, list client.ObjectList, opts ...client.ListOption) (watch.Interface, error) {
			i, muted, err := s.pre("watch", kindOf(list), listKey(opts), "", false)
			if err != nil {
				return nil, err
			}
			w, err := s.watch(list, muted, opts...)
			return w, s.post(i, err)
		},
		SubResourceGet: func(ctx context.Context, c client.Client, sub string, obj client.Object, subObj client.Object, opts ...client.SubResourceGetOption) error {
			i, _, err := s.pre("sub-get", kindOf(obj), keyOf(obj), sub, false)
			if err != nil {
				return err
			}
			return s.post(i, c.SubResource(sub).Get(ctx, obj, subObj, opts...))
		},
		SubResourceCreate: func(ctx context.Context, c client.Client, sub string, obj client.Object, subObj client.Object, opts ...client.SubResourceCreateOption) error {
			i, _, err := s.pre("sub-create", kindOf(obj), keyOf(obj), sub, true)
			if err != nil {
				return err
			}
			if sub == "binding" {
				return s.post(i, s.bind(ctx, obj, subObj))
			}
			return s.post(i, c.SubResource(sub).Create(ctx, obj, subObj, opts...))
		},
		SubResourceUpdate: func(ctx context.Context, c client.Client, sub string, obj client.Object, opts ...client.SubResourceUpdateOption) error {
			i, _, err := s.pre("sub-update", kindOf(obj), keyOf(obj), sub, true)
			if err != nil {
				return err
			}
			return s.post(i, c.SubResource(sub).Update(ctx, obj, opts...))
		},
		SubResourcePatch: func(ctx context.Context, c client.Client, sub string, obj client.Object, patch client.Patch, opts ...client.SubResourcePatchOption) error {
			i, _, err := s.pre("sub-patch", kindOf(obj), keyOf(obj), sub, true)
			if err != nil {
				return err
			}
			return s.post(i, c.SubResource(sub).Patch(ctx, obj, patch, opts...))
		},
	}
}

// kubeReactor numbers the calls the k8s-plugins wrapper (DRA plugin) makes through the client-go
// clientset. Informer traffic (list/watch) is not part of a reconcile and is not numbered.
func (s *Sim) kubeReactor(action k8stesting.Action) (bool, runtime.Object, error) {
	verb := action.GetVerb()
	if verb == "list" || verb == "watch" {
		return false, nil, nil
	}
	s.mu.Lock()
	counting := s.counting
	s.mu.Unlock()
	if !counting {
		return false, nil, nil
	}
	key := action.GetNamespace()
	if n, ok := action.(interface{ GetName() string }); ok {
		key += "/" + n.GetName()
	} else if u, ok := action.(k8stesting.UpdateAction); ok {
		if m, err := metaOf(u.GetObject()); err == nil {
			key += "/" + m.GetName()
		}
	}
	mut := verb != "get"
	_, _, err := s.pre("kube-"+verb, action.GetResource().Resource, key, action.GetSubresource(), mut)
	if err != nil {
		return true, nil, err
	}
	return false, nil, nil
}

func metaOf(o runtime.Object) (metav1.Object, error) {
	if m, ok := o.(metav1.Object); ok {
		return m, nil
	}
	return nil, errors.New("no meta")
}

// bind models the pods/binding sub-resource of the API server: it sets spec.nodeName and the
// PodScheduled condition of an unassigned pod and rejects everything else with 409/404.
func (s *Sim) bind(ctx context.Context, obj client.Object, subObj client.Object) error {
	b, ok := subObj.(*v1.Binding)
	if !ok {
		return apierrors.NewBadRequest(fmt.Sprintf("expected Binding, got %T", subObj))
	}
	stored := &v1.Pod{}
	if err := s.Base.Get(ctx, client.ObjectKeyFromObject(obj), stored); err != nil {
		return err
	}
	rec := BindRec{Pod: keyOf(stored), Node: b.Target.Name, Before: stored.Spec.NodeName, Actor: s.currentActor()}
	fail := func(err error) error {
		s.mu.Lock()
		s.bindings = append(s.bindings, rec)
		s.mu.Unlock()
		return err
	}
	if b.UID != "" && b.UID != stored.UID {
		return fail(apierrors.NewConflict(schema.GroupResource{Resource: "pods/binding"}, stored.Name,
			fmt.Errorf("Precondition failed: UID in precondition: %v, UID in object meta: %v", b.UID, stored.UID)))
	}
	if stored.DeletionTimestamp != nil {
		return fail(apierrors.NewConflict(schema.GroupResource{Resource: "pods/binding"}, stored.Name, errors.New("pod is being deleted, cannot be assigned to a host")))
	}
	if stored.Spec.NodeName != "" {
		return fail(apierrors.NewConflict(schema.GroupResource{Resource: "pods/binding"}, stored.Name,
			fmt.Errorf("pod %s is already assigned to node %q", stored.Name, stored.Spec.NodeName)))
	}
	stored.Spec.NodeName = b.Target.Name
	if err := s.Base.Update(ctx, stored); err != nil {
		return fail(err)
	}
	rec.OK = true
	s.mu.Lock()
	s.bindings = append(s.bindings, rec)
	s.mu.Unlock()
	return nil
}

// watch models the watch the reservation service opens on its freshly created reservation pod: the
// device-plugin model gives the pod a GPU of its node, the pod reports the index in its annotation,
// the watch delivers the annotated pod. muted: the pod never reports.
func (s *Sim) watch(list client.ObjectList, muted string, opts ...client.ListOption) (watch.Interface, error) {
	if _, ok := list.(*v1.PodList); !ok {
		return nil, fmt.Errorf("verif: watch on %T is not modelled", list)
	}
	lo := client.ListOptions{}
	lo.ApplyOptions(opts)
	name := ""
	if lo.FieldSelector != nil {
		if v, ok := lo.FieldSelector.RequiresExactMatch("metadata.name"); ok {
			name = v
		}
	}
	switch muted {
	case "closed":
		w := watch.NewFakeWithChanSize(1, false)
		w.Stop()
		return w, nil
	case "errorevent":
		w := watch.NewFakeWithChanSize(1, false)
		w.Error(&metav1.Status{Status: metav1.StatusFailure, Message: "verif: watch error event", Code: 500})
		return w, nil
	}
	pod := &v1.Pod{}
	if err := s.Base.Get(context.Background(), client.ObjectKey{Namespace: lo.Namespace, Name: name}, pod); err != nil {
		// nothing to report about: behaves like a watch that sees no event
		w := watch.NewFakeWithChanSize(1, false)
		w.Stop()
		return w, nil
	}
	w := watch.NewFakeWithChanSize(2, false)
	if pod.Annotations[IndexAnnotation] == "" {
		unannotated := pod.DeepCopy()
		idx := s.assignIndex(pod.Spec.NodeName)
		orig := pod.DeepCopy()
		if pod.Annotations == nil {
			pod.Annotations = map[string]string{}
		}
		pod.Annotations[IndexAnnotation] = strconv.Itoa(idx)
		if err := s.Base.Patch(context.Background(), pod, client.MergeFrom(orig)); err != nil {
			return nil, err
		}
		w.Add(unannotated) // the initial state of the watch
		w.Modify(pod.DeepCopy())
		return w, nil
	}
	w.Add(pod.DeepCopy())
	return w, nil
}

// assignIndex is the device-plugin model: GPUs held by the node's reservation pods are taken.
func (s *Sim) assignIndex(node string) int {
	pods := &v1.PodList{}
	_ = s.Base.List(context.Background(), pods, client.InNamespace(ReservationNS))
	used := map[int]bool{}
	for _, p := range pods.Items {
		if p.Spec.NodeName != node {
			continue
		}
		if v, err := strconv.Atoi(p.Annotations[IndexAnnotation]); err == nil {
			used[v] = true
		}
	}
	s.mu.Lock()
	defer s.mu.Unlock()
	start := 0
	if s.IndexPolicy == "rotating" {
		start = s.cursor[node] % 8
	}
	for i := 0; i < 64; i++ {
		c := (start + i) % 64
		if !used[c] {
			s.cursor[node] = c + 1
			return c
		}
	}
	return 63
}

// ---------------------------------------------------------------------------------------------
// the system under test

type nopRecorder struct{}

func (nopRecorder) Event(runtime.Object, string, string, string)                  {}
func (nopRecorder) Eventf(runtime.Object, string, string, string, ...interface{}) {}
func (nopRecorder) AnnotatedEventf(runtime.Object, map[string]string, string, string, string, ...interface{}) {
}

var _ record.EventRecorder = nopRecorder{}

// phaseBinder delegates to the real Binder and only tells the call log which part is running.
type phaseBinder struct {
	s     *Sim
	inner binding.Interface
}

func (p *phaseBinder) Bind(ctx context.Context, pod *v1.Pod, node *v1.Node, br *schedulingv1alpha2.BindRequest) error {
	p.s.SetPhase("bind")
	defer p.s.SetPhase("")
	err := p.inner.Bind(ctx, pod, node, br)
	if err != nil {
		p.s.Mark("bind-failed")
	} else {
		p.s.Mark("bind-ok")
	}
	return err
}

func (p *phaseBinder) Rollback(ctx context.Context, pod *v1.Pod, node *v1.Node, br *schedulingv1alpha2.BindRequest) error {
	p.s.SetPhase("rollback")
	defer p.s.SetPhase("")
	p.s.Mark("rollback")
	return p.inner.Rollback(ctx, pod, node, br)
}

// Proc is one binder process: all objects are rebuilt on restart.
type Proc struct {
	Sim        *Sim
	RRS        resourcereservation.Interface
	Binder     *binding.Binder
	Reconciler *controllers.BindRequestReconciler
	Pods       *controllers.PodReconciler
	K8sPlugins *k8splugins.K8sPlugins
}

// NewProc builds the binder the way cmd/binder does (k8s-plugins wrapper first, then gpusharing).
func (s *Sim) NewProc() *Proc {
	p := &Proc{Sim: s}
	p.RRS = resourcereservation.NewService(false, s.Client, "registry/local/kai-scheduler/resource-reservation",
		AllocationWait, ReservationNS, ReservationNS, ReservationNS, ScalingNS, "", nil)
	bp := plugins.New()
	factory := informers.NewSharedInformerFactory(s.Kube, 0)
	k8s, err := k8splugins.New(s.Kube, factory, 5)
	if err != nil {
		panic(fmt.Sprintf("k8s-plugins: %v", err))
	}
	p.K8sPlugins = k8s
	bp.RegisterPlugin(k8s)
	bp.RegisterPlugin(gpusharing.New(s.Client, s.CDI))
	p.Binder = binding.NewBinder(s.Client, p.RRS, bp)
	params := &controllers.ReconcilerParams{MaxConcurrentReconciles: 10, RateLimiterBaseDelaySeconds: 1, RateLimiterMaxDelaySeconds: 60}
	p.Reconciler = controllers.NewBindRequestReconciler(s.Client, s.Scheme, nopRecorder{}, params,
		&phaseBinder{s: s, inner: p.Binder}, p.RRS)
	p.Pods = &controllers.PodReconciler{Client: s.Client, Scheme: s.Scheme, ResourceReservation: p.RRS, SchedulerName: SchedulerName}
	return p
}

// Reconcile runs one reconcile of the named BindRequest; a panic that escapes is returned as text.
func (p *Proc) Reconcile(ns, name string) (res ctrl.Result, err error, panicked string) {
	defer func() {
		if r := recover(); r != nil {
			panicked = fmt.Sprint(r)
		}
	}()
	res, err = p.Reconciler.Reconcile(context.Background(), ctrl.Request{NamespacedName: client.ObjectKey{Namespace: ns, Name: name}})
	return
}

// ---------------------------------------------------------------------------------------------
// helpers

func SortedKeys[V any](m map[string]V) []string {
	out := make([]string, 0, len(m))
	for k := range m {
		out = append(out, k)
	}
	sort.Strings(out)
	return out
}

// ---------------------------------------------------------------------------------------------
// environment steps and event handlers

// EnvStep is a schedulable point of an actor that is not a client call of the binder: the
// environment (user, kubelet, scheduler) changes the store. It parks at the schedule gate like a
// call and is logged, but is never failed.
func (s *Sim) EnvStep(what, key string) {
	id := s.currentActor()
	if id > 0 && s.sched != nil {
		s.sched.park(id)
	}
	s.mu.Lock()
	s.seq++
	s.calls = append(s.calls, Call{Seq: s.seq, Actor: id, Verb: "env", Kind: what, Key: key})
	s.mu.Unlock()
}

// NopQueue satisfies the work-queue parameter of the event handlers; enqueued reconcile requests of
// the pod controller are irrelevant (its Reconcile is empty).
type NopQueue struct{}

func (NopQueue) Add(reconcile.Request)                     {}
func (NopQueue) Len() int                                  { return 0 }
func (NopQueue) Get() (reconcile.Request, bool)            { return reconcile.Request{}, true }
func (NopQueue) Done(reconcile.Request)                    {}
func (NopQueue) ShutDown()                                 {}
func (NopQueue) ShutDownWithDrain()                        {}
func (NopQueue) ShuttingDown() bool                        { return false }
func (NopQueue) AddAfter(reconcile.Request, time.Duration) {}
func (NopQueue) AddRateLimited(reconcile.Request)          {}
func (NopQueue) Forget(reconcile.Request)                  {}
func (NopQueue) NumRequeues(reconcile.Request) int         { return 0 }

var _ workqueue.TypedRateLimitingInterface[reconcile.Request] = NopQueue{}

// PodUpdated delivers a pod update event to the pod controller's handlers.
func (p *Proc) PodUpdated(old, new *v1.Pod) {
	p.Pods.VerifEventHandlers().UpdateFunc(context.Background(), event.UpdateEvent{ObjectOld: old, ObjectNew: new}, NopQueue{})
}

// PodDeleted delivers a pod delete event to the pod controller's handlers.
func (p *Proc) PodDeleted(pod *v1.Pod) {
	p.Pods.VerifEventHandlers().DeleteFunc(context.Background(), event.DeleteEvent{Object: pod}, NopQueue{})
}

// RequestDeleted delivers a BindRequest delete event to the BindRequest controller's handlers.
func (p *Proc) RequestDeleted(br *schedulingv1alpha2.BindRequest) {
	p.Reconciler.VerifEventHandlers().DeleteFunc(context.Background(), event.DeleteEvent{Object: br}, NopQueue{})
}
