package bindersim

import (
	"context"
	"fmt"
	"sort"
	"strings"

	v1 "k8s.io/api/core/v1"
	resourceapi "k8s.io/api/resource/v1"
	"k8s.io/apimachinery/pkg/api/resource"
	metav1 "k8s.io/apimachinery/pkg/apis/meta/v1"
	"k8s.io/apimachinery/pkg/types"
	"sigs.k8s.io/controller-runtime/pkg/client"

	admissiongpusharing "github.com/NVIDIA/KAI-scheduler/pkg/admission/webhook/v1alpha2/gpusharing"
	schedulingv1alpha2 "github.com/NVIDIA/KAI-scheduler/pkg/apis/scheduling/v1alpha2"
	"github.com/NVIDIA/KAI-scheduler/pkg/common/constants"
)

// PodShape describes a workload pod as its owner submits it; BuildPod passes it through the real
// admission mutation (GPU-sharing plugin) so that the binder sees what it sees in a cluster.
type PodShape struct {
	Name       string `json:"name"`
	NS         string `json:"ns"`
	Kind       string `json:"kind"`               // whole | fraction | memory | multi | multimem | cpu
	Fraction   string `json:"fraction,omitempty"` // gpu-fraction annotation
	MemoryMiB  int    `json:"memoryMiB,omitempty"`
	Devices    int    `json:"devices,omitempty"` // gpu-fraction-num-devices (multi*)
	WholeGPUs  int    `json:"wholeGPUs,omitempty"`
	Containers int    `json:"containers"`
	Inits      int    `json:"inits,omitempty"`
	FracCtr    string `json:"fractionContainer,omitempty"` // gpu-fraction-container-name: "", "c1", "i0", ...
	Owner      bool   `json:"owner,omitempty"`
	LegacyEnv  bool   `json:"legacyEnv,omitempty"` // pod admitted by a version that did not wire NVIDIA_VISIBLE_DEVICES to the capabilities ConfigMap
	Claims     int    `json:"claims,omitempty"`    // DRA: number of resource claims (named claim-<pod>-<i>)
	ClaimTmpl  bool   `json:"claimTemplate,omitempty"`
}

func (p PodShape) Sharing() bool {
	return p.Kind == "fraction" || p.Kind == "memory" || p.Kind == "multi" || p.Kind == "multimem"
}

func (p PodShape) Multi() bool { return p.Kind == "multi" || p.Kind == "multimem" }

func (p PodShape) ClaimName(i int) string { return fmt.Sprintf("claim-%s-%d", p.Name, i) }

func (p PodShape) CMPrefix() string { return p.Name + "-vrf0000-shared-gpu" }

// BuildPod renders the pod (phase Pending, not bound).
func BuildPod(ps PodShape) *v1.Pod {
	pod := &v1.Pod{
		TypeMeta:   metav1.TypeMeta{Kind: "Pod", APIVersion: "v1"},
		ObjectMeta: metav1.ObjectMeta{Name: ps.Name, Namespace: ps.NS, UID: types.UID("uid-" + ps.Name), Annotations: map[string]string{}, Labels: map[string]string{}},
		Spec:       v1.PodSpec{SchedulerName: SchedulerName},
		Status:     v1.PodStatus{Phase: v1.PodPending},
	}
	if ps.Owner {
		pod.OwnerReferences = []metav1.OwnerReference{{APIVersion: "batch/v1", Kind: "Job", Name: "job-" + ps.Name, UID: types.UID("uid-job-" + ps.Name)}}
	}
	n := ps.Containers
	if n < 1 {
		n = 1
	}
	for i := 0; i < n; i++ {
		c := v1.Container{Name: fmt.Sprintf("c%d", i), Image: "img", Resources: v1.ResourceRequirements{Requests: v1.ResourceList{}, Limits: v1.ResourceList{}}}
		if ps.Kind == "whole" && i == 0 {
			q := *resource.NewQuantity(int64(max(ps.WholeGPUs, 1)), resource.DecimalSI)
			c.Resources.Requests[constants.NvidiaGpuResource] = q
			c.Resources.Limits[constants.NvidiaGpuResource] = q
		}
		pod.Spec.Containers = append(pod.Spec.Containers, c)
	}
	for i := 0; i < ps.Inits; i++ {
		pod.Spec.InitContainers = append(pod.Spec.InitContainers, v1.Container{Name: fmt.Sprintf("i%d", i), Image: "img"})
	}
	switch ps.Kind {
	case "fraction", "multi":
		pod.Annotations[constants.GpuFraction] = ps.Fraction
	case "memory", "multimem":
		pod.Annotations[constants.GpuMemory] = fmt.Sprint(ps.MemoryMiB)
	}
	if ps.Multi() {
		pod.Annotations[constants.GpuFractionsNumDevices] = fmt.Sprint(ps.Devices)
	}
	if ps.FracCtr != "" {
		pod.Annotations[constants.GpuFractionContainerName] = ps.FracCtr
	}
	for i := 0; i < ps.Claims; i++ {
		prc := v1.PodResourceClaim{Name: fmt.Sprintf("rc%d", i)}
		cn := ps.ClaimName(i)
		if ps.ClaimTmpl {
			t := "tmpl-" + cn
			prc.ResourceClaimTemplateName = &t
			pod.Status.ResourceClaimStatuses = append(pod.Status.ResourceClaimStatuses, v1.PodResourceClaimStatus{Name: prc.Name, ResourceClaimName: &cn})
		} else {
			prc.ResourceClaimName = &cn
		}
		pod.Spec.ResourceClaims = append(pod.Spec.ResourceClaims, prc)
	}
	if ps.Sharing() {
		// the name prefix is random in production (utilrand); the admission plugin keeps an existing one
		pod.Annotations[CMAnnotation] = ps.CMPrefix()
		if err := admissiongpusharing.New(nil, true).Mutate(pod); err != nil {
			panic(fmt.Sprintf("admission mutate of generated pod failed: %v", err))
		}
		if ps.LegacyEnv {
			strip := func(cs []v1.Container) {
				for i := range cs {
					var env []v1.EnvVar
					for _, e := range cs[i].Env {
						if e.Name != constants.NvidiaVisibleDevices {
							env = append(env, e)
						}
					}
					cs[i].Env = env
				}
			}
			strip(pod.Spec.Containers)
			strip(pod.Spec.InitContainers)
		}
	}
	return pod
}

// CapabilitiesCM / EnvCM are the names of the two ConfigMaps of a sharing pod, derived from the
// annotation and the fraction container exactly as the documentation of the feature describes
// ("<prefix>-<index>" resp. "<prefix>-i<index>" for init containers, "-evar" for the envFrom map).
func (p PodShape) CapabilitiesCM() string {
	idx := "0"
	if p.FracCtr != "" {
		idx = strings.TrimPrefix(p.FracCtr, "c")
		if strings.HasPrefix(p.FracCtr, "i") {
			idx = p.FracCtr
		}
	}
	return p.CMPrefix() + "-" + idx
}

func (p PodShape) EnvCM() string { return p.CapabilitiesCM() + "-evar" }

// VisibleDevicesCM is the ConfigMap the fraction container reads NVIDIA_VISIBLE_DEVICES from.
func (p PodShape) VisibleDevicesCM() string {
	if p.LegacyEnv {
		return p.EnvCM()
	}
	return p.CapabilitiesCM()
}

// ReqShape describes a BindRequest (named after its pod, as the scheduler does).
type ReqShape struct {
	Node     string   `json:"node"`
	Groups   []string `json:"groups,omitempty"`
	Portion  string   `json:"portion,omitempty"`
	Backoff  *int32   `json:"backoffLimit,omitempty"`
	Phase    string   `json:"phase,omitempty"` // Pending | Failed | Succeeded
	Attempts int32    `json:"failedAttempts,omitempty"`
}

func BuildRequest(ps PodShape, rs ReqShape) *schedulingv1alpha2.BindRequest {
	br := &schedulingv1alpha2.BindRequest{
		ObjectMeta: metav1.ObjectMeta{Name: ps.Name, Namespace: ps.NS, UID: types.UID("uid-br-" + ps.Name),
			Labels: map[string]string{"pod-name": ps.Name, "selected-node": rs.Node}},
		Spec:   schedulingv1alpha2.BindRequestSpec{PodName: ps.Name, SelectedNode: rs.Node, BackoffLimit: rs.Backoff},
		Status: schedulingv1alpha2.BindRequestStatus{Phase: rs.Phase, FailedAttempts: rs.Attempts},
	}
	if br.Status.Phase == "" {
		br.Status.Phase = schedulingv1alpha2.BindRequestPhasePending
	}
	if br.Status.Phase == schedulingv1alpha2.BindRequestPhaseFailed {
		br.Status.Reason = "earlier attempt failed"
	}
	if ps.Sharing() {
		br.Spec.ReceivedResourceType = "Fraction"
		br.Spec.SelectedGPUGroups = append([]string(nil), rs.Groups...)
		br.Spec.ReceivedGPU = &schedulingv1alpha2.ReceivedGPU{Count: len(rs.Groups), Portion: rs.Portion}
	} else {
		br.Spec.ReceivedResourceType = "Regular"
		if ps.Kind == "whole" {
			br.Spec.ReceivedGPU = &schedulingv1alpha2.ReceivedGPU{Count: max(ps.WholeGPUs, 1), Portion: "1"}
		}
	}
	for i := 0; i < ps.Claims; i++ {
		br.Spec.ResourceClaimAllocations = append(br.Spec.ResourceClaimAllocations, schedulingv1alpha2.ResourceClaimAllocation{
			Name: fmt.Sprintf("rc%d", i),
			Allocation: &resourceapi.AllocationResult{Devices: resourceapi.DeviceAllocationResult{Results: []resourceapi.DeviceRequestAllocationResult{
				{Request: "gpu", Driver: "gpu.example.com", Pool: rs.Node, Device: fmt.Sprintf("dev-%d", i)},
			}}},
		})
	}
	return br
}

func BuildClaim(ps PodShape, i int) *resourceapi.ResourceClaim {
	return &resourceapi.ResourceClaim{
		ObjectMeta: metav1.ObjectMeta{Name: ps.ClaimName(i), Namespace: ps.NS, UID: types.UID("uid-" + ps.ClaimName(i))},
		Spec: resourceapi.ResourceClaimSpec{Devices: resourceapi.DeviceClaim{Requests: []resourceapi.DeviceRequest{
			{Name: "gpu", Exactly: &resourceapi.ExactDeviceRequest{DeviceClassName: "gpu.example.com", AllocationMode: resourceapi.DeviceAllocationModeExactCount, Count: 1}},
		}}},
	}
}

func BuildNode(name string) *v1.Node {
	return &v1.Node{TypeMeta: metav1.TypeMeta{Kind: "Node", APIVersion: "v1"}, ObjectMeta: metav1.ObjectMeta{Name: name, Labels: map[string]string{"nvidia.com/gpu.count": "8"}}}
}

// BuildReservationPod renders a reservation pod the way the service creates it, already reporting idx.
func BuildReservationPod(node, group string, idx int) *v1.Pod {
	return &v1.Pod{
		TypeMeta: metav1.TypeMeta{Kind: "Pod", APIVersion: "v1"},
		ObjectMeta: metav1.ObjectMeta{Name: fmt.Sprintf("gpu-reservation-%s-pre%s", node, group), Namespace: ReservationNS, UID: types.UID("uid-res-" + group),
			Labels:      map[string]string{constants.AppLabelName: ReservationNS, constants.GPUGroup: group},
			Annotations: map[string]string{IndexAnnotation: fmt.Sprint(idx)}},
		Spec:   v1.PodSpec{NodeName: node, Containers: []v1.Container{{Name: "resource-reservation", Image: "img"}}},
		Status: v1.PodStatus{Phase: v1.PodRunning},
	}
}

// ---------------------------------------------------------------------------------------------
// observation

type ResPod struct {
	Name  string `json:"name"`
	Group string `json:"group"`
	Node  string `json:"node"`
	Index string `json:"index"`
	UID   string `json:"uid,omitempty"`
}

type PodView struct {
	Name      string            `json:"name"`
	NS        string            `json:"ns"`
	UID       string            `json:"uid"`
	Node      string            `json:"node,omitempty"`
	Phase     string            `json:"phase"`
	Groups    []string          `json:"groups,omitempty"` // groups carried through either label form (sorted)
	Single    string            `json:"single,omitempty"` // value of runai-gpu-group
	Multi     []string          `json:"multi,omitempty"`  // groups carried as runai-gpu-group/<g> (sorted)
	BadLabels []string          `json:"badLabels,omitempty"`
	Ann       map[string]string `json:"ann,omitempty"`
	Deleting  bool              `json:"deleting,omitempty"`
}

type ReqView struct {
	Exists   bool   `json:"exists"`
	Phase    string `json:"phase,omitempty"`
	Reason   string `json:"reason,omitempty"`
	Attempts int32  `json:"attempts,omitempty"`
}

type ClaimView struct {
	ReservedFor []string `json:"reservedFor,omitempty"` // consumer UIDs
	Allocated   bool     `json:"allocated,omitempty"`
}

// Snapshot is what an oracle may look at: the API store through the harness' own client.
type Snapshot struct {
	Pods         map[string]PodView           `json:"pods"`         // workload pods by ns/name
	Reservations []ResPod                     `json:"reservations"` // sorted by group, name
	ConfigMaps   map[string]map[string]string `json:"configMaps"`   // ns/name -> data
	CMOwners     map[string][]string          `json:"cmOwners,omitempty"`
	Requests     map[string]ReqView           `json:"requests"`
	Claims       map[string]ClaimView         `json:"claims,omitempty"`
}

// ViewPod renders the oracle's view of a pod.
func ViewPod(p *v1.Pod) PodView {
	v := PodView{Name: p.Name, NS: p.Namespace, UID: string(p.UID), Node: p.Spec.NodeName, Phase: string(p.Status.Phase), Deleting: p.DeletionTimestamp != nil}
	set := map[string]bool{}
	for k, val := range p.Labels {
		if k == constants.GPUGroup {
			v.Single = val
			set[val] = true
		} else if strings.HasPrefix(k, constants.MultiGpuGroupLabelPrefix) {
			g := strings.TrimPrefix(k, constants.MultiGpuGroupLabelPrefix)
			v.Multi = append(v.Multi, g)
			set[g] = true
			if val != g {
				v.BadLabels = append(v.BadLabels, k+"="+val)
			}
		}
	}
	sort.Strings(v.Multi)
	for g := range set {
		v.Groups = append(v.Groups, g)
	}
	sort.Strings(v.Groups)
	v.Ann = map[string]string{}
	for _, k := range []string{constants.ReceivedResourceType} {
		if x, ok := p.Annotations[k]; ok {
			v.Ann[k] = x
		}
	}
	return v
}

func (s *Sim) Snapshot() *Snapshot {
	ctx := context.Background()
	sn := &Snapshot{Pods: map[string]PodView{}, ConfigMaps: map[string]map[string]string{}, CMOwners: map[string][]string{}, Requests: map[string]ReqView{}, Claims: map[string]ClaimView{}}
	pods := &v1.PodList{}
	must(s.Base.List(ctx, pods))
	for i := range pods.Items {
		p := &pods.Items[i]
		if p.Namespace == ReservationNS {
			sn.Reservations = append(sn.Reservations, ResPod{Name: p.Name, Group: p.Labels[constants.GPUGroup], Node: p.Spec.NodeName, Index: p.Annotations[IndexAnnotation], UID: string(p.UID)})
			continue
		}
		if p.Namespace == ScalingNS {
			continue
		}
		sn.Pods[p.Namespace+"/"+p.Name] = ViewPod(p)
	}
	sort.Slice(sn.Reservations, func(i, j int) bool {
		a, b := sn.Reservations[i], sn.Reservations[j]
		if a.Group != b.Group {
			return a.Group < b.Group
		}
		return a.Name < b.Name
	})
	cms := &v1.ConfigMapList{}
	must(s.Base.List(ctx, cms))
	for _, cm := range cms.Items {
		d := map[string]string{}
		for k, v := range cm.Data {
			d[k] = v
		}
		sn.ConfigMaps[cm.Namespace+"/"+cm.Name] = d
		for _, o := range cm.OwnerReferences {
			sn.CMOwners[cm.Namespace+"/"+cm.Name] = append(sn.CMOwners[cm.Namespace+"/"+cm.Name], string(o.UID))
		}
	}
	brs := &schedulingv1alpha2.BindRequestList{}
	must(s.Base.List(ctx, brs))
	for _, br := range brs.Items {
		sn.Requests[br.Namespace+"/"+br.Name] = ReqView{Exists: true, Phase: br.Status.Phase, Reason: br.Status.Reason, Attempts: br.Status.FailedAttempts}
	}
	claims, err := s.Kube.Tracker().List(resourceapi.SchemeGroupVersion.WithResource("resourceclaims"), resourceapi.SchemeGroupVersion.WithKind("ResourceClaim"), "")
	if err == nil {
		if l, ok := claims.(*resourceapi.ResourceClaimList); ok {
			for _, c := range l.Items {
				cv := ClaimView{Allocated: c.Status.Allocation != nil}
				for _, r := range c.Status.ReservedFor {
					cv.ReservedFor = append(cv.ReservedFor, string(r.UID))
				}
				sn.Claims[c.Namespace+"/"+c.Name] = cv
			}
		}
	}
	return sn
}

// ReservationsOf returns the reservation pods of group g.
func (sn *Snapshot) ReservationsOf(g string) []ResPod {
	var out []ResPod
	for _, r := range sn.Reservations {
		if r.Group == g {
			out = append(out, r)
		}
	}
	return out
}

// LiveCarriers returns the workload pods in phase Pending or Running that carry group g (sorted keys).
func (sn *Snapshot) LiveCarriers(g string) []string {
	var out []string
	for _, k := range SortedKeys(sn.Pods) {
		p := sn.Pods[k]
		if p.Phase != string(v1.PodPending) && p.Phase != string(v1.PodRunning) {
			continue
		}
		for _, x := range p.Groups {
			if x == g {
				out = append(out, k)
			}
		}
	}
	return out
}

// AllGroups returns every group named by a reservation pod or a workload pod label (sorted).
func (sn *Snapshot) AllGroups() []string {
	set := map[string]bool{}
	for _, r := range sn.Reservations {
		set[r.Group] = true
	}
	for _, p := range sn.Pods {
		for _, g := range p.Groups {
			set[g] = true
		}
	}
	return SortedKeys(set)
}

var _ = client.ObjectKey{}

// LiveCarriersExcept is LiveCarriers without pod key except.
func (sn *Snapshot) LiveCarriersExcept(g, except string) []string {
	var out []string
	for _, k := range sn.LiveCarriers(g) {
		if k != except {
			out = append(out, k)
		}
	}
	return out
}

// FractionContainer returns the container the GPU fraction is given to (docs/gpu-sharing: the first
// container unless gpu-fraction-container-name names another regular or init container).
func FractionContainer(pod *v1.Pod) *v1.Container {
	name, ok := pod.Annotations[constants.GpuFractionContainerName]
	if !ok {
		if len(pod.Spec.Containers) == 0 {
			return nil
		}
		return &pod.Spec.Containers[0]
	}
	for i := range pod.Spec.InitContainers {
		if pod.Spec.InitContainers[i].Name == name {
			return &pod.Spec.InitContainers[i]
		}
	}
	for i := range pod.Spec.Containers {
		if pod.Spec.Containers[i].Name == name {
			return &pod.Spec.Containers[i]
		}
	}
	return nil
}

// EffectiveEnv is a kubelet model: the environment the container would get from its envFrom / env
// ConfigMap references, given the ConfigMaps of the snapshot. missing lists non-optional references
// that cannot be resolved (the container would not start).
func EffectiveEnv(pod *v1.Pod, ctr *v1.Container, sn *Snapshot) (env map[string]string, missing []string) {
	env = map[string]string{}
	for _, ef := range ctr.EnvFrom {
		if ef.ConfigMapRef == nil {
			continue
		}
		d, ok := sn.ConfigMaps[pod.Namespace+"/"+ef.ConfigMapRef.Name]
		if !ok {
			if ef.ConfigMapRef.Optional == nil || !*ef.ConfigMapRef.Optional {
				missing = append(missing, ef.ConfigMapRef.Name)
			}
			continue
		}
		for k, v := range d {
			env[k] = v
		}
	}
	for _, e := range ctr.Env {
		if e.ValueFrom == nil {
			env[e.Name] = e.Value
			continue
		}
		if r := e.ValueFrom.ConfigMapKeyRef; r != nil {
			d, ok := sn.ConfigMaps[pod.Namespace+"/"+r.Name]
			if !ok {
				if r.Optional == nil || !*r.Optional {
					missing = append(missing, r.Name)
				}
				continue
			}
			if v, ok := d[r.Key]; ok {
				env[e.Name] = v
			} else if (r.Optional == nil || !*r.Optional) && (e.Name == constants.NvidiaVisibleDevices || e.Name == "GPU_PORTION") {
				missing = append(missing, r.Name+"["+r.Key+"]")
			}
		}
	}
	return env, missing
}
