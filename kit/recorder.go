// Package verifkit is the shared runtime of the /verif checks: seeds and budgets, evidence
// counters, replay files, rapid glue. It is compiled into /repo's module through -overlay
// (virtual path /repo/zz_verif/verifkit) and never written into the repository.
package verifkit

import (
	"crypto/sha256"
	"encoding/hex"
	"encoding/json"
	"flag"
	"fmt"
	"os"
	"path/filepath"
	"sort"
	"strconv"
	"sync"
	"testing"

	"pgregory.net/rapid"
)

// Env is what the driver (bin/check) passes to every shard process.
type Env struct {
	Tier    string // quick | thorough
	Seed    uint64 // VERIF_SEED (property-level seed)
	Shard   int
	NShards int
	Out     string // summary file of this shard
	Found   string // directory for replay files of violations found by search
	Replay  string // replay file (replay mode)
	Scale   float64
}

var env = func() Env {
	e := Env{Tier: "quick", Seed: 1, NShards: 1, Scale: 1}
	if v := os.Getenv("VERIF_TIER"); v != "" {
		e.Tier = v
	}
	if v, err := strconv.ParseUint(os.Getenv("VERIF_SEED"), 10, 64); err == nil {
		e.Seed = v
	}
	if v, err := strconv.Atoi(os.Getenv("VERIF_SHARD")); err == nil {
		e.Shard = v
	}
	if v, err := strconv.Atoi(os.Getenv("VERIF_NSHARDS")); err == nil && v > 0 {
		e.NShards = v
	}
	if v, err := strconv.ParseFloat(os.Getenv("VERIF_SCALE"), 64); err == nil && v > 0 {
		e.Scale = v
	}
	e.Out = os.Getenv("VERIF_OUT")
	e.Found = os.Getenv("VERIF_FOUND")
	if e.Found == "" {
		e.Found = "/verif/replays/found"
	}
	e.Replay = os.Getenv("VERIF_REPLAY")
	return e
}()

func GetEnv() Env { return env }

// Thorough reports whether the thorough tier was requested.
func Thorough() bool { return env.Tier == "thorough" }

// ShardSeed derives the rapid seed of this shard for sub-test k; never 0 (0 means random in rapid).
func ShardSeed(k int) uint64 {
	h := sha256.Sum256([]byte(fmt.Sprintf("%d/%d/%d", env.Seed, env.Shard, k)))
	var s uint64
	for i := 0; i < 8; i++ {
		s = s<<8 | uint64(h[i])
	}
	s &= 0x7fffffffffffffff
	if s == 0 {
		s = 1
	}
	return s
}

// Budget is a case count per tier for the whole check (all shards together).
type Budget struct{ Quick, Thorough int }

func (b Budget) perShard() int {
	n := b.Quick
	if Thorough() {
		n = b.Thorough
	}
	n = int(float64(n) * env.Scale)
	n = (n + env.NShards - 1) / env.NShards
	if n < 1 {
		n = 1
	}
	return n
}

// N returns the per-shard share of the budget (for hand-written loops).
func (b Budget) N() int { return b.perShard() }

var subTest int

// Run executes prop under rapid with this shard's share of the budget and a seed derived from
// VERIF_SEED. All randomness of a check must come from the *rapid.T it is given.
func Run(t *testing.T, b Budget, prop func(*rapid.T)) {
	subTest++
	must(flag.Set("rapid.checks", strconv.Itoa(b.perShard())))
	must(flag.Set("rapid.seed", strconv.FormatUint(ShardSeed(subTest), 10)))
	must(flag.Set("rapid.nofailfile", "true"))
	if os.Getenv("VERIF_SHRINKTIME") != "" {
		must(flag.Set("rapid.shrinktime", os.Getenv("VERIF_SHRINKTIME")))
	}
	rapid.Check(t, prop)
}

func must(err error) {
	if err != nil {
		panic(err)
	}
}

// ---------------------------------------------------------------------------------------------
// evidence counters

type ViolationRec struct {
	Property  string `json:"property"`
	Signature string `json:"signature"`
	Message   string `json:"message"`
	Replay    string `json:"replay"`
}

type Summary struct {
	Shard        int              `json:"shard"`
	Evaluations  int64            `json:"evaluations"`
	Nontrivial   int64            `json:"nontrivial"`
	Classes      map[string]int64 `json:"classes"`
	Notes        map[string]int64 `json:"notes"`
	Samples      []any            `json:"samples"`
	Hashes       []string         `json:"hashes"`
	HashesCapped bool             `json:"hashes_capped"`
	Violations   []ViolationRec   `json:"violations"`
	KnownHits    map[string]int64 `json:"known_hits"`
	Inconclusive int64            `json:"inconclusive"`
	Complete     bool             `json:"complete"`
}

const maxHashes = 400000
const maxSamples = 4

var (
	mu     sync.Mutex
	sum    = Summary{Classes: map[string]int64{}, Notes: map[string]int64{}, KnownHits: map[string]int64{}}
	hashes = map[uint64]struct{}{}
	vios   = map[string]ViolationRec{}
)

func hash64(s string) uint64 {
	h := sha256.Sum256([]byte(s))
	var x uint64
	for i := 0; i < 8; i++ {
		x = x<<8 | uint64(h[i])
	}
	return x
}

// Eval records one evaluated case. key is a canonical rendering of the case (used only to count
// distinct non-trivial cases); classes are free-form labels for the distribution histogram.
func Eval(key string, nontrivial bool, classes ...string) {
	mu.Lock()
	defer mu.Unlock()
	sum.Evaluations++
	for _, c := range classes {
		sum.Classes[c]++
	}
	if nontrivial {
		sum.Nontrivial++
		if len(hashes) < maxHashes {
			hashes[hash64(key)] = struct{}{}
		} else {
			sum.HashesCapped = true
		}
	}
}

// Class bumps histogram labels without counting an evaluation.
func Class(classes ...string) {
	mu.Lock()
	defer mu.Unlock()
	for _, c := range classes {
		sum.Classes[c]++
	}
}

// Note bumps a free-form counter reported under coverage.notes (excluded cases, inconclusive...).
func Note(name string, n int64) {
	mu.Lock()
	defer mu.Unlock()
	sum.Notes[name] += n
}

func Inconclusive() {
	mu.Lock()
	defer mu.Unlock()
	sum.Inconclusive++
}

// known findings (committed file, never written at run time): property -> signature set
var knownSigs = func() map[string]map[string]bool {
	out := map[string]map[string]bool{}
	dir := os.Getenv("VERIF_DIR")
	if dir == "" {
		dir = "/verif"
	}
	b, err := os.ReadFile(filepath.Join(dir, "known_findings.json"))
	if err != nil {
		return out
	}
	var f struct {
		Known []struct {
			Property  string `json:"property"`
			Signature string `json:"signature"`
		} `json:"known"`
	}
	if json.Unmarshal(b, &f) != nil {
		return out
	}
	for _, k := range f.Known {
		if out[k.Property] == nil {
			out[k.Property] = map[string]bool{}
		}
		out[k.Property][k.Signature] = true
	}
	return out
}()

// Known reports whether (property, signature) is a listed known finding. A search that meets one counts it
// (so the driver can print the KNOWN-FINDING line) and goes on instead of stopping at it.
func Known(property, signature string) bool {
	if !knownSigs[property][signature] {
		return false
	}
	mu.Lock()
	sum.KnownHits[signature]++
	mu.Unlock()
	return true
}

// WantSample tells whether another written-out sample is still wanted.
func WantSample() bool {
	mu.Lock()
	defer mu.Unlock()
	return len(sum.Samples) < maxSamples
}

func Sample(v any) {
	mu.Lock()
	defer mu.Unlock()
	if len(sum.Samples) < maxSamples {
		sum.Samples = append(sum.Samples, v)
	}
}

// ReplayFile is the self-contained description of one failing (or regression) case.
type ReplayFile struct {
	Property  string          `json:"property"`
	Signature string          `json:"signature"`
	Message   string          `json:"message,omitempty"`
	Expect    string          `json:"expect,omitempty"` // "" / "pass": must hold; "known": listed finding
	Case      json.RawMessage `json:"case"`
	Trace     any             `json:"trace,omitempty"`
}

// Violation saves the case as a replay file (overwriting the previous file of the same signature
// and shard, so that after rapid's shrinking the file holds the minimal case) and records it.
// It returns the path; the caller then fails the rapid property.
func Violation(property, signature, message string, c any, trace any) string {
	raw, err := json.Marshal(c)
	if err != nil {
		raw = []byte(fmt.Sprintf("%q", fmt.Sprint(c)))
	}
	mu.Lock()
	defer mu.Unlock()
	_ = os.MkdirAll(env.Found, 0o755)
	name := fmt.Sprintf("%s-%s-s%d.json", property, sanitize(signature), env.Shard)
	path := filepath.Join(env.Found, name)
	rf := ReplayFile{Property: property, Signature: signature, Message: message, Case: raw, Trace: trace}
	b, _ := json.MarshalIndent(rf, "", " ")
	_ = os.WriteFile(path, b, 0o644)
	vios[name] = ViolationRec{Property: property, Signature: signature, Message: message, Replay: path}
	flushLocked(false)
	return path
}

func sanitize(s string) string {
	out := make([]rune, 0, len(s))
	for _, r := range s {
		if (r >= 'a' && r <= 'z') || (r >= 'A' && r <= 'Z') || (r >= '0' && r <= '9') || r == '-' || r == '_' {
			out = append(out, r)
		} else {
			out = append(out, '_')
		}
	}
	if len(out) > 60 {
		out = out[:60]
	}
	return string(out)
}

func flushLocked(complete bool) {
	if env.Out == "" || env.Replay != "" {
		return
	}
	sum.Shard = env.Shard
	sum.Complete = complete
	sum.Hashes = sum.Hashes[:0]
	for h := range hashes {
		sum.Hashes = append(sum.Hashes, strconv.FormatUint(h, 16))
	}
	sort.Strings(sum.Hashes)
	sum.Violations = sum.Violations[:0]
	names := make([]string, 0, len(vios))
	for n := range vios {
		names = append(names, n)
	}
	sort.Strings(names)
	for _, n := range names {
		sum.Violations = append(sum.Violations, vios[n])
	}
	b, err := json.Marshal(&sum)
	if err != nil {
		b = []byte(fmt.Sprintf(`{"shard":%d,"error":%q}`, env.Shard, err.Error()))
	}
	tmp := env.Out + ".tmp"
	if os.WriteFile(tmp, b, 0o644) == nil {
		_ = os.Rename(tmp, env.Out)
	}
}

// Flush writes the shard summary; call it from TestMain after m.Run().
func Flush() {
	mu.Lock()
	defer mu.Unlock()
	flushLocked(true)
}

// Main is the TestMain body shared by all check packages.
func Main(m *testing.M) {
	code := m.Run()
	Flush()
	os.Exit(code)
}

// HexKey is a convenience for building case keys from arbitrary JSON-able values.
func HexKey(v any) string {
	b, _ := json.Marshal(v)
	h := sha256.Sum256(b)
	return hex.EncodeToString(h[:12])
}

// ---------------------------------------------------------------------------------------------
// replay mode

// ReplayResult is what a check's replay function reports for one saved case.
type ReplayResult struct {
	Violated  bool
	Signature string
	Message   string
	Runs      int // executions performed (nondeterministic SUT: >1)
	Bad       int // executions that violated
}

// ReplayMain implements `TestReplay`: it loads VERIF_REPLAY, runs fn on the saved case and writes
// the verdict to VERIF_OUT as JSON. A violated replay fails the test.
func ReplayMain(t *testing.T, fn func(rf *ReplayFile) ReplayResult) {
	if env.Replay == "" {
		t.Skip("no VERIF_REPLAY")
	}
	b, err := os.ReadFile(env.Replay)
	if err != nil {
		t.Fatalf("read replay: %v", err)
	}
	var rf ReplayFile
	if err := json.Unmarshal(b, &rf); err != nil {
		t.Fatalf("parse replay: %v", err)
	}
	res := fn(&rf)
	if env.Out != "" {
		out, _ := json.Marshal(map[string]any{
			"replay": env.Replay, "violated": res.Violated, "signature": res.Signature,
			"message": res.Message, "runs": res.Runs, "bad": res.Bad, "property": rf.Property,
		})
		_ = os.WriteFile(env.Out, out, 0o644)
	}
	if res.Violated {
		t.Fatalf("replay %s violates: [%s] %s (%d/%d executions)", env.Replay, res.Signature, res.Message, res.Bad, res.Runs)
	}
}
