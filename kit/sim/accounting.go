package sim

import (
	"fmt"
	"math"
	"sort"
	"strings"

	v1 "k8s.io/api/core/v1"

	"github.com/NVIDIA/KAI-scheduler/pkg/scheduler/api/common_info"
	"github.com/NVIDIA/KAI-scheduler/pkg/scheduler/api/node_info"
	"github.com/NVIDIA/KAI-scheduler/pkg/scheduler/api/pod_info"
	"github.com/NVIDIA/KAI-scheduler/pkg/scheduler/api/pod_status"
	"github.com/NVIDIA/KAI-scheduler/pkg/scheduler/api/podgroup_info"
	"github.com/NVIDIA/KAI-scheduler/pkg/scheduler/api/resource_info"
	"github.com/NVIDIA/KAI-scheduler/pkg/scheduler/framework"
	"github.com/NVIDIA/KAI-scheduler/pkg/scheduler/plugins/proportion"
	putils "github.com/NVIDIA/KAI-scheduler/pkg/scheduler/plugins/proportion/utils"
)

// nopAffinity satisfies NodePodAffinityInfo for from-scratch node rebuilds.
type nopAffinity struct{ name string }

func (nopAffinity) AddPod(*v1.Pod)                   {}
func (nopAffinity) RemovePod(*v1.Pod) error          { return nil }
func (nopAffinity) HasPodsWithPodAffinity() bool     { return false }
func (nopAffinity) HasPodsWithPodAntiAffinity() bool { return false }
func (n nopAffinity) Name() string                   { return n.name }

// vecStr renders a vector canonically: trailing zero entries are dropped (vectors created before the index
// map grew are shorter), -0 is written as 0.
func vecStr(v resource_info.ResourceVector) string {
	n := len(v)
	for n > 0 && math.Abs(v[n-1]) < 1e-9 {
		n--
	}
	parts := make([]string, n)
	for i := 0; i < n; i++ {
		x := v[i]
		if math.Abs(x) < 1e-9 {
			x = 0
		}
		parts[i] = fmt.Sprintf("%.4f", x)
	}
	return "[" + strings.Join(parts, " ") + "]"
}

func vecEq(a, b resource_info.ResourceVector) bool {
	n := len(a)
	if len(b) > n {
		n = len(b)
	}
	for i := 0; i < n; i++ {
		var x, y float64
		if i < len(a) {
			x = a[i]
		}
		if i < len(b) {
			y = b[i]
		}
		if math.Abs(x-y) > 1e-6*math.Max(1, math.Abs(x)) {
			return false
		}
	}
	return true
}

// intMapStr renders a sharing map with zero entries dropped (zero == absent) and optional key renaming.
func intMapStr(m map[string]int64, rename func(string) string) string {
	var items []string
	for k, v := range m {
		if v != 0 {
			items = append(items, fmt.Sprintf("%s=%d", rename(k), v))
		}
	}
	sort.Strings(items)
	return "{" + strings.Join(items, ",") + "}"
}

func boolMapStr(m map[string]bool, rename func(string) string) string {
	var items []string
	for k, v := range m {
		if v {
			items = append(items, rename(k))
		}
	}
	sort.Strings(items)
	return "{" + strings.Join(items, ",") + "}"
}

func ident(s string) string { return s }

// nodeSummary renders the counters of a node (everything C14 speaks about).
func nodeSummary(ni *node_info.NodeInfo, rename func(string) string) string {
	// structured counters are rendered through the vector index map: canonical order, no map iteration
	vm := ni.VectorMap
	return fmt.Sprintf("idle=%s used=%s releasing=%s idleV=%s usedV=%s relV=%s shared{used=%s releasing=%s allocated=%s marked=%s}",
		vecStr(ni.Idle.ToVector(vm)), vecStr(ni.Used.ToVector(vm)), vecStr(ni.Releasing.ToVector(vm)),
		vecStr(ni.IdleVector), vecStr(ni.UsedVector), vecStr(ni.ReleasingVector),
		intMapStr(ni.UsedSharedGPUsMemory, rename), intMapStr(ni.ReleasingSharedGPUsMemory, rename),
		intMapStr(ni.AllocatedSharedGPUsMemory, rename), boolMapStr(ni.ReleasingSharedGPUs, rename))
}

func nodeSummaryMasked(ni *node_info.NodeInfo) string {
	vm := ni.VectorMap
	gpuIdx := vm.GetIndex("gpu")
	mask := func(v resource_info.ResourceVector) resource_info.ResourceVector {
		c := v.Clone()
		if gpuIdx >= 0 && gpuIdx < len(c) {
			c[gpuIdx] = 0
		}
		return c
	}
	return fmt.Sprintf("idle=%s used=%s releasing=%s idleV=%s usedV=%s relV=%s shared{used=%s releasing=%s allocated=%s}",
		vecStr(mask(ni.Idle.ToVector(vm))), vecStr(ni.Used.ToVector(vm)), vecStr(mask(ni.Releasing.ToVector(vm))),
		vecStr(mask(ni.IdleVector)), vecStr(ni.UsedVector), vecStr(mask(ni.ReleasingVector)),
		intMapStr(ni.UsedSharedGPUsMemory, ident), intMapStr(ni.ReleasingSharedGPUsMemory, ident),
		intMapStr(ni.AllocatedSharedGPUsMemory, ident))
}

// Twins: charges a node keeps for pods that were moved, inside a simulation, to a different GPU of the node they
// already occupy. By design (ConsolidateSharedPodInfoToDifferentGPU) the node charges such a pod twice while the
// move is simulated - once for the entry it had (releasing, on its old device), once as the nominee on the new one -
// but its pod table, keyed by pod, can hold only the latest entry. The tracker below keeps the replaced entries:
// node -> pod key -> entries still charged, oldest first.
type Twins map[string]map[common_info.PodID][]*pod_info.PodInfo

// MoveTracker derives the twins from the pod tables themselves: it remembers every table as it was after the
// previous event and looks at how entries changed.
type MoveTracker struct {
	shadow map[string]map[common_info.PodID]*pod_info.PodInfo
	Twins  Twins
}

func NewMoveTracker() *MoveTracker {
	return &MoveTracker{shadow: map[string]map[common_info.PodID]*pod_info.PodInfo{}, Twins: Twins{}}
}

// Count is the number of replaced entries still charged.
func (m *MoveTracker) Count() int {
	n := 0
	for _, byPod := range m.Twins {
		for _, l := range byPod {
			n += len(l)
		}
	}
	return n
}

// Start records the tables of a freshly opened session.
func (m *MoveTracker) Start(ssn *framework.Session) {
	for name, ni := range ssn.ClusterInfo.Nodes {
		sh := map[common_info.PodID]*pod_info.PodInfo{}
		for k, p := range ni.PodInfos {
			sh[k] = p
		}
		m.shadow[name] = sh
	}
}

// Observe is called after every allocate / deallocate event.
func (m *MoveTracker) Observe(ssn *framework.Session, allocate bool) {
	for name, ni := range ssn.ClusterInfo.Nodes {
		sh := m.shadow[name]
		if sh == nil {
			sh = map[common_info.PodID]*pod_info.PodInfo{}
			m.shadow[name] = sh
		}
		for k, cur := range ni.PodInfos {
			prev := sh[k]
			if prev == nil || prev == cur {
				continue
			}
			kept := m.Twins[name][k]
			restored := false
			for i, o := range kept {
				if o == cur {
					// an undone move put the replaced entry back
					m.Twins[name][k] = append(append([]*pod_info.PodInfo{}, kept[:i]...), kept[i+1:]...)
					restored = true
					break
				}
			}
			if restored {
				continue
			}
			if allocate && cur.Status == pod_status.Pipelined && len(prev.GPUGroups) > 0 && cur.IsSharedGPUAllocation() &&
				!sameStrings(prev.GPUGroups, cur.GPUGroups) {
				if m.Twins[name] == nil {
					m.Twins[name] = map[common_info.PodID][]*pod_info.PodInfo{}
				}
				m.Twins[name][k] = append(m.Twins[name][k], prev)
			}
		}
		for k := range sh {
			if _, still := ni.PodInfos[k]; !still {
				delete(sh, k)
			}
		}
		for k, p := range ni.PodInfos {
			sh[k] = p
		}
	}
}

// chargedEntries lists everything the node charges for one pod-table key: replaced entries, then the entry itself.
func chargedEntries(twins Twins, node string, key common_info.PodID, p *pod_info.PodInfo) []*pod_info.PodInfo {
	var l []*pod_info.PodInfo
	if twins != nil {
		l = append(l, twins[node][key]...)
	}
	if p != nil {
		l = append(l, p)
	}
	return l
}

// rebuildNode recomputes a node's counters from scratch: a fresh NodeInfo that receives clones of the node's
// current pods (reservation pods first, as snapshot construction does), in the given name order.
func rebuildNode(ni *node_info.NodeInfo, descending bool, twins Twins) (*node_info.NodeInfo, error) {
	fresh := node_info.NewNodeInfo(ni.Node, nopAffinity{ni.Name}, ni.VectorMap)
	fresh.HasDRAGPUs = ni.HasDRAGPUs
	var resv, others []*pod_info.PodInfo
	for _, p := range ni.PodInfos {
		if pod_info.IsResourceReservationTask(p.Pod) {
			resv = append(resv, p)
		} else {
			others = append(others, p)
		}
	}
	byName := func(l []*pod_info.PodInfo) {
		sort.Slice(l, func(i, j int) bool {
			if descending {
				return l[i].Name > l[j].Name
			}
			return l[i].Name < l[j].Name
		})
	}
	byName(resv)
	byName(others)
	// nominees (pipelined) are only ever added during a session, after all pods of the snapshot: keep that
	// order (the shared-GPU bookkeeping is not meant to be order-independent across it)
	var snapshotPods, nominees []*pod_info.PodInfo
	for _, p := range others {
		if p.Status == pod_status.Pipelined {
			nominees = append(nominees, p)
		} else {
			snapshotPods = append(snapshotPods, p)
		}
	}
	others = append(snapshotPods, nominees...)
	for _, p := range append(resv, others...) {
		for i, e := range chargedEntries(twins, ni.Name, pod_info.PodKey(p.Pod), p) {
			var err error
			if i == 0 {
				err = fresh.AddTask(e.Clone())
			} else {
				err = fresh.ConsolidateSharedPodInfoToDifferentGPU(e.Clone())
			}
			if err != nil {
				return nil, err
			}
		}
	}
	return fresh, nil
}

// Discrepancy is one disagreement between the scheduler's bookkeeping and ground truth.
type Discrepancy struct{ Sig, Msg string }

// CheckAccounting compares what the session believes about nodes, workloads and queues with the values
// recomputed from the pods and their statuses (C14). whole = also rebuild every node from scratch (R1).
func CheckAccounting(ssn *framework.Session, whole bool, twins Twins) []Discrepancy {
	var out []Discrepancy
	add := func(sig, format string, a ...any) {
		if len(out) < 8 {
			out = append(out, Discrepancy{sig, fmt.Sprintf(format, a...)})
		}
	}
	// The pods present on a node, with the status that decides their bucket, are the workloads' own task tables: a
	// task that its workload has on node n as releasing / nominated / occupying must be in n's pod table in the same
	// accounting class (a committed pod stays 'Allocated' in the node's copy while the workload says Binding: same class).
	class := func(st pod_status.PodStatus) string {
		switch {
		case st == pod_status.Releasing:
			return "releasing"
		case st == pod_status.Pipelined:
			return "nominated"
		case pod_status.AllocatedStatus(st):
			return "occupying"
		}
		return ""
	}
	jobIDs := make([]string, 0, len(ssn.ClusterInfo.PodGroupInfos))
	for id := range ssn.ClusterInfo.PodGroupInfos {
		jobIDs = append(jobIDs, string(id))
	}
	sort.Strings(jobIDs)
	for _, id := range jobIDs {
		job := ssn.ClusterInfo.PodGroupInfos[common_info.PodGroupID(id)]
		for _, t := range job.GetAllPodsMap() {
			want := class(t.Status)
			if want == "" || t.NodeName == "" {
				continue
			}
			ni := ssn.ClusterInfo.Nodes[t.NodeName]
			if ni == nil {
				continue // node outside the snapshot (other pool, deleted)
			}
			e := ni.PodInfos[pod_info.PodKey(t.Pod)]
			if e == nil {
				add("node-pod-table-misses-task", "task %s is %v on node %s for its workload, the node's pod table has no entry for it", t.Name, t.Status, t.NodeName)
			} else if got := class(e.Status); got != want {
				add("node-pod-table-status-differs-from-task", "task %s is %v on node %s for its workload, the node's pod table has it as %v", t.Name, t.Status, t.NodeName, e.Status)
			}
		}
	}
	vm := ssn.ClusterInfo.ResourceVectorMap
	nodeNames := make([]string, 0, len(ssn.ClusterInfo.Nodes))
	for n := range ssn.ClusterInfo.Nodes {
		nodeNames = append(nodeNames, n)
	}
	sort.Strings(nodeNames)
	for _, n := range nodeNames {
		ni := ssn.ClusterInfo.Nodes[n]
		// vector == structured
		for _, pair := range []struct {
			name string
			r    *resource_info.Resource
			v    resource_info.ResourceVector
		}{{"idle", ni.Idle, ni.IdleVector}, {"used", ni.Used, ni.UsedVector}, {"releasing", ni.Releasing, ni.ReleasingVector}, {"allocatable", ni.Allocatable, ni.AllocatableVector}} {
			if !vecEq(pair.r.ToVector(vm), pair.v) {
				add("node-vector-differs-from-structured", "node %s %s: structured %s vs vector %s", n, pair.name, pair.r.DetailedString(), vecStr(pair.v))
			}
		}
		// R2: independent fold for the non-GPU resources (documented status semantics):
		// Used = sum over all pods, Idle = Allocatable - sum over non-pipelined, Releasing = sum(releasing) - sum(pipelined)
		used, nonPipelined, rel := resource_info.EmptyResource(), resource_info.EmptyResource(), resource_info.EmptyResource()
		var table []*pod_info.PodInfo
		for k, p := range ni.PodInfos {
			table = append(table, chargedEntries(twins, n, k, p)...)
		}
		for _, p := range table {
			r := resource_info.EmptyResource()
			r.BaseResource = *p.AcceptedResource.BaseResource.Clone()
			used.Add(r)
			switch p.Status {
			case pod_status.Pipelined:
				rel.Sub(r)
			case pod_status.Releasing:
				rel.Add(r)
				nonPipelined.Add(r)
			default:
				nonPipelined.Add(r)
			}
		}
		for _, rn := range []v1.ResourceName{v1.ResourceCPU, v1.ResourceMemory, v1.ResourcePods} {
			near := func(a, b float64) bool { return math.Abs(a-b) <= 1e-6*math.Max(1, math.Abs(a)) }
			if !near(ni.Used.Get(rn), used.Get(rn)) {
				add("node-used-differs-from-pods", "node %s %s: Used %v but its pods sum to %v; pods: %s", n, rn, ni.Used.Get(rn), used.Get(rn), podsDetail(ni, rn))
			}
			if !near(ni.Idle.Get(rn), ni.Allocatable.Get(rn)-nonPipelined.Get(rn)) {
				add("node-idle-differs-from-pods", "node %s %s: Idle %v but allocatable %v - non-pipelined pods %v = %v", n, rn, ni.Idle.Get(rn), ni.Allocatable.Get(rn), nonPipelined.Get(rn), ni.Allocatable.Get(rn)-nonPipelined.Get(rn))
			}
			if !near(ni.Releasing.Get(rn), rel.Get(rn)) {
				add("node-releasing-differs-from-pods", "node %s %s: Releasing %v but releasing - pipelined pods = %v", n, rn, ni.Releasing.Get(rn), rel.Get(rn))
			}
		}
		if whole {
			// R1: path independence - the incrementally maintained counters equal a from-scratch rebuild
			for _, desc := range []bool{false, true} {
				fresh, err := rebuildNode(ni, desc, twins)
				if err != nil {
					add("node-rebuild-failed", "node %s: %v", n, err)
					continue
				}
				order := map[bool]string{false: "ascending", true: "descending"}[desc]
				gpuIdx := vm.GetIndex("gpu")
				split := func(v resource_info.ResourceVector) (resource_info.ResourceVector, float64) {
					c := v.Clone()
					g := 0.0
					if gpuIdx >= 0 && gpuIdx < len(c) {
						g = c[gpuIdx]
						c[gpuIdx] = 0
					}
					return c, g
				}
				for _, cmp := range []struct {
					name       string
					have, want *resource_info.Resource
				}{{"idle", ni.Idle, fresh.Idle}, {"used", ni.Used, fresh.Used}, {"releasing", ni.Releasing, fresh.Releasing}} {
					hb, hg := split(cmp.have.ToVector(vm))
					wb, wg := split(cmp.want.ToVector(vm))
					if !vecEq(hb, wb) {
						add("node-base-counters-differ-from-rebuild", "node %s %s (cpu/memory/pods/extended), rebuild in %s name order: session %s vs rebuilt %s; pods: %s", n, cmp.name, order, vecStr(hb), vecStr(wb), podsStr(ni))
					}
					if math.Abs(hg-wg) > 1e-6 {
						add("node-whole-gpu-counter-differs-from-rebuild", "node %s %s whole GPUs, rebuild in %s name order: session %v vs rebuilt %v; session %s | rebuilt %s; pods: %s", n, cmp.name, order, hg, wg, nodeSummary(ni, ident), nodeSummary(fresh, ident), podsStr(ni))
					}
				}
				hs := fmt.Sprintf("used=%s releasing=%s allocated=%s", intMapStr(ni.UsedSharedGPUsMemory, ident), intMapStr(ni.ReleasingSharedGPUsMemory, ident), intMapStr(ni.AllocatedSharedGPUsMemory, ident))
				ws := fmt.Sprintf("used=%s releasing=%s allocated=%s", intMapStr(fresh.UsedSharedGPUsMemory, ident), intMapStr(fresh.ReleasingSharedGPUsMemory, ident), intMapStr(fresh.AllocatedSharedGPUsMemory, ident))
				// the "this shared GPU counts as a releasing whole GPU" marker belongs to the whole-GPU bookkeeping
				if hm, wm := boolMapStr(ni.ReleasingSharedGPUs, ident), boolMapStr(fresh.ReleasingSharedGPUs, ident); hm != wm {
					add("node-whole-gpu-counter-differs-from-rebuild", "node %s releasing-GPU markers, rebuild in %s name order: session %s vs rebuilt %s; pods: %s", n, order, hm, wm, podsStr(ni))
				}
				if hs != ws {
					add("node-shared-gpu-memory-differs-from-rebuild", "node %s, rebuild in %s name order: session %s vs rebuilt %s; pods: %s", n, order, hs, ws, podsStr(ni))
				}
			}
		}
	}
	// workloads
	type qsum struct{ all, np [3]float64 }
	perQueue := map[common_info.QueueID]*qsum{}
	for _, id := range jobIDs {
		job := ssn.ClusterInfo.PodGroupInfos[common_info.PodGroupID(id)]
		alloc := resource_info.EmptyResource()
		statusCount := map[pod_status.PodStatus]int{}
		activeAllocated := 0
		for _, t := range job.GetAllPodsMap() {
			statusCount[t.Status]++
			if pod_status.AllocatedStatus(t.Status) {
				alloc.AddResourceRequirements(t.ResReq)
			}
			if pod_status.IsActiveAllocatedStatus(t.Status) {
				activeAllocated++
				q := perQueue[job.Queue]
				if q == nil {
					q = &qsum{}
					perQueue[job.Queue] = q
				}
				rq := putils.QuantifyResourceRequirements(t.AcceptedResource)
				c := [3]float64{rq["CPU"], rq["Memory"], rq["GPU"]}
				for r := 0; r < 3; r++ {
					q.all[r] += c[r]
					if !job.IsPreemptibleJob() {
						q.np[r] += c[r]
					}
				}
			}
		}
		if a, b := alloc.DetailedString(), job.Allocated.DetailedString(); a != b && !vecEq(alloc.ToVector(vm), job.Allocated.ToVector(vm)) {
			add("job-allocated-differs-from-pods", "workload %s: Allocated %s but its allocated pods sum to %s", id, b, a)
		}
		if !vecEq(job.Allocated.ToVector(vm), job.AllocatedVector) {
			add("job-vector-differs-from-structured", "workload %s: Allocated %s vs vector %s", id, job.Allocated.DetailedString(), vecStr(job.AllocatedVector))
		}
		for st, tasks := range job.PodStatusIndex {
			if len(tasks) != statusCount[st] {
				add("job-status-index-differs", "workload %s: status index holds %d pods in status %v, the pods themselves: %d", id, len(tasks), st, statusCount[st])
			}
			for _, t := range tasks {
				if t.Status != st {
					add("job-status-index-differs", "workload %s: pod %s indexed under %v but is %v", id, t.Name, st, t.Status)
				}
			}
		}
		for st, nPods := range statusCount {
			if len(job.PodStatusIndex[st]) != nPods {
				add("job-status-index-differs", "workload %s: %d pods are %v, the index holds %d", id, nPods, st, len(job.PodStatusIndex[st]))
			}
		}
		if got := job.GetActiveAllocatedTasksCount(); got != activeAllocated {
			add("job-active-allocated-count-differs", "workload %s: active-allocated counter %d, recount %d", id, got, activeAllocated)
		}
		for name, ps := range job.PodSets {
			aa, au, al := 0, 0, 0
			for _, t := range ps.GetPodInfos() {
				if pod_status.IsActiveAllocatedStatus(t.Status) {
					aa++
				}
				if pod_status.IsActiveUsedStatus(t.Status) {
					au++
				}
				if pod_status.IsAliveStatus(t.Status) {
					al++
				}
			}
			if ps.GetNumActiveAllocatedTasks() != aa || ps.GetNumActiveUsedTasks() != au || ps.GetNumAliveTasks() != al {
				add("podset-counters-differ", "workload %s pod set %q: counters active-allocated/active-used/alive = %d/%d/%d, recount %d/%d/%d",
					id, name, ps.GetNumActiveAllocatedTasks(), ps.GetNumActiveUsedTasks(), ps.GetNumAliveTasks(), aa, au, al)
			}
		}
	}
	// queues, at every level
	if qattrs := proportion.VerifQueues(framework.VerifPlugin(ssn, "proportion")); qattrs != nil {
		want := map[common_info.QueueID]*qsum{}
		for leaf, s := range perQueue {
			seen := map[common_info.QueueID]bool{}
			for q, ok := qattrs[leaf]; ok && !seen[q.UID]; q, ok = qattrs[q.ParentQueue] {
				seen[q.UID] = true
				w := want[q.UID]
				if w == nil {
					w = &qsum{}
					want[q.UID] = w
				}
				for r := 0; r < 3; r++ {
					w.all[r] += s.all[r]
					w.np[r] += s.np[r]
				}
			}
		}
		ids := make([]string, 0, len(qattrs))
		for id := range qattrs {
			ids = append(ids, string(id))
		}
		sort.Strings(ids)
		for _, id := range ids {
			qa := qattrs[common_info.QueueID(id)]
			w := want[qa.UID]
			if w == nil {
				w = &qsum{}
			}
			got := [3]float64{qa.CPU.Allocated, qa.Memory.Allocated, qa.GPU.Allocated}
			gotNP := [3]float64{qa.CPU.AllocatedNotPreemptible, qa.Memory.AllocatedNotPreemptible, qa.GPU.AllocatedNotPreemptible}
			for r := 0; r < 3; r++ {
				if math.Abs(got[r]-w.all[r]) > 1e-6*math.Max(1, math.Abs(w.all[r])) {
					add("queue-allocated-differs-from-pods", "queue %s %s: Allocated %v but its active pods sum to %v", id, ResNames[r], got[r], w.all[r])
				}
				if math.Abs(gotNP[r]-w.np[r]) > 1e-6*math.Max(1, math.Abs(w.np[r])) {
					add("queue-non-preemptible-differs-from-pods", "queue %s %s: AllocatedNotPreemptible %v but its non-preemptible active pods sum to %v", id, ResNames[r], gotNP[r], w.np[r])
				}
			}
		}
	}
	// DRA: a device belongs to at most one claim; what an allocated task remembers about its claims is what the
	// DRA manager holds for them
	if k8sPlugins := ssn.InternalK8sPlugins(); k8sPlugins != nil && k8sPlugins.FrameworkHandle != nil && k8sPlugins.FrameworkHandle.SharedDRAManager() != nil {
		mgr := k8sPlugins.FrameworkHandle.SharedDRAManager()
		if cl, err := mgr.ResourceClaims().List(); err == nil && len(cl) > 0 {
			owner := map[string]string{}
			byName := map[string][]string{}
			names := make([]string, 0, len(cl))
			for _, c := range cl {
				names = append(names, c.Namespace+"/"+c.Name)
			}
			sort.Strings(names)
			for _, c := range cl {
				if c.Status.Allocation == nil {
					continue
				}
				var devs []string
				for _, r := range c.Status.Allocation.Devices.Results {
					d := r.Driver + "/" + r.Pool + "/" + r.Device
					devs = append(devs, d)
					if other, taken := owner[d]; taken && other != c.Name {
						a, b := other, c.Name
						if a > b {
							a, b = b, a
						}
						add("dra-device-in-two-claims", "device %s is allocated to claim %s and to claim %s", d, a, b)
					}
					owner[d] = c.Name
				}
				sort.Strings(devs)
				byName[c.Name] = devs
			}
			for _, job := range ssn.ClusterInfo.PodGroupInfos {
				for _, t := range job.GetAllPodsMap() {
					if !pod_status.IsActiveAllocatedStatus(t.Status) || t.Pod == nil {
						continue
					}
					for _, pc := range t.Pod.Spec.ResourceClaims {
						info := t.ResourceClaimInfo[pc.Name]
						if info == nil || info.Allocation == nil || pc.ResourceClaimName == nil {
							continue
						}
						var mine []string
						for _, r := range info.Allocation.Devices.Results {
							mine = append(mine, r.Driver+"/"+r.Pool+"/"+r.Device)
						}
						sort.Strings(mine)
						held, allocated := byName[*pc.ResourceClaimName]
						if !allocated {
							continue // allocation in flight in a BindRequest: not on the claim object
						}
						if strings.Join(mine, ",") != strings.Join(held, ",") {
							add("dra-task-and-manager-disagree", "task %s (%v) remembers devices %v for claim %s, the DRA manager holds %v", t.Name, t.Status, mine, *pc.ResourceClaimName, held)
						}
					}
				}
			}
		}
	}
	return out
}

func podsDetail(ni *node_info.NodeInfo, rn v1.ResourceName) string {
	var items []string
	for _, p := range ni.PodInfos {
		items = append(items, fmt.Sprintf("%s:%v accepted=%v request=%v", p.Name, p.Status, p.AcceptedResource.Get(rn), p.ResReq.Get(rn)))
	}
	sort.Strings(items)
	return strings.Join(items, " ")
}

func podsStr(ni *node_info.NodeInfo) string {
	var items []string
	for _, p := range ni.PodInfos {
		items = append(items, fmt.Sprintf("%s:%v%v", p.Name, p.Status, p.GPUGroups))
	}
	sort.Strings(items)
	return strings.Join(items, " ")
}

// ---------------------------------------------------------------------------------------------
// canonical dump of the session (C13): everything a discarded scenario must leave untouched

// DumpSession renders nodes (counters, pod table, sharing maps), workloads (task table, counters) and queue
// usage. GPU groups that did not exist in `known` (fresh UUIDs) are renamed by first appearance in sorted
// order, so that two dumps can be compared across scenarios that invent different names.
func DumpSession(ssn *framework.Session) string { return DumpSessionMasked(ssn, false) }

// DumpOptions select what a dump leaves out.
type DumpOptions struct {
	MaskWholeGPU      bool // whole-GPU idle/releasing counters and releasing markers (known C14 finding)
	BlankPendingGroup bool // GPU groups still written on tasks that are pending
	NodeStatusClass   bool // node pod tables show releasing / nominated / occupying instead of the exact status
}

var dumpOpt DumpOptions

// DumpSessionWith renders a dump under the given options (not concurrency safe; the harness is single threaded).
func DumpSessionWith(ssn *framework.Session, o DumpOptions) string {
	dumpOpt = o
	defer func() { dumpOpt = DumpOptions{} }()
	return DumpSessionMasked(ssn, o.MaskWholeGPU)
}

// DumpSessionMasked: with masked set, the whole-GPU component of every node's idle / releasing counters and the
// 'shared GPU is releasing' markers are left out (the path-dependent quantities of the known C14 finding).
func DumpSessionMasked(ssn *framework.Session, masked bool) string {
	var sb strings.Builder
	nodeNames := make([]string, 0, len(ssn.ClusterInfo.Nodes))
	for n := range ssn.ClusterInfo.Nodes {
		nodeNames = append(nodeNames, n)
	}
	sort.Strings(nodeNames)
	for _, n := range nodeNames {
		ni := ssn.ClusterInfo.Nodes[n]
		if masked {
			fmt.Fprintf(&sb, "node %s: %s\n", n, nodeSummaryMasked(ni))
		} else {
			fmt.Fprintf(&sb, "node %s: %s\n", n, nodeSummary(ni, ident))
		}
		var pods []string
		for _, p := range ni.PodInfos {
			st := p.Status.String()
			if dumpOpt.NodeStatusClass {
				switch p.Status {
				case pod_status.Releasing, pod_status.Pipelined:
				default:
					st = "Occupying"
				}
			}
			pods = append(pods, fmt.Sprintf("%s:%v@%s%v", p.Name, st, p.NodeName, p.GPUGroups))
		}
		sort.Strings(pods)
		fmt.Fprintf(&sb, "   pods: %s\n", strings.Join(pods, " "))
	}
	jobIDs := make([]string, 0, len(ssn.ClusterInfo.PodGroupInfos))
	for id := range ssn.ClusterInfo.PodGroupInfos {
		jobIDs = append(jobIDs, string(id))
	}
	sort.Strings(jobIDs)
	for _, id := range jobIDs {
		job := ssn.ClusterInfo.PodGroupInfos[common_info.PodGroupID(id)]
		var tasks []string
		for _, t := range job.GetAllPodsMap() {
			claims := ""
			if len(t.ResourceClaimInfo) > 0 {
				claims = fmt.Sprintf(" claims=%v", claimDevices(t))
			}
			groups := t.GPUGroups
			if dumpOpt.BlankPendingGroup && t.Status == pod_status.Pending {
				groups = nil
			}
			tasks = append(tasks, fmt.Sprintf("%s:%v@%s%v virtual=%v%s", t.Name, t.Status, t.NodeName, groups, t.IsVirtualStatus, claims))
		}
		sort.Strings(tasks)
		var sets []string
		for name, ps := range job.PodSets {
			sets = append(sets, fmt.Sprintf("%s:%d/%d/%d", name, ps.GetNumActiveAllocatedTasks(), ps.GetNumActiveUsedTasks(), ps.GetNumAliveTasks()))
		}
		sort.Strings(sets)
		fmt.Fprintf(&sb, "job %s: allocated=%s vec=%s active=%d sets=%v tasks=%s\n", id, vecStr(job.Allocated.ToVector(job.VectorMap)), vecStr(job.AllocatedVector),
			job.GetActiveAllocatedTasksCount(), sets, strings.Join(tasks, " "))
	}
	// the DRA manager's view: every claim with its allocation and consumers, and the devices it counts as taken
	if k8sPlugins := ssn.InternalK8sPlugins(); k8sPlugins != nil && k8sPlugins.FrameworkHandle != nil {
		if mgr := k8sPlugins.FrameworkHandle.SharedDRAManager(); mgr != nil {
			if cl, err := mgr.ResourceClaims().List(); err == nil && len(cl) > 0 {
				var lines []string
				for _, c := range cl {
					var devs, users []string
					if c.Status.Allocation != nil {
						for _, r := range c.Status.Allocation.Devices.Results {
							devs = append(devs, r.Driver+"/"+r.Pool+"/"+r.Device)
						}
					}
					for _, r := range c.Status.ReservedFor {
						users = append(users, r.Name)
					}
					sort.Strings(devs)
					sort.Strings(users)
					if mgr.ResourceClaims().ClaimHasPendingAllocation(c.UID) {
						// claim of a pod that is being bound: the allocation of its BindRequest is held "in flight"; whether
						// the claim object is, on top of that, assumed allocated is a representation detail (an evict +
						// un-evict of such a pod turns one into the other); the devices show up in the global set below
						lines = append(lines, fmt.Sprintf("%s/%s taken (allocation of a BindRequest in flight)", c.Namespace, c.Name))
						continue
					}
					lines = append(lines, fmt.Sprintf("%s/%s devices=%v reservedFor=%v", c.Namespace, c.Name, devs, users))
				}
				sort.Strings(lines)
				fmt.Fprintf(&sb, "dra claims: %s\n", strings.Join(lines, "; "))
				if ad, err := mgr.ResourceClaims().ListAllAllocatedDevices(); err == nil {
					var ids []string
					for id := range ad {
						ids = append(ids, id.String())
					}
					sort.Strings(ids)
					fmt.Fprintf(&sb, "dra allocated devices: %v\n", ids)
				}
			}
		}
	}
	if qattrs := proportion.VerifQueues(framework.VerifPlugin(ssn, "proportion")); qattrs != nil {
		ids := make([]string, 0, len(qattrs))
		for id := range qattrs {
			ids = append(ids, string(id))
		}
		sort.Strings(ids)
		for _, id := range ids {
			qa := qattrs[common_info.QueueID(id)]
			// tolerance: 1e-4 of a unit (float residues of add/subtract sequences), negative zero folded
			r4 := func(x float64) float64 { return math.Round(x*1e4)/1e4 + 0 }
			fmt.Fprintf(&sb, "queue %s: allocated=[%.4f %.4f %.4f] nonPreemptible=[%.4f %.4f %.4f]\n", id,
				r4(qa.CPU.Allocated), r4(qa.Memory.Allocated), r4(qa.GPU.Allocated), r4(qa.CPU.AllocatedNotPreemptible), r4(qa.Memory.AllocatedNotPreemptible), r4(qa.GPU.AllocatedNotPreemptible))
		}
	}
	return sb.String()
}

// FirstDiff points at the first differing line of two dumps.
func FirstDiff(a, b string) string {
	la, lb := strings.Split(a, "\n"), strings.Split(b, "\n")
	for i := 0; i < len(la) || i < len(lb); i++ {
		var x, y string
		if i < len(la) {
			x = la[i]
		}
		if i < len(lb) {
			y = lb[i]
		}
		if x != y {
			return fmt.Sprintf("\n   expected: %s\n   found:    %s", x, y)
		}
	}
	return ""
}

var _ = podgroup_info.DefaultSubGroup
