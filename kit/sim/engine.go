package sim

import (
	"context"
	"fmt"
	"github.com/NVIDIA/KAI-scheduler/pkg/scheduler/log"
	"hash/fnv"
	"net/http"
	"os"
	"runtime/debug"
	"sort"
	"strings"
	"sync"
	"syscall"
	"time"

	v1 "k8s.io/api/core/v1"
	resourceapi "k8s.io/api/resource/v1"
	metav1 "k8s.io/apimachinery/pkg/apis/meta/v1"
	"k8s.io/apimachinery/pkg/runtime"
	"k8s.io/apimachinery/pkg/runtime/schema"
	"k8s.io/apimachinery/pkg/types"
	"k8s.io/apimachinery/pkg/version"
	fakediscovery "k8s.io/client-go/discovery/fake"
	"k8s.io/client-go/kubernetes/fake"
	k8stesting "k8s.io/client-go/testing"
	"k8s.io/dynamic-resource-allocation/structured"

	kaifake "github.com/NVIDIA/KAI-scheduler/pkg/apis/client/clientset/versioned/fake"
	schedulingv1alpha2 "github.com/NVIDIA/KAI-scheduler/pkg/apis/scheduling/v1alpha2"
	enginev2alpha2 "github.com/NVIDIA/KAI-scheduler/pkg/apis/scheduling/v2alpha2"
	"github.com/NVIDIA/KAI-scheduler/pkg/scheduler/actions"
	"github.com/NVIDIA/KAI-scheduler/pkg/scheduler/api/eviction_info"
	"github.com/NVIDIA/KAI-scheduler/pkg/scheduler/api/pod_info"
	"github.com/NVIDIA/KAI-scheduler/pkg/scheduler/api/podgroup_info"
	"github.com/NVIDIA/KAI-scheduler/pkg/scheduler/cache"
	"github.com/NVIDIA/KAI-scheduler/pkg/scheduler/conf"
	"github.com/NVIDIA/KAI-scheduler/pkg/scheduler/conf_util"
	"github.com/NVIDIA/KAI-scheduler/pkg/scheduler/framework"
	"github.com/NVIDIA/KAI-scheduler/pkg/scheduler/plugins"
	"github.com/NVIDIA/KAI-scheduler/pkg/scheduler/plugins/proportion"
)

var (
	initOnce    sync.Once
	mux         = &http.ServeMux{}
	podGVR      = schema.GroupVersionResource{Version: "v1", Resource: "pods"}
	podGroupGVR = schema.GroupVersionResource{Group: "scheduling.run.ai", Version: "v2alpha2", Resource: "podgroups"}
)

// waitDRASynced waits until the DRA manager's claim tracker (an assume cache fed by informer *event handlers*,
// which run after the informer store reports synced) reflects every ResourceClaim of the store. A production
// scheduler has this race once, at start-up; the harness starts a cache per cycle and must not turn it into
// a source of findings.
func waitDRASynced(c cache.Cache, s *Store, warm bool) bool {
	want := map[string]bool{}
	for _, rc := range s.Claims() {
		want[rc.Namespace+"/"+rc.Name] = rc.Status.Allocation != nil
	}
	if len(want) == 0 {
		return true
	}
	k8sPlugins := c.InternalK8sPlugins()
	if k8sPlugins == nil || k8sPlugins.FrameworkHandle == nil || k8sPlugins.FrameworkHandle.SharedDRAManager() == nil {
		return true
	}
	mgr := k8sPlugins.FrameworkHandle.SharedDRAManager()
	if warm {
		// A process that already ran cycles holds assumed (in-memory) claim states of its last session, which its DRA
		// plugin resets itself when the next session opens - the harness must not touch them. What has to be awaited
		// is that the tracker's informer handler has processed every claim event of the store. One informer delivers
		// its events to a handler in order, so a sentinel claim created now is seen by the tracker only after all
		// earlier claim writes; it is deleted again (and awaited to be gone) before the session opens.
		s.serial++
		name := fmt.Sprintf("verif-sync-%d", s.serial)
		sentinel := &resourceapi.ResourceClaim{ObjectMeta: metav1.ObjectMeta{Name: name, Namespace: Namespace, ResourceVersion: "1", UID: types.UID(name)}}
		if err := s.Kube.Tracker().Add(sentinel); err != nil {
			return false
		}
		seen := func() bool {
			_, err := mgr.ResourceClaims().Get(Namespace, name)
			return err == nil
		}
		deadline := time.Now().Add(2 * time.Minute)
		for !seen() && time.Now().Before(deadline) {
			time.Sleep(time.Millisecond)
		}
		sawIt := seen()
		_ = s.Kube.Tracker().Delete(claimGVR, Namespace, name)
		for seen() && time.Now().Before(deadline) {
			time.Sleep(time.Millisecond)
		}
		return sawIt && !seen()
	}
	for i := 0; i < 50000; i++ {
		ok := false
		if cl, err := mgr.ResourceClaims().List(); err == nil && len(cl) == len(want) {
			ok = true
			for _, rc := range cl {
				if allocated, known := want[rc.Namespace+"/"+rc.Name]; !known || allocated != (rc.Status.Allocation != nil) {
					ok = false
					break
				}
			}
		}
		if ok {
			// the tracker's set of allocated devices is fed by events that are delivered after a claim becomes visible
			// in the tracker's store: wait until it holds every device the store's claims hold
			if ad, err := mgr.ResourceClaims().ListAllAllocatedDevices(); err == nil {
				for _, rc := range s.Claims() {
					if rc.Status.Allocation == nil {
						continue
					}
					for _, r := range rc.Status.Allocation.Devices.Results {
						if !ad.Has(structured.MakeDeviceID(r.Driver, r.Pool, r.Device)) {
							ok = false
						}
					}
				}
			} else {
				ok = false
			}
		}
		if ok {
			if sl, err := mgr.ResourceSlices().ListWithDeviceTaintRules(); err == nil {
				n := 0
				if l, err := s.Kube.ResourceV1().ResourceSlices().List(context.Background(), metav1.ListOptions{}); err == nil {
					n = len(l.Items)
				}
				if len(sl) == n {
					return true
				}
			}
		}
		time.Sleep(2 * time.Millisecond)
	}
	return false
}

// processCPU is the CPU time (user + system) this process has consumed so far.
func processCPU() time.Duration {
	var ru syscall.Rusage
	if err := syscall.Getrusage(syscall.RUSAGE_SELF, &ru); err != nil {
		return 0
	}
	return time.Duration(ru.Utime.Nano() + ru.Stime.Nano())
}

func initScheduler() {
	initOnce.Do(func() {
		actions.InitDefaultActions()
		plugins.InitDefaultPlugins()
		if lv := os.Getenv("VERIF_SCHED_LOG"); lv != "" {
			n := 0
			fmt.Sscan(lv, &n)
			_ = log.InitLoggers(n)
		}
	})
}

// ---------------------------------------------------------------------------------------------
// store: the fake API server, with graceful pod deletion and fault injection

type faults struct {
	mu                sync.Mutex
	failBindCreate    int
	bindCreates       int
	failPodDelete     int
	podDeletes        int
	failedBindCreates []string
	failedPodDeletes  []string
}

type Store struct {
	Kube   *fake.Clientset
	Kai    *kaifake.Clientset
	faults *faults
	Now    time.Time
	// pods deleted gracefully: name -> cycles left before the kubelet model removes them
	linger map[string]int
	serial int
	// Persistent: one scheduler process (cache, informers, in-process state) serves all cycles (process.go)
	Persistent bool
	proc       *schedProc
	claimSeen  map[string]string
	rvCounter  int
}

func NewStore(o *Objects, now time.Time) *Store {
	s := &Store{faults: &faults{}, Now: now, linger: map[string]int{}}
	s.install(o)
	return s
}

// Refresh replaces the fake clientsets by new ones holding the same objects. Informers of an earlier
// cycle leave watchers behind in the fake object tracker; nobody drains them any more and the tracker
// panics ("channel full") once 100 events pile up. A fresh API endpoint per cycle avoids that.
func (s *Store) Refresh() {
	ctx := context.Background()
	o := &Objects{}
	for _, n := range s.NodesList() {
		o.Nodes = append(o.Nodes, n.DeepCopy())
	}
	for _, p := range s.Pods() {
		o.Pods = append(o.Pods, p.DeepCopy())
	}
	if l, err := s.Kube.SchedulingV1().PriorityClasses().List(ctx, metav1.ListOptions{}); err == nil {
		for i := range l.Items {
			o.PriorityClasses = append(o.PriorityClasses, l.Items[i].DeepCopy())
		}
	}
	if l, err := s.Kai.SchedulingV2().Queues("").List(ctx, metav1.ListOptions{}); err == nil {
		for i := range l.Items {
			o.Queues = append(o.Queues, l.Items[i].DeepCopy())
		}
	}
	if l, err := s.Kai.SchedulingV2alpha2().PodGroups("").List(ctx, metav1.ListOptions{}); err == nil {
		for i := range l.Items {
			o.PodGroups = append(o.PodGroups, l.Items[i].DeepCopy())
		}
	}
	for _, br := range s.BindRequests() {
		o.BindRequests = append(o.BindRequests, br.DeepCopy())
	}
	if l, err := s.Kube.ResourceV1().DeviceClasses().List(ctx, metav1.ListOptions{}); err == nil {
		for i := range l.Items {
			o.DeviceClasses = append(o.DeviceClasses, l.Items[i].DeepCopy())
		}
	}
	if l, err := s.Kube.ResourceV1().ResourceSlices().List(ctx, metav1.ListOptions{}); err == nil {
		for i := range l.Items {
			o.ResourceSlices = append(o.ResourceSlices, l.Items[i].DeepCopy())
		}
	}
	for _, rc := range s.Claims() {
		o.ResourceClaims = append(o.ResourceClaims, rc.DeepCopy())
	}
	if l, err := s.Kai.KaiV1alpha1().Topologies().List(ctx, metav1.ListOptions{}); err == nil {
		for i := range l.Items {
			o.Topologies = append(o.Topologies, l.Items[i].DeepCopy())
		}
	}
	s.install(o)
}

// Claims lists the ResourceClaims of the store, by name.
func (s *Store) Claims() []*resourceapi.ResourceClaim {
	l, err := s.Kube.ResourceV1().ResourceClaims("").List(context.Background(), metav1.ListOptions{})
	if err != nil {
		return nil
	}
	out := make([]*resourceapi.ResourceClaim, 0, len(l.Items))
	for i := range l.Items {
		out = append(out, &l.Items[i])
	}
	sort.Slice(out, func(i, j int) bool { return out[i].Name < out[j].Name })
	return out
}

func (s *Store) install(o *Objects) {
	var kobjs []runtime.Object
	for _, n := range o.Nodes {
		kobjs = append(kobjs, n)
	}
	for _, p := range o.Pods {
		kobjs = append(kobjs, p)
	}
	for _, pc := range o.PriorityClasses {
		kobjs = append(kobjs, pc)
	}
	for _, x := range o.DeviceClasses {
		kobjs = append(kobjs, x)
	}
	for _, x := range o.ResourceSlices {
		kobjs = append(kobjs, x)
	}
	for _, x := range o.ResourceClaims {
		kobjs = append(kobjs, x)
	}
	var kaiobjs []runtime.Object
	for _, q := range o.Queues {
		kaiobjs = append(kaiobjs, q)
	}
	for _, pg := range o.PodGroups {
		kaiobjs = append(kaiobjs, pg)
	}
	for _, br := range o.BindRequests {
		kaiobjs = append(kaiobjs, br)
	}
	for _, t := range o.Topologies {
		kaiobjs = append(kaiobjs, t)
	}
	s.Kube = fake.NewSimpleClientset(kobjs...)
	s.Kai = kaifake.NewSimpleClientset(kaiobjs...)
	if fd, ok := s.Kube.Discovery().(*fakediscovery.FakeDiscovery); ok {
		// the scheduler switches dynamic resource allocation on when the API server serves resource.k8s.io
		fd.FakedServerVersion = &version.Info{Major: "1", Minor: "33"}
		if len(o.DeviceClasses)+len(o.ResourceSlices)+len(o.ResourceClaims) > 0 {
			fd.Resources = append(fd.Resources, &metav1.APIResourceList{GroupVersion: "resource.k8s.io/v1", APIResources: []metav1.APIResource{
				{Name: "resourceclaims", Namespaced: true, Kind: "ResourceClaim"}, {Name: "resourceslices", Kind: "ResourceSlice"}, {Name: "deviceclasses", Kind: "DeviceClass"}}})
		}
	}
	// API-server semantics of pod deletion: a pod that runs on a node is only marked (graceful
	// deletion), a pod that never reached a node disappears at once.
	s.Kube.PrependReactor("delete", "pods", func(action k8stesting.Action) (bool, runtime.Object, error) {
		da := action.(k8stesting.DeleteAction)
		f := s.faults
		f.mu.Lock()
		f.podDeletes++
		fail := f.failPodDelete > 0 && f.podDeletes == f.failPodDelete
		if fail {
			f.failedPodDeletes = append(f.failedPodDeletes, da.GetName())
		}
		f.mu.Unlock()
		if fail {
			return true, nil, fmt.Errorf("injected: delete pod %s failed", da.GetName())
		}
		obj, err := s.Kube.Tracker().Get(podGVR, da.GetNamespace(), da.GetName())
		if err != nil {
			return false, nil, nil
		}
		pod := obj.(*v1.Pod).DeepCopy()
		if pod.Spec.NodeName == "" {
			return false, nil, nil // not on a node: removed immediately by the default reactor
		}
		if pod.DeletionTimestamp == nil {
			ts := metav1.NewTime(s.Now)
			pod.DeletionTimestamp = &ts
			if err := s.Kube.Tracker().Update(podGVR, pod, da.GetNamespace()); err != nil {
				return true, nil, err
			}
		}
		return true, nil, nil
	})
	// API-server semantics of the status sub-resource: only .status is taken from the submitted object (the
	// client-go fake would replace the whole object, metadata included).
	s.Kai.PrependReactor("update", "podgroups", func(action k8stesting.Action) (bool, runtime.Object, error) {
		ua := action.(k8stesting.UpdateAction)
		if ua.GetSubresource() != "status" {
			return false, nil, nil
		}
		in, ok := ua.GetObject().(*enginev2alpha2.PodGroup)
		if !ok {
			return false, nil, nil
		}
		cur, err := s.Kai.Tracker().Get(podGroupGVR, in.Namespace, in.Name)
		if err != nil {
			return true, nil, err
		}
		out := cur.(*enginev2alpha2.PodGroup).DeepCopy()
		out.Status = *in.Status.DeepCopy()
		if err := s.Kai.Tracker().Update(podGroupGVR, out, in.Namespace); err != nil {
			return true, nil, err
		}
		return true, out, nil
	})
	s.Kai.PrependReactor("create", "bindrequests", func(action k8stesting.Action) (bool, runtime.Object, error) {
		f := s.faults
		f.mu.Lock()
		defer f.mu.Unlock()
		f.bindCreates++
		if f.failBindCreate > 0 && f.bindCreates == f.failBindCreate {
			ca := action.(k8stesting.CreateAction)
			name := ca.GetObject().(*schedulingv1alpha2.BindRequest).Name
			f.failedBindCreates = append(f.failedBindCreates, name)
			return true, nil, fmt.Errorf("injected: create bindrequest %s failed", name)
		}
		return false, nil, nil
	})
}

func (s *Store) armFaults(sc *CycleScript) {
	f := s.faults
	f.mu.Lock()
	defer f.mu.Unlock()
	f.failBindCreate, f.bindCreates = sc.FailBindCreate, 0
	f.failPodDelete, f.podDeletes = sc.FailPodDelete, 0
	f.failedBindCreates, f.failedPodDeletes = nil, nil
}

func (s *Store) Pods() []*v1.Pod {
	l, _ := s.Kube.CoreV1().Pods("").List(context.Background(), metav1.ListOptions{})
	out := make([]*v1.Pod, 0, len(l.Items))
	for i := range l.Items {
		out = append(out, &l.Items[i])
	}
	sort.Slice(out, func(i, j int) bool { return out[i].Namespace+"/"+out[i].Name < out[j].Namespace+"/"+out[j].Name })
	return out
}

func (s *Store) NodesList() []*v1.Node {
	l, _ := s.Kube.CoreV1().Nodes().List(context.Background(), metav1.ListOptions{})
	out := make([]*v1.Node, 0, len(l.Items))
	for i := range l.Items {
		out = append(out, &l.Items[i])
	}
	sort.Slice(out, func(i, j int) bool { return out[i].Name < out[j].Name })
	return out
}

func (s *Store) BindRequests() []*schedulingv1alpha2.BindRequest {
	l, _ := s.Kai.SchedulingV1alpha2().BindRequests("").List(context.Background(), metav1.ListOptions{})
	out := make([]*schedulingv1alpha2.BindRequest, 0, len(l.Items))
	for i := range l.Items {
		out = append(out, &l.Items[i])
	}
	sort.Slice(out, func(i, j int) bool { return out[i].Name < out[j].Name })
	return out
}

// ---------------------------------------------------------------------------------------------
// observation record

type Call struct {
	Kind      string   `json:"kind"` // bind | evict | pipeline
	Pod       string   `json:"pod"`
	Node      string   `json:"node,omitempty"`
	Groups    []string `json:"groups,omitempty"`
	Received  string   `json:"received,omitempty"`
	Action    string   `json:"action,omitempty"`
	Preemptor string   `json:"preemptor,omitempty"`
	GangSize  int      `json:"gangSize,omitempty"`
	Err       string   `json:"err,omitempty"`
	Injected  bool     `json:"injected,omitempty"`
	Claims    []string `json:"claims,omitempty"` // DRA devices handed to the pod: claim=driver/pool/device
	// Commit numbers the Statement.Commit (1, 2, ... within the cycle) that emitted the call; 0 = emitted outside
	// any commit. Calls of one commit are one decision; stamped through the build-tag guarded statement hook.
	Commit int `json:"commit,omitempty"`
}

// claimDevices renders the devices of a task's resource claim allocations, sorted.
func claimDevices(p *pod_info.PodInfo) []string {
	var out []string
	for name, ca := range p.ResourceClaimInfo {
		if ca == nil || ca.Allocation == nil {
			out = append(out, name+"=<unallocated>")
			continue
		}
		for _, r := range ca.Allocation.Devices.Results {
			out = append(out, fmt.Sprintf("%s=%s/%s/%s", name, r.Driver, r.Pool, r.Device))
		}
	}
	sort.Strings(out)
	return out
}

func (c Call) String() string {
	s := c.Kind + " " + c.Pod
	if c.Node != "" {
		s += "->" + c.Node
	}
	if len(c.Groups) > 0 {
		s += fmt.Sprintf("%v", c.Groups)
	}
	if c.Action != "" {
		s += " (" + c.Action + " for " + c.Preemptor + ")"
	}
	if c.Err != "" {
		s += " ERR"
	}
	return s
}

type recordingCache struct {
	cache.Cache
	mu            sync.Mutex
	calls         []Call
	failEvictCall int
	evictCalls    int
	commitSeq     int // commits seen in this cycle
	curCommit     int // the commit that is executing now (0 = none)
}

func (r *recordingCache) Bind(p *pod_info.PodInfo, hostname string, ann map[string]string) error {
	c := Call{Kind: "bind", Pod: p.Name, Node: hostname, Groups: append([]string(nil), p.GPUGroups...), Received: string(p.ResourceReceivedType), Claims: claimDevices(p)}
	err := r.Cache.Bind(p, hostname, ann)
	if err != nil {
		c.Err = err.Error()
	}
	r.mu.Lock()
	c.Commit = r.curCommit
	r.calls = append(r.calls, c)
	r.mu.Unlock()
	return err
}

func (r *recordingCache) Evict(pod *v1.Pod, job *podgroup_info.PodGroupInfo, md eviction_info.EvictionMetadata, msg string) error {
	c := Call{Kind: "evict", Pod: pod.Name, Node: pod.Spec.NodeName, Action: md.Action, GangSize: md.EvictionGangSize}
	if md.Preemptor != nil {
		c.Preemptor = md.Preemptor.Name
	}
	r.mu.Lock()
	r.evictCalls++
	inject := r.failEvictCall > 0 && r.evictCalls == r.failEvictCall
	r.mu.Unlock()
	var err error
	if inject {
		err = fmt.Errorf("injected: evict %s failed", pod.Name)
		c.Injected = true
	} else {
		err = r.Cache.Evict(pod, job, md, msg)
	}
	if err != nil {
		c.Err = err.Error()
	}
	r.mu.Lock()
	c.Commit = r.curCommit
	r.calls = append(r.calls, c)
	r.mu.Unlock()
	return err
}

func (r *recordingCache) TaskPipelined(p *pod_info.PodInfo, msg string) {
	r.mu.Lock()
	r.calls = append(r.calls, Call{Kind: "pipeline", Pod: p.Name, Node: p.NodeName, Groups: append([]string(nil), p.GPUGroups...), Claims: claimDevices(p), Commit: r.curCommit})
	r.mu.Unlock()
	r.Cache.TaskPipelined(p, msg)
}

// CycleRecord is everything the oracles may read about one cycle.
type CycleRecord struct {
	Index             int
	Before            *Snapshot // API store before the cycle
	After             *Snapshot // API store after the cycle's own API calls settled (before the environment step)
	Calls             []Call
	OpenErr           string
	Panic             string
	Hung              bool
	HangKind          string
	Starved           bool // gave up waiting for CPU time: inconclusive, never a verdict
	FailedBindCreates []string
	FailedPodDeletes  []string
	Duration          time.Duration
	ActionCalls       map[string][2]int // action -> [first call index, end)
	Model             *World            // the world model at the start of this cycle when API mutations preceded it (nil = the world as generated)
	NotCaughtUpWhy    string
	NotCaughtUp       bool              // persistent mode: the informers did not catch up with the store in time (treated like Starved)
	Shares            map[string]QShare // per queue, as reported by the session after OpenSession (Options.CaptureShares)
}

// Hooks let a check look into the live session.
type Hooks struct {
	AfterOpen   func(ssn *framework.Session, cycle int)
	BeforeClose func(ssn *framework.Session, cycle int)
	// Statement receives the statement life-cycle events of the session (the engine owns framework.VerifStatementHook)
	Statement func(event string, s *framework.Statement, arg int)
}

// QShare is what the session reports for a queue: [cpu milli, memory bytes, gpus].
type QShare struct {
	FairShare, Deserved, Allocated [3]float64
}

// Options of a run.
type Options struct {
	CaptureShares bool
	Hooks         Hooks
	CycleTimeout  time.Duration // 0 = 30s
}

func schedulerConfig(c *Config) (*conf.SchedulerConfiguration, *conf.SchedulerParams) {
	gpuPlacement, cpuPlacement := c.PlacementGPU, c.PlacementCPU
	if gpuPlacement == "" {
		gpuPlacement = "binpack"
	}
	if cpuPlacement == "" {
		cpuPlacement = "binpack"
	}
	prop := conf.PluginOption{Name: "proportion", Arguments: map[string]string{}}
	if c.SaturationMultiplier != "" {
		prop.Arguments["relcaimerSaturationMultiplier"] = c.SaturationMultiplier
	}
	if c.KValue != "" {
		prop.Arguments["kValue"] = c.KValue
	}
	gpuOrder := "gpupack"
	if c.GPUSpread {
		gpuOrder = "gpuspread"
	}
	minrt := conf.PluginOption{Name: "minruntime", Arguments: c.MinRuntimeArgs}
	pluginsList := []conf.PluginOption{
		{Name: "predicates"}, prop, {Name: "priority"}, {Name: "elastic"}, {Name: "kubeflow"}, {Name: "ray"},
		{Name: "nodeavailability"}, {Name: "gpusharingorder"}, {Name: gpuOrder}, {Name: "resourcetype"},
		{Name: "subgrouporder"}, {Name: "taskorder"}, {Name: "nominatednode"}, {Name: "dynamicresources"},
		{Name: "nodeplacement", Arguments: map[string]string{"cpu": cpuPlacement, "gpu": gpuPlacement}},
		minrt, {Name: "topology"},
	}
	acts := c.Actions
	if len(acts) == 0 {
		acts = []string{"allocate", "consolidation", "reclaim", "preempt", "stalegangeviction"}
	}
	sc := &conf.SchedulerConfiguration{
		Actions:             strings.Join(acts, ", "),
		Tiers:               []conf.Tier{{Plugins: pluginsList}},
		QueueDepthPerAction: c.QueueDepth,
	}
	params := &conf.SchedulerParams{
		SchedulerName:                     SchedulerName,
		PartitionParams:                   &conf.SchedulingNodePoolParams{},
		MaxNumberConsolidationPreemptees:  c.MaxConsolidation,
		UseSchedulingSignatures:           c.Signatures,
		FullHierarchyFairness:             c.FullHierarchy,
		AllowConsolidatingReclaim:         c.ConsolidatingReclaim,
		NumOfStatusRecordingWorkers:       2,
		GlobalDefaultStalenessGracePeriod: time.Duration(c.StalenessGraceSeconds) * time.Second,
	}
	if c.StalenessGraceSeconds == 0 {
		params.GlobalDefaultStalenessGracePeriod = 60 * time.Second
	}
	if c.Pool != "" {
		params.PartitionParams = &conf.SchedulingNodePoolParams{NodePoolLabelKey: PoolLabelKey, NodePoolLabelValue: c.Pool}
	}
	return sc, params
}

// RunCycle runs one full scheduler cycle (fresh cache = scheduler restart) against the store.
func RunCycle(s *Store, cfg *Config, sc *CycleScript, idx int, opt *Options) *CycleRecord {
	initScheduler()
	if idx > 0 && !s.Persistent {
		s.Refresh()
	}
	rec := &CycleRecord{Index: idx, Before: TakeSnapshot(s), ActionCalls: map[string][2]int{}}
	s.armFaults(sc)
	schedConf, params := schedulerConfig(cfg)
	start := time.Now()

	done := make(chan struct{})
	begun := make(chan struct{})
	var rc *recordingCache
	stopCh := make(chan struct{})
	go func() {
		defer close(done)
		defer func() {
			if r := recover(); r != nil {
				rec.Panic = fmt.Sprintf("%v\n%s", r, debug.Stack())
			}
		}()
		var c cache.Cache
		warm := s.Persistent && s.proc != nil
		if s.Persistent && s.proc != nil {
			c = s.proc.cache
			if ok, why := waitCaughtUp(c, s, cfg.Pool); !ok {
				rec.Starved, rec.NotCaughtUp, rec.NotCaughtUpWhy = true, true, why
				return
			}
		} else {
			c = cache.New(&cache.SchedulerCacheParams{
				KubeClient: s.Kube, KAISchedulerClient: s.Kai, SchedulerName: params.SchedulerName,
				NodePoolParams: params.PartitionParams, FullHierarchyFairness: params.FullHierarchyFairness,
				AllowConsolidatingReclaim: params.AllowConsolidatingReclaim, NumOfStatusRecordingWorkers: params.NumOfStatusRecordingWorkers,
				DiscoveryClient: s.Kube.Discovery(),
			})
			runStop := stopCh
			if s.Persistent {
				s.proc = &schedProc{cache: c, stop: make(chan struct{})}
				runStop = s.proc.stop
			}
			c.Run(runStop)
			time.Sleep(3 * time.Millisecond)
			c.WaitForCacheSync(runStop)
			if s.Persistent && !waitWatchesEstablished(s) {
				rec.Starved, rec.NotCaughtUp, rec.NotCaughtUpWhy = true, true, "watches-not-established"
				return
			}
		}
		if !waitDRASynced(c, s, warm) {
			rec.Starved, rec.NotCaughtUp, rec.NotCaughtUpWhy = true, true, "dra-claim-tracker"
			return
		}
		close(begun) // cache ready: from here on CPU time is the scheduler's own
		rc = &recordingCache{Cache: c, failEvictCall: sc.FailEvictCall}
		ssn, err := framework.OpenSession(rc, schedConf, params, fmt.Sprintf("c%d", idx), mux)
		if err != nil {
			rec.OpenErr = err.Error()
			return
		}
		func() {
			defer framework.CloseSession(ssn)
			if opt != nil && opt.CaptureShares {
				rec.Shares = map[string]QShare{}
				// exact numbers from the proportion plugin (Session.QueueFairShare truncates fractional GPUs)
				for id, qa := range proportion.VerifQueues(framework.VerifPlugin(ssn, "proportion")) {
					rec.Shares[string(id)] = QShare{
						FairShare: [3]float64{qa.CPU.FairShare, qa.Memory.FairShare, qa.GPU.FairShare},
						Deserved:  [3]float64{qa.CPU.Deserved, qa.Memory.Deserved, qa.GPU.Deserved},
						Allocated: [3]float64{qa.CPU.Allocated, qa.Memory.Allocated, qa.GPU.Allocated},
					}
				}
			}
			if opt != nil && opt.Hooks.AfterOpen != nil {
				opt.Hooks.AfterOpen(ssn, idx)
			}
			framework.VerifStatementHook = func(event string, st *framework.Statement, arg int) {
				switch event {
				case "commit-begin":
					rc.mu.Lock()
					rc.commitSeq++
					rc.curCommit = rc.commitSeq
					rc.mu.Unlock()
				case "commit-end":
					rc.mu.Lock()
					rc.curCommit = 0
					rc.mu.Unlock()
				}
				if opt != nil && opt.Hooks.Statement != nil {
					opt.Hooks.Statement(event, st, arg)
				}
			}
			defer func() { framework.VerifStatementHook = nil }()
			acts, _ := conf_util.GetActionsFromConfig(schedConf)
			for _, a := range acts {
				rc.mu.Lock()
				from := len(rc.calls)
				rc.mu.Unlock()
				a.Execute(ssn)
				rc.mu.Lock()
				rec.ActionCalls[string(a.Name())] = [2]int{from, len(rc.calls)}
				rc.mu.Unlock()
			}
			if opt != nil && opt.Hooks.BeforeClose != nil {
				opt.Hooks.BeforeClose(ssn, idx)
			}
		}()
	}()
	// Watchdog. Wall-clock time says nothing on a loaded machine, so a cycle is declared hung only on evidence
	// that does not depend on load: it has burnt far more CPU than any terminating cycle needs (spinning), or
	// the whole process has not used any CPU for a long stretch (blocked). A cycle that merely does not get
	// the CPU is waited for; after a very long wall-clock time the case is given up as inconclusive (Starved).
	cpuBudget := 20 * time.Second
	if opt != nil && opt.CycleTimeout > 0 {
		cpuBudget = opt.CycleTimeout
	}
	startCPU := processCPU()
	lastCPU, lastAdvance := startCPU, time.Now()
	tick := time.NewTicker(50 * time.Millisecond)
watch:
	for {
		select {
		case <-done:
			break watch
		case <-tick.C:
			now := processCPU()
			select {
			case <-begun:
			default:
				// still building / catching up the cache (harness work, polling included): not the scheduler's CPU
				startCPU, lastCPU, lastAdvance = now, now, time.Now()
				if time.Since(start) > 30*time.Minute {
					rec.Starved = true
					break watch
				}
				continue
			}
			if now-startCPU > cpuBudget {
				rec.Hung = true
				rec.HangKind = fmt.Sprintf("spinning: %v of CPU consumed without finishing (a typical cycle needs 10-50 ms)", (now - startCPU).Round(time.Second))
				break watch
			}
			if now-lastCPU > 20*time.Millisecond {
				lastCPU, lastAdvance = now, time.Now()
			} else if time.Since(lastAdvance) > 90*time.Second {
				rec.Hung = true
				rec.HangKind = "blocked: the process used no CPU for 90 s while the cycle had not finished"
				break watch
			}
			if time.Since(start) > 30*time.Minute {
				rec.Starved = true
				break watch
			}
		}
	}
	tick.Stop()
	if !rec.Hung && !rec.Starved {
		waitQuiescent(s)
	}
	close(stopCh)
	if rc != nil {
		rc.mu.Lock()
		rec.Calls = append([]Call(nil), rc.calls...)
		rc.mu.Unlock()
	}
	s.faults.mu.Lock()
	rec.FailedBindCreates = append([]string(nil), s.faults.failedBindCreates...)
	rec.FailedPodDeletes = append([]string(nil), s.faults.failedPodDeletes...)
	s.faults.mu.Unlock()
	rec.Duration = time.Since(start)
	rec.After = TakeSnapshot(s)
	return rec
}

// waitQuiescent waits until the asynchronous status-updater workers stopped touching the store.
func waitQuiescent(s *Store) {
	last := -1
	stable := 0
	for i := 0; i < 200; i++ {
		n := len(s.Kube.Actions()) + len(s.Kai.Actions())
		if n == last {
			stable++
			if stable >= 3 {
				return
			}
		} else {
			stable = 0
			last = n
		}
		time.Sleep(2 * time.Millisecond)
	}
}

// ---------------------------------------------------------------------------------------------
// environment step: binder, kubelet, workload controller models

func hashPick(parts ...any) uint32 {
	h := fnv.New32a()
	fmt.Fprint(h, parts...)
	return h.Sum32()
}

// EnvStep mutates the store the way the rest of the cluster would between two cycles.
func EnvStep(s *Store, sc *CycleScript, cycle int, rec *CycleRecord) {
	ctx := context.Background()
	// nodes leaving the cluster: the node object and the pods bound to it disappear, BindRequests naming it stay
	for _, dn := range sc.DeleteNodes {
		if err := s.Kube.Tracker().Delete(schema.GroupVersionResource{Version: "v1", Resource: "nodes"}, "", dn); err != nil {
			continue
		}
		for _, p := range s.Pods() {
			if p.Spec.NodeName == dn {
				_ = s.Kube.Tracker().Delete(podGVR, p.Namespace, p.Name)
			}
		}
	}
	// kubelet: terminating pods go away after their linger time
	for _, p := range s.Pods() {
		if p.DeletionTimestamp == nil {
			continue
		}
		left, seen := s.linger[p.Name]
		if !seen {
			left = sc.TermLinger
		}
		if left <= 0 {
			_ = s.Kube.Tracker().Delete(podGVR, p.Namespace, p.Name)
			delete(s.linger, p.Name)
			if sc.RecreateEvicted && p.Namespace == Namespace {
				recreate(s, p)
			}
		} else {
			s.linger[p.Name] = left - 1
		}
	}
	if sc.RecreateEvicted && rec != nil {
		// pods that never reached a node are deleted at once by the API server; recreate them too
		after := map[string]bool{}
		for _, p := range s.Pods() {
			after[p.Name] = true
		}
		for _, bp := range rec.Before.Pods {
			if !after[bp.Name] && bp.Namespace == Namespace && bp.Raw != nil && s.linger[bp.Name] == 0 {
				if _, err := s.Kube.Tracker().Get(podGVR, Namespace, bp.Name); err != nil && wasEvicted(rec, bp.Name) && !recreated(s, bp.Name) {
					recreate(s, bp.Raw)
				}
			}
		}
	}
	// binder: progress of live bind requests
	for _, br := range s.BindRequests() {
		if br.Status.Phase == schedulingv1alpha2.BindRequestPhaseSucceeded {
			continue
		}
		obj, err := s.Kube.Tracker().Get(podGVR, br.Namespace, br.Spec.PodName)
		if err != nil {
			// owner pod is gone: garbage collection removes the request
			_ = s.Kai.SchedulingV1alpha2().BindRequests(br.Namespace).Delete(ctx, br.Name, metav1.DeleteOptions{})
			continue
		}
		pod := obj.(*v1.Pod).DeepCopy()
		mode := sc.BindMode
		if mode == 2 {
			mode = int(hashPick(pod.Name, cycle, sc.Salt) % 3) // 0 succeed, 1 no progress, 2 -> fail
			if mode == 2 {
				mode = 3
			}
		}
		switch mode {
		case 0: // success
			if pod.DeletionTimestamp != nil || pod.Spec.NodeName != "" {
				_ = s.Kai.SchedulingV1alpha2().BindRequests(br.Namespace).Delete(ctx, br.Name, metav1.DeleteOptions{})
				continue
			}
			pod.Spec.NodeName = br.Spec.SelectedNode
			pod.Status.Phase = v1.PodRunning
			if len(br.Spec.SelectedGPUGroups) > 0 {
				// the binder first detaches the pod from groups an abandoned earlier attempt left on it
				for k := range pod.Labels {
					if k == GPUGroupLabel || strings.HasPrefix(k, GPUGroupLabel+"/") {
						delete(pod.Labels, k)
					}
				}
				SetGroupLabels(pod, br.Spec.SelectedGPUGroups)
				pod.Annotations["received-resource-type"] = br.Spec.ReceivedResourceType
				for _, g := range br.Spec.SelectedGPUGroups {
					name := "gpu-reservation-" + br.Spec.SelectedNode + "-" + g
					if _, err := s.Kube.Tracker().Get(podGVR, ReservationNS, name); err != nil {
						_ = s.Kube.Tracker().Add(BuildReservationPod(g, br.Spec.SelectedNode, s.Now))
					}
				}
			}
			_ = s.Kube.Tracker().Update(podGVR, pod, pod.Namespace)
			for _, ca := range br.Spec.ResourceClaimAllocations {
				// the binder's DRA plugin: reserve the claim for the pod, allocate it if nobody has
				for _, pc := range pod.Spec.ResourceClaims {
					if pc.Name != ca.Name || pc.ResourceClaimName == nil {
						continue
					}
					if rc, err := s.Kube.ResourceV1().ResourceClaims(pod.Namespace).Get(ctx, *pc.ResourceClaimName, metav1.GetOptions{}); err == nil {
						rc = rc.DeepCopy()
						if rc.Status.Allocation == nil {
							rc.Status.Allocation = ca.Allocation.DeepCopy()
						}
						have := false
						for _, r := range rc.Status.ReservedFor {
							have = have || r.UID == pod.UID
						}
						if !have {
							rc.Status.ReservedFor = append(rc.Status.ReservedFor, resourceapi.ResourceClaimConsumerReference{Resource: "pods", Name: pod.Name, UID: pod.UID})
						}
						_, _ = s.Kube.ResourceV1().ResourceClaims(pod.Namespace).UpdateStatus(ctx, rc, metav1.UpdateOptions{})
					}
				}
			}
			if sc.KeepRequests {
				b2 := br.DeepCopy()
				b2.Status.Phase = schedulingv1alpha2.BindRequestPhaseSucceeded
				_, _ = s.Kai.SchedulingV1alpha2().BindRequests(br.Namespace).Update(ctx, b2, metav1.UpdateOptions{})
			} else {
				_ = s.Kai.SchedulingV1alpha2().BindRequests(br.Namespace).Delete(ctx, br.Name, metav1.DeleteOptions{})
			}
		case 1: // not started yet
		case 3: // failed terminally (requests created by the scheduler carry no backoff limit)
			b2 := br.DeepCopy()
			b2.Status.Phase = schedulingv1alpha2.BindRequestPhaseFailed
			b2.Status.FailedAttempts++
			b2.Status.Reason = "injected bind failure"
			_, _ = s.Kai.SchedulingV1alpha2().BindRequests(br.Namespace).Update(ctx, b2, metav1.UpdateOptions{})
		}
	}
	// resource claim controller: consumers that are gone leave the claim; a claim without consumers is deallocated;
	// claims owned by a pod that is gone are garbage collected
	livePods := map[types.UID]bool{}
	for _, p := range s.Pods() {
		livePods[p.UID] = true
	}
	// consumers: pods that exist and have not finished (the upstream controller drops completed pods too)
	consumers := map[types.UID]bool{}
	for _, p := range s.Pods() {
		if p.Status.Phase != v1.PodSucceeded && p.Status.Phase != v1.PodFailed {
			consumers[p.UID] = true
		}
	}
	for _, rc := range s.Claims() {
		owned, ownerLive := false, false
		for _, or := range rc.OwnerReferences {
			if or.Kind == "Pod" {
				owned = true
				ownerLive = ownerLive || livePods[or.UID]
			}
		}
		if owned && !ownerLive {
			_ = s.Kube.ResourceV1().ResourceClaims(rc.Namespace).Delete(ctx, rc.Name, metav1.DeleteOptions{})
			continue
		}
		upd := rc.DeepCopy()
		var keep []resourceapi.ResourceClaimConsumerReference
		for _, r := range upd.Status.ReservedFor {
			if consumers[r.UID] {
				keep = append(keep, r)
			}
		}
		if len(keep) != len(upd.Status.ReservedFor) {
			upd.Status.ReservedFor = keep
			if len(keep) == 0 {
				upd.Status.Allocation = nil
			}
			_, _ = s.Kube.ResourceV1().ResourceClaims(rc.Namespace).UpdateStatus(ctx, upd, metav1.UpdateOptions{})
		}
	}
	// reservation pods without consumers are removed by the binder's sync
	used := map[string]bool{}
	for _, p := range s.Pods() {
		if p.Namespace == ReservationNS {
			continue
		}
		if p.Status.Phase == v1.PodSucceeded || p.Status.Phase == v1.PodFailed {
			continue
		}
		for _, g := range PodGroups(p) {
			used[g] = true
		}
	}
	for _, br := range s.BindRequests() {
		for _, g := range br.Spec.SelectedGPUGroups {
			used[g] = true
		}
	}
	for _, p := range s.Pods() {
		if p.Namespace == ReservationNS && !used[p.Labels[GPUGroupLabel]] {
			_ = s.Kube.Tracker().Delete(podGVR, p.Namespace, p.Name)
		}
	}
}

func wasEvicted(rec *CycleRecord, pod string) bool {
	for _, c := range rec.Calls {
		if c.Kind == "evict" && c.Pod == pod && c.Err == "" {
			return true
		}
	}
	return false
}

func recreated(s *Store, name string) bool {
	base := baseName(name)
	for _, p := range s.Pods() {
		if p.Namespace == Namespace && baseName(p.Name) == base && p.DeletionTimestamp == nil {
			return true
		}
	}
	return false
}

func baseName(n string) string {
	if i := strings.Index(n, "~"); i >= 0 {
		return n[:i]
	}
	return n
}

// recreate models the workload controller: a replacement for a removed pod, pending, same template.
func recreate(s *Store, old *v1.Pod) {
	s.serial++
	np := old.DeepCopy()
	np.Name = fmt.Sprintf("%s~%d", baseName(old.Name), s.serial)
	np.UID = types.UID(string(old.UID) + "~" + fmtInt(s.serial))
	np.ResourceVersion = ""
	np.DeletionTimestamp = nil
	np.Finalizers = nil
	np.Spec.NodeName = ""
	np.Status = v1.PodStatus{Phase: v1.PodPending}
	np.CreationTimestamp = metav1.NewTime(s.Now)
	for k := range np.Labels {
		if k == GPUGroupLabel || strings.HasPrefix(k, GPUGroupLabel+"/") {
			delete(np.Labels, k)
		}
	}
	delete(np.Annotations, "received-resource-type")
	_ = s.Kube.Tracker().Add(np)
}

func fmtInt(i int) string { return fmt.Sprintf("%d", i) }

// PodGroups returns the GPU groups a pod is attached to through its labels, in either label form
// (`runai-gpu-group` and `runai-gpu-group/<group>`), without duplicates.
func PodGroups(p *v1.Pod) []string {
	seen := map[string]bool{}
	var out []string
	if g, ok := p.Labels[GPUGroupLabel]; ok && g != "" {
		seen[g] = true
		out = append(out, g)
	}
	var more []string
	for k, v := range p.Labels {
		if strings.HasPrefix(k, GPUGroupLabel+"/") && !seen[v] {
			seen[v] = true
			more = append(more, v)
		}
	}
	sort.Strings(more)
	return append(out, more...)
}

// ---------------------------------------------------------------------------------------------
// running a whole history

type History struct {
	World  *World
	Cycles []*CycleRecord
}

func Run(w *World, opt *Options) *History {
	now := time.Now()
	store := NewStore(w.Build(now), now)
	store.Persistent = w.PersistentScheduler
	defer store.Close()
	h := &History{World: w}
	mutated := w.HasMutations()
	for i := range w.Cycles {
		rec := RunCycle(store, &w.Config, &w.Cycles[i], i, opt)
		if mutated {
			rec.Model = w.At(i)
		}
		h.Cycles = append(h.Cycles, rec)
		if rec.Hung || rec.Starved || rec.Panic != "" {
			break
		}
		if i == 0 {
			store.BumpClaimVersions() // remember the initial content
		}
		EnvStep(store, &w.Cycles[i], i, rec)
		var after *World
		if len(w.Cycles[i].Mutations) > 0 {
			after = w.At(i + 1)
		}
		ApplyMutations(store, &w.Cycles[i], after)
		store.BumpClaimVersions()
	}
	return h
}
