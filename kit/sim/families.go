package sim

import (
	"fmt"
	"strconv"

	"pgregory.net/rapid"
)

// GenSpecEditFamily builds histories in which the owner of a pending gang edits its pod group between two cycles of a
// long-running scheduler - right after the scheduler has written that pod group's status (the gang could not start,
// or was only nominated, in the first cycle because capacity was still held by terminating pods):
//
//   - the minimum member count is raised so that the capacity that becomes free fits the old minimum but not the new
//     one (C03: nothing may be bound), or
//   - the gang is moved to another queue whose limit leaves no room for it (C08: that queue must stay within its limit).
//
// Whatever the scheduler remembers of the pod group from the first cycle (in-flight status updates, memoised values)
// must not decide the second cycle.
func GenSpecEditFamily(t *rapid.T) *World {
	w := &World{Family: "spec-edit"}
	w.PersistentScheduler = chance(t, 9, "persistent")
	c := &w.Config
	c.FullHierarchy = true
	c.PlacementGPU = pickS(t, "placementGpu", "binpack", "spread")
	c.PlacementCPU = "binpack"
	c.MaxConsolidation = 16
	c.Actions = [][]string{nil, {"allocate"}, {"allocate", "reclaim", "preempt"}}[uniform(t, 3, "actions")]
	G := between(t, 3, 6, "gpus")
	w.Nodes = []Node{{Name: "n0", GPUs: G, GPUMem: 16000, CPU: 32000, MemMB: 65536, Pods: 110, Labels: map[string]string{}}}
	free := QRes{Quota: -1, Limit: -1, Weight: 1}
	L := between(t, 1, 2, "limitB")
	w.Queues = []Queue{
		{Name: "root", GPU: QRes{Quota: float64(G), Limit: -1, Weight: 1}, CPU: free, Mem: free},
		{Name: "qa", Parent: "root", GPU: QRes{Quota: float64(G), Limit: -1, Weight: 1}, CPU: free, Mem: free},
		{Name: "qb", Parent: "root", GPU: QRes{Quota: float64(L), Limit: float64(L), Weight: 1}, CPU: free, Mem: free},
	}
	pod := func(name, state, node string) Pod {
		return Pod{Name: name, CPU: 100, MemMB: 64, GPUs: 1, State: state, Node: node, CreatedMin: 30}
	}
	// holder in qb: uses h of its L GPUs
	h := between(t, 0, L, "held")
	if h > 0 {
		g := Group{Name: "r", Queue: "qb", PriorityClass: "train", Preemptibility: "non-preemptible", MinMember: 1, CreatedMin: 200, LastStartMin: 1000}
		for i := 0; i < h; i++ {
			g.Pods = append(g.Pods, pod(fmt.Sprintf("r-p%d", i), Running, "n0"))
		}
		w.Groups = append(w.Groups, g)
	}
	// blocker: pods that hold the rest of the node during cycle 0 and are gone before cycle 1 - either terminating
	// already (the gang may then be nominated in cycle 0) or running and finishing between the cycles (the gang is
	// plainly unschedulable in cycle 0 and gets a scheduling condition)
	blockerFinishes := chance(t, 6, "blockerFinishes")
	T := G - h - between(t, 0, 1, "idleNow")
	if T < 1 {
		T = 1
	}
	if T > G-h {
		T = G - h
	}
	if T > 0 {
		g := Group{Name: "b", Queue: "qa", PriorityClass: "train", Preemptibility: "non-preemptible", MinMember: 1, CreatedMin: 300, LastStartMin: 1000}
		for i := 0; i < T; i++ {
			st := Terminating
			if blockerFinishes {
				st = Running
			}
			g.Pods = append(g.Pods, pod(fmt.Sprintf("b-p%d", i), st, "n0"))
		}
		w.Groups = append(w.Groups, g)
	}
	idle0 := G - h - T
	free1 := G - h
	// subject: pending gang that does not fit on what is idle in cycle 0
	m := between(t, idle0+1, free1, "minMember")
	if m < 1 {
		m = 1
	}
	k := m + between(t, 0, 2, "surplus")
	subj := Group{Name: "j", Queue: "qa", PriorityClass: "train", Preemptibility: pickS(t, "subjPreempt", "preemptible", "non-preemptible"), MinMember: m, CreatedMin: 20}
	for i := 0; i < k; i++ {
		subj.Pods = append(subj.Pods, pod(fmt.Sprintf("j-p%d", i), Pending, ""))
	}
	w.Groups = append(w.Groups, subj)
	// a bystander that keeps the scheduler busy
	if chance(t, 5, "bystander") {
		w.Groups = append(w.Groups, Group{Name: "x", Queue: "qa", PriorityClass: "train", MinMember: 1, CreatedMin: 10,
			Pods: []Pod{{Name: "x-p0", CPU: 100, MemMB: 64, State: Pending, CreatedMin: 10}}})
	}
	w.Cycles = []CycleScript{{BindMode: 0, TermLinger: 0, Salt: 1}, {BindMode: 0, TermLinger: 0, Salt: 2}}
	if chance(t, 4, "thirdCycle") {
		w.Cycles = append(w.Cycles, CycleScript{BindMode: 0, TermLinger: 0, Salt: 3})
	}
	if blockerFinishes {
		for i := 0; i < T; i++ {
			w.Cycles[0].Mutations = append(w.Cycles[0].Mutations, Mutation{Kind: "pod-finish", Target: fmt.Sprintf("b-p%d", i)})
		}
	}
	switch uniform(t, 3, "edit") {
	case 0: // more pods needed than will fit
		if k < free1+1 {
			for i := k; i < free1+1; i++ {
				subj := &w.Groups[len(w.Groups)-1]
				if subj.Name != "j" {
					subj = &w.Groups[len(w.Groups)-2]
				}
				subj.Pods = append(subj.Pods, pod(fmt.Sprintf("j-p%d", i), Pending, ""))
			}
		}
		w.Cycles[0].Mutations = append(w.Cycles[0].Mutations, Mutation{Kind: "pg-minmember", Target: "j", Value: strconv.Itoa(free1 + 1)})
	case 1: // moved under a limit that has no room for it
		w.Cycles[0].Mutations = append(w.Cycles[0].Mutations, Mutation{Kind: "pg-queue", Target: "j", Value: "qb"})
	case 2: // the queue it stays in is limited instead
		w.Cycles[0].Mutations = append(w.Cycles[0].Mutations, Mutation{Kind: "queue-gpu", Target: "qa", Field: "limit", Value: strconv.Itoa(between(t, 0, m-1, "newLimit"))})
	}
	return w
}

// GenDRALifecycleFamily builds histories of one scheduler process in which DRA devices go through their whole life:
// pods with device claims are bound through bind requests that are still live when the next session opens, run,
// finish, their claims are deallocated by the claim controller - and other pending pods need exactly those devices.
// Whatever the process remembers of a claim (assumed states, in-flight allocations) must not outlive the claim's real
// state: a device that is free in the API is given to the next pod that needs it (C05), and never to two (C01).
func GenDRALifecycleFamily(t *rapid.T) *World {
	w := &World{Family: "dra-lifecycle"}
	w.PersistentScheduler = chance(t, 9, "persistent")
	c := &w.Config
	c.FullHierarchy = true
	c.PlacementGPU, c.PlacementCPU = "binpack", "binpack"
	c.MaxConsolidation = 16
	c.Actions = []string{"allocate"}
	nNodes := between(t, 1, 2, "nNodes")
	for i := 0; i < nNodes; i++ {
		w.Nodes = append(w.Nodes, Node{Name: fmt.Sprintf("n%d", i), CPU: 32000, MemMB: 65536, Pods: 110, Labels: map[string]string{},
			DRA: map[string]int{DRAClass: between(t, 1, 2, "devices")}})
	}
	free := QRes{Quota: -1, Limit: -1, Weight: 1}
	w.Queues = []Queue{{Name: "root", GPU: free, CPU: free, Mem: free}, {Name: "qa", Parent: "root", GPU: free, CPU: free, Mem: free}}
	total := 0
	for _, n := range w.Nodes {
		total += n.DRA[DRAClass]
	}
	// first wave: as many single-pod workloads as there are devices (they take them all), second wave: waits
	nFirst := total
	nSecond := between(t, 1, total, "secondWave")
	mk := func(name string, created int) Group {
		return Group{Name: name, Queue: "qa", PriorityClass: "train", MinMember: 1, CreatedMin: created,
			Pods: []Pod{{Name: name + "-p0", CPU: 100, MemMB: 64, State: Pending, CreatedMin: created, Claims: []Claim{{Name: "nic", Class: DRAClass, Count: 1}}}}}
	}
	for i := 0; i < nFirst; i++ {
		w.Groups = append(w.Groups, mk(fmt.Sprintf("a%d", i), 500-i))
	}
	for i := 0; i < nSecond; i++ {
		w.Groups = append(w.Groups, mk(fmt.Sprintf("b%d", i), 100-i))
	}
	// cycle 0: first wave is bound, the binder does not get to the requests before cycle 1 opens (or does);
	// then the binder completes them; some of the first wave finish; enough cycles for the second wave to follow
	w.Cycles = []CycleScript{{BindMode: pickInt(t, "bind0", 1, 1, 0), Salt: 1}, {BindMode: 0, Salt: 2}}
	nFinish := between(t, 1, nFirst, "finishing")
	gap := between(t, 1, 2, "finishGap")
	for len(w.Cycles) <= gap {
		w.Cycles = append(w.Cycles, CycleScript{BindMode: 0, Salt: len(w.Cycles) + 1})
	}
	for i := 0; i < nFinish; i++ {
		w.Cycles[gap].Mutations = append(w.Cycles[gap].Mutations, Mutation{Kind: "pod-finish", Target: fmt.Sprintf("a%d-p0", i)})
	}
	for k := between(t, 3, 4, "tail"); k > 0; k-- {
		w.Cycles = append(w.Cycles, CycleScript{BindMode: 0, Salt: len(w.Cycles) + 1})
	}
	return w
}

// GenTwoBranchReclaimFamily builds saturated one-node clusters with two departments: d1 holds the reclaimer's queue
// q-r and a sibling q-s, d2 holds q-o. The pending reclaimer needs more GPUs than the preemptible pods of either
// branch hold, so the only scenario that places it takes victims from inside its own department AND from the other
// department in one decision - the case in which an ancestor of the reclaimer is also an ancestor of a victim.
// Quotas are drawn freely: in some worlds the reclaim is legitimate, in others it would leave d1 above its fair share
// and more saturated than d2 and must not happen. Judged by the general C07 oracle.
func GenTwoBranchReclaimFamily(t *rapid.T) *World {
	w := &World{Family: "two-branch-reclaim"}
	c := &w.Config
	c.FullHierarchy = true
	c.Actions = []string{"allocate", "reclaim"}
	c.PlacementGPU = pickS(t, "placementGpu", "binpack", "spread")
	c.PlacementCPU = "binpack"
	c.MaxConsolidation = 16
	c.ConsolidatingReclaim = chance(t, 3, "consolidatingReclaim")
	c.SaturationMultiplier = pickS(t, "satMult", "", "1.2", "1.5", "2")
	sNP, sP := between(t, 0, 3, "sNonPreemptible"), between(t, 1, 3, "sPreemptible")
	oNP, oP := between(t, 0, 4, "oNonPreemptible"), between(t, 1, 3, "oPreemptible")
	lo := sP
	if oP > lo {
		lo = oP
	}
	R := between(t, lo+1, sP+oP, "reclaimerGPUs")
	G := sNP + sP + oNP + oP
	w.Nodes = []Node{{Name: "n0", GPUs: G, GPUMem: 16000, CPU: 64000, MemMB: 131072, Pods: 110, Labels: map[string]string{}}}
	free := QRes{Quota: -1, Limit: -1, Weight: 1}
	q := func(name, parent string, quota int, weight float64) Queue {
		return Queue{Name: name, Parent: parent, GPU: QRes{Quota: float64(quota), Limit: -1, Weight: weight}, CPU: free, Mem: free, CreatedMin: 100}
	}
	// non-preemptible pods run within the deserved quota of every level (C08), everything else is free
	d1 := between(t, sNP, G, "d1Quota")
	d2 := between(t, oNP, G, "d2Quota")
	w.Queues = []Queue{
		q("d1", "", d1, pickF(t, "d1W", 1, 1, 0, 2)), q("d2", "", d2, pickF(t, "d2W", 1, 1, 0, 2)),
		q("q-r", "d1", between(t, 0, R+1, "qrQuota"), pickF(t, "qrW", 1, 0, 2)),
		q("q-s", "d1", between(t, sNP, sNP+sP+1, "qsQuota"), pickF(t, "qsW", 1, 0, 2)),
		q("q-o", "d2", between(t, oNP, oNP+oP+1, "qoQuota"), pickF(t, "qoW", 1, 0, 2)),
	}
	add := func(name, queue, preempt string, gpus int) {
		w.Groups = append(w.Groups, Group{Name: name, Queue: queue, PriorityClass: "train", Preemptibility: preempt, MinMember: 1,
			CreatedMin: 300 + len(w.Groups), LastStartMin: 1000,
			Pods: []Pod{{Name: name + "-p0", CPU: 100, MemMB: 64, GPUs: gpus, State: Running, Node: "n0", CreatedMin: 300}}})
	}
	if sNP > 0 {
		add("s-np", "q-s", "non-preemptible", sNP)
	}
	if oNP > 0 {
		add("o-np", "q-o", "non-preemptible", oNP)
	}
	// the preemptible holdings: one pod per GPU, or one pod holding all of them
	if chance(t, 5, "sOnePod") {
		add("s-p", "q-s", "preemptible", sP)
	} else {
		for i := 0; i < sP; i++ {
			add(fmt.Sprintf("s-p%d", i), "q-s", "preemptible", 1)
		}
	}
	if chance(t, 5, "oOnePod") {
		add("o-p", "q-o", "preemptible", oP)
	} else {
		for i := 0; i < oP; i++ {
			add(fmt.Sprintf("o-p%d", i), "q-o", "preemptible", 1)
		}
	}
	want := Group{Name: "want", Queue: "q-r", PriorityClass: "train", Preemptibility: "preemptible", MinMember: 1, CreatedMin: 10}
	if chance(t, 3, "reclaimerGang") {
		want.MinMember = R
		for i := 0; i < R; i++ {
			want.Pods = append(want.Pods, Pod{Name: fmt.Sprintf("want-p%d", i), CPU: 100, MemMB: 64, GPUs: 1, State: Pending, CreatedMin: 10})
		}
	} else {
		want.Pods = []Pod{{Name: "want-p0", CPU: 100, MemMB: 64, GPUs: R, State: Pending, CreatedMin: 10}}
	}
	w.Groups = append(w.Groups, want)
	w.Cycles = []CycleScript{{}}
	return w
}

// GenPriorityFlipFamily: one scheduler process for all cycles; a full cluster of running workloads of one queue whose
// priority class "flip" starts below the preemptibility boundary; after the first cycle an administrator changes the
// value of the class (across the boundary of 100, above the pending workload's priority, or back below) and the
// pending workload is given a high class. Which pods are eligible victims in the later cycles follows the class
// as it is THEN. Judged by the general C06 oracle on the model of each cycle.
func GenPriorityFlipFamily(t *rapid.T) *World {
	w := &World{Family: "priority-flip", PersistentScheduler: true}
	c := &w.Config
	c.FullHierarchy = true
	c.Actions = []string{"allocate", "preempt"}
	c.PlacementGPU = pickS(t, "placementGpu", "binpack", "spread")
	c.PlacementCPU = "binpack"
	c.MaxConsolidation = 16
	nNodes := between(t, 1, 2, "nNodes")
	gpn := pickInt(t, "gpusPerNode", 1, 2, 4)
	total := nNodes * gpn
	for i := 0; i < nNodes; i++ {
		w.Nodes = append(w.Nodes, Node{Name: fmt.Sprintf("n%d", i), GPUs: gpn, GPUMem: 16000, CPU: 32000, MemMB: 65536, Pods: 110, Labels: map[string]string{}})
	}
	free := QRes{Quota: -1, Limit: -1, Weight: 1}
	w.Queues = []Queue{{Name: "root", GPU: QRes{Quota: float64(total), Limit: -1, Weight: 1}, CPU: free, Mem: free},
		{Name: "x", Parent: "root", GPU: QRes{Quota: float64(total), Limit: -1, Weight: 1}, CPU: free, Mem: free}}
	old := pickInt(t, "flipOld", 40, 60, 90)
	w.PriorityClasses = append(DefaultPriorityClasses(), PriorityClass{Name: "flip", Value: old})
	for k := 0; k < total; k++ {
		class := "flip"
		if k > 0 && chance(t, 3, "otherRunner") {
			class = pickS(t, "otherClass", "train", "build")
		}
		name := fmt.Sprintf("run%d", k)
		w.Groups = append(w.Groups, Group{Name: name, Queue: "x", PriorityClass: class, MinMember: 1, CreatedMin: 300 + k, LastStartMin: 1000,
			Pods: []Pod{{Name: name + "-p0", CPU: 100, MemMB: 64, GPUs: 1, State: Running, Node: fmt.Sprintf("n%d", k/gpn), CreatedMin: 300}}})
	}
	// the pending workload cannot displace anybody in the first cycle: lowest class, preemptible
	w.Groups = append(w.Groups, Group{Name: "want", Queue: "x", PriorityClass: "train", MinMember: 1, CreatedMin: 10,
		Pods: []Pod{{Name: "want-p0", CPU: 100, MemMB: 64, GPUs: 1, State: Pending, CreatedMin: 10}}})
	for i, n := 0, between(t, 2, 4, "cycles"); i < n; i++ {
		w.Cycles = append(w.Cycles, CycleScript{BindMode: 0, KeepRequests: false, Salt: i})
	}
	gap := uniform(t, len(w.Cycles)-1, "flipGap")
	w.Cycles[gap].Mutations = append(w.Cycles[gap].Mutations,
		Mutation{Kind: "pc-set", Target: "flip", Value: strconv.Itoa(pickInt(t, "flipNew", 110, 130, 1000, 99, 70))},
		Mutation{Kind: "pg-priorityclass", Target: "want", Value: pickS(t, "wantClass", "inference", "inference", "build", "build-preemptible")})
	if gap+1 < len(w.Cycles)-1 && chance(t, 3, "flipBack") {
		w.Cycles[gap+1].Mutations = append(w.Cycles[gap+1].Mutations, Mutation{Kind: "pc-set", Target: "flip", Value: strconv.Itoa(old)})
	}
	return w
}
