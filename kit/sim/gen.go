package sim

import (
	"fmt"
	"sort"
	"strconv"
	"time"

	"pgregory.net/rapid"
)

// Profile re-weights the world generator for one check. Probabilities are in tenths (0..10).
type Profile struct {
	MaxNodes, MaxQueues, MaxGroups int
	MinCycles, MaxCycles           int
	PSharing                       int // a workload template is a sharing request
	PWholeGPU                      int
	PGang                          int // minMember > 1
	PElastic                       int // replicas > minMember
	PSubGroups                     int
	PRunning                       int // a workload starts (partly) running
	PTerminating                   int
	PBinding                       int
	PConstraints                   int // selectors, affinity, taints, pod (anti-)affinity
	PTopology                      int
	PSmallPodSlots                 int
	PMIG                           int
	PFaults                        int
	PNonPreemptible                int
	PMinRuntime                    int
	PDRA                           int // worlds with DRA device classes, slices and pod resource claims (0 = never)
	PLimits                        int // queues carry limits
	Actions                        [][]string
	Deep                           bool     // 3-level queue trees more likely
	NoNodeProblems                 bool     // all nodes ready / schedulable / untainted
	Closed                         bool     // closed-system environment (C15)
	IdenticalPods                  bool     // all pods of a workload identical (always true today)
	GPUNodesOnly                   bool     // every node has GPUs
	NoBindFailures                 bool     // the binder model never fails a request
	Fill                           bool     // small nodes and many running workloads: clusters are (nearly) full
	PPool                          int      // the scheduler is restricted to a node pool; nodes/pods carry pool labels
	Saturated                      bool     // idle GPUs are filled with running filler workloads (see Saturate)
	Contention                     bool     // GPUs are the bottleneck: GPU nodes, GPU workloads, meaningful GPU quotas
	PPersistent                    int      // a world's cycles are served by ONE scheduler process (process.go) instead of a restart per cycle
	DeeperTrees                    bool     // queue trees of four to five levels (sibling leaves under one level-3 parent)
	PHeteroConstraints             int      // chance (x/10) that the pods of a workload differ in node selector / required node affinity
	PMutations                     int      // per gap between two cycles: users / administrators change API objects
	MutationKinds                  []string // kinds of mutations drawn (nil = all)
	AntiFamily                     bool     // anti-affinity families: 'holders' (required pod anti-affinity against a role, small requests) and 'targets' (pods that only carry the role label) compete in full clusters
	TopoFamily                     bool     // topology families: most workloads carry a required level, start partly running inside ONE domain, sometimes with a terminating pod left in another domain
}

func DefaultProfile() Profile {
	return Profile{MaxNodes: 5, MaxQueues: 5, MaxGroups: 7, MinCycles: 1, MaxCycles: 4,
		PSharing: 3, PWholeGPU: 5, PGang: 4, PElastic: 3, PSubGroups: 2, PRunning: 5, PTerminating: 2, PBinding: 1,
		PConstraints: 2, PTopology: 1, PSmallPodSlots: 2, PMIG: 1, PFaults: 2, PNonPreemptible: 3, PMinRuntime: 2, PLimits: 4, PPersistent: 4, PMutations: 2,
		Actions: [][]string{nil, nil, {"allocate"}, {"allocate", "reclaim"}, {"allocate", "preempt"}, {"allocate", "consolidation"}, {"allocate", "reclaim", "preempt"}},
	}
}

// uniform draws an (almost exactly) uniform integer in [0,n). rapid's own integer generators are biased
// toward small values, which would silently skew every probability of the profile; eight fair bits are
// not. All-zero bits (what shrinking converges to) map to 0.
func uniform(t *rapid.T, n int, label string) int {
	if n <= 1 {
		return 0
	}
	v := 0
	bits := rapid.SliceOfN(rapid.Bool(), 8, 8).Draw(t, label)
	for _, b := range bits {
		v <<= 1
		if b {
			v |= 1
		}
	}
	return v * n / 256
}

// chance is true with probability tenths/10; shrinking drives it to false.
func chance(t *rapid.T, tenths int, label string) bool {
	if tenths <= 0 {
		return false
	}
	if tenths >= 10 {
		return true
	}
	return uniform(t, 10, label) >= 10-tenths
}

func pickInt(t *rapid.T, label string, vals ...int) int { return vals[uniform(t, len(vals), label)] }

func pickF(t *rapid.T, label string, vals ...float64) float64 {
	return vals[uniform(t, len(vals), label)]
}

func pickS(t *rapid.T, label string, vals ...string) string {
	return vals[uniform(t, len(vals), label)]
}

// between draws uniformly from [lo,hi].
func between(t *rapid.T, lo, hi int, label string) int { return lo + uniform(t, hi-lo+1, label) }

var stubNow = time.Unix(1700000000, 0)

var zones = []string{"za", "zb"}
var racks = []string{"r1", "r2", "r3"}

const (
	ZoneLabel = "topology.kubernetes.io/zone"
	RackLabel = "verif/rack"
	DiskLabel = "verif/disk"
)

// GenWorld draws a well-formed world: every precondition a real cluster guarantees holds by construction
// (leaf queues exist, running pods fit their nodes, sharing groups fit their devices ...).
func GenWorld(t *rapid.T, pf Profile) *World {
	w := &World{}
	genConfig(t, pf, w)
	if chance(t, pf.PPool, "nodePool") {
		w.Config.Pool = "pool-a"
	}
	genNodes(t, pf, w)
	if chance(t, pf.PDRA, "worldHasDRA") {
		for i := range w.Nodes {
			if chance(t, 6, "nodeHasDRA") {
				w.Nodes[i].DRA = map[string]int{DRAClass: pickInt(t, "draDevices", 1, 2, 2, 4)}
			}
			// GPUs published through DRA instead of the device plugin (nodes without nvidia.com/gpu only)
			if len(w.Nodes) > 1 && w.Nodes[i].MigStrategy == "" && w.Nodes[i].GPUs > 0 && chance(t, 2, "nodeTurnsDRAGPUs") {
				w.Nodes[i].GPUs, w.Nodes[i].GPUMem = 0, 0
			}
			if w.Nodes[i].GPUs == 0 && w.Nodes[i].MigStrategy == "" && chance(t, 5, "nodeHasDRAGPUs") {
				if w.Nodes[i].DRA == nil {
					w.Nodes[i].DRA = map[string]int{}
				}
				w.Nodes[i].DRA[DRAGPUClass] = pickInt(t, "draGpus", 1, 2, 4)
			}
		}
	}
	if w.Config.Pool != "" {
		for i := range w.Nodes {
			switch uniform(t, 4, "nodePoolLabel") {
			case 0:
				w.Nodes[i].Labels[PoolLabelKey] = "pool-b"
			case 1:
				// no pool label
			default:
				w.Nodes[i].Labels[PoolLabelKey] = w.Config.Pool
			}
		}
	}
	genQueues(t, pf, w)
	if chance(t, pf.PTopology, "hasTopology") {
		w.Topologies = []Topology{{Name: "topo", Levels: []string{ZoneLabel, RackLabel, HostnameLabel}[:between(t, 1, 3, "topoLevels")]}}
		if chance(t, 3, "secondTopology") {
			w.Topologies = append(w.Topologies, Topology{Name: "disk-topo", Levels: []string{DiskLabel}})
		}
	}
	genGroups(t, pf, w)
	assignClaimDevices(w)
	if pf.Saturated {
		Saturate(t, w, pf)
	}
	n := between(t, pf.MinCycles, pf.MaxCycles, "cycles")
	for i := 0; i < n; i++ {
		sc := CycleScript{BindMode: pickInt(t, "bindMode", 0, 0, 0, 2, 1), KeepRequests: chance(t, 5, "keepRequests"),
			TermLinger: pickInt(t, "termLinger", 0, 0, 1, 2), Salt: between(t, 0, 99, "salt"), RecreateEvicted: pf.Closed}
		if pf.NoBindFailures {
			sc.BindMode = pickInt(t, "bindModeOk", 0, 0, 1)
		}
		if pf.Closed {
			sc.BindMode = 0
			sc.TermLinger = pickInt(t, "closedLinger", 0, 0, 1)
		}
		if chance(t, pf.PFaults, "hasFault") {
			switch between(t, 0, 2, "faultKind") {
			case 0:
				sc.FailBindCreate = between(t, 1, 4, "failBind")
			case 1:
				sc.FailEvictCall = between(t, 1, 3, "failEvict")
			case 2:
				sc.FailPodDelete = between(t, 1, 3, "failDelete")
			}
		}
		w.Cycles = append(w.Cycles, sc)
	}
	if len(w.Cycles) > 1 && chance(t, pf.PPersistent, "persistentScheduler") {
		w.PersistentScheduler = true
	}
	if pf.PMutations > 0 && len(w.Cycles) > 1 && !pf.Closed {
		genMutations(t, pf, w)
	}
	return w
}

// genMutations draws API changes between cycles: priority classes that appear or change their value, workloads that
// are given another priority class, queue GPU quotas / limits / weights, node labels and cordoning.
func genMutations(t *rapid.T, pf Profile, w *World) {
	kinds := pf.MutationKinds
	if len(kinds) == 0 {
		kinds = []string{"pc-set", "pg-priorityclass", "queue-gpu", "node-label", "node-unschedulable", "node-cpu", "node-gpus", "pod-finish", "pg-queue", "pg-minmember", "pod-replace"}
	}
	allowed := map[string]bool{}
	for _, k := range kinds {
		allowed[k] = true
	}
	classNames := []string{"train", "build-preemptible", "build", "inference"}
	for _, pc := range w.PriorityClasses {
		known := false
		for _, c := range classNames {
			known = known || c == pc.Name
		}
		if !known {
			classNames = append(classNames, pc.Name)
		}
	}
	// a class that workloads name but that does not exist yet: it is created later
	if allowed["pc-set"] && len(w.Groups) > 0 && chance(t, 3, "classAppearsLater") {
		g := &w.Groups[uniform(t, len(w.Groups), "lateClassGroup")]
		if g.PriorityClass != "" {
			if w.PriorityClasses == nil {
				w.PriorityClasses = DefaultPriorityClasses()
			}
			var keep []PriorityClass
			val := 0
			for _, pc := range w.PriorityClasses {
				if pc.Name == g.PriorityClass {
					val = pc.Value
					continue
				}
				keep = append(keep, pc)
			}
			if len(keep) < len(w.PriorityClasses) {
				w.PriorityClasses = keep
				gap := uniform(t, len(w.Cycles)-1, "lateClassGap")
				w.Cycles[gap].Mutations = append(w.Cycles[gap].Mutations, Mutation{Kind: "pc-set", Target: g.PriorityClass, Value: strconv.Itoa(val)})
			}
		}
	}
	for gap := 0; gap < len(w.Cycles)-1; gap++ {
		if !chance(t, pf.PMutations, "gapHasMutations") {
			continue
		}
		for k := between(t, 1, 2, "nMutations"); k > 0; k-- {
			kind := kinds[uniform(t, len(kinds), "mutationKind")]
			var m Mutation
			switch kind {
			case "pc-set":
				m = Mutation{Kind: kind, Target: classNames[uniform(t, len(classNames), "mutClass")],
					Value: strconv.Itoa(pickInt(t, "mutClassValue", 10, 40, 60, 90, 110, 130, 1000000, -7))}
			case "pg-priorityclass":
				if len(w.Groups) == 0 {
					continue
				}
				m = Mutation{Kind: kind, Target: w.Groups[uniform(t, len(w.Groups), "mutGroup")].Name, Value: classNames[uniform(t, len(classNames), "mutGroupClass")]}
			case "queue-gpu":
				q := w.Queues[uniform(t, len(w.Queues), "mutQueue")]
				m = Mutation{Kind: kind, Target: q.Name, Field: pickS(t, "mutQField", "quota", "limit", "weight")}
				switch m.Field {
				case "quota":
					m.Value = pickS(t, "mutQuota", "0", "0.5", "1", "2", "4", "8", "-1")
				case "limit":
					m.Value = pickS(t, "mutLimit", "-1", "0", "1", "2", "4", "-1")
				default:
					m.Value = pickS(t, "mutWeight", "0", "1", "2", "3")
				}
			case "node-label":
				n := w.Nodes[uniform(t, len(w.Nodes), "mutNode")]
				m = Mutation{Kind: kind, Target: n.Name, Field: pickS(t, "mutLabel", ZoneLabel, RackLabel, DiskLabel)}
				switch m.Field {
				case ZoneLabel:
					m.Value = pickS(t, "mutZone", append([]string{""}, zones...)...)
				case RackLabel:
					m.Value = pickS(t, "mutRack", append([]string{""}, racks...)...)
				default:
					m.Value = pickS(t, "mutDisk", "", "ssd", "hdd")
				}
			case "node-cpu":
				n := w.Nodes[uniform(t, len(w.Nodes), "mutNode3")]
				m = Mutation{Kind: kind, Target: n.Name, Value: strconv.Itoa(pickInt(t, "mutCpu", 2000, 4000, 8000, 16000, 32000))}
			case "node-gpus":
				n := w.Nodes[uniform(t, len(w.Nodes), "mutNode4")]
				if n.GPUs == 0 || n.MigStrategy != "" {
					continue
				}
				m = Mutation{Kind: kind, Target: n.Name, Value: strconv.Itoa(pickInt(t, "mutGpus", 1, 2, 4, 8))}
			case "pod-finish":
				var running []string
				for _, g := range w.Groups {
					for _, p := range g.Pods {
						if p.State == Running {
							running = append(running, p.Name)
						}
					}
				}
				if len(running) == 0 {
					continue
				}
				m = Mutation{Kind: kind, Target: running[uniform(t, len(running), "mutPod")]}
			case "pg-queue":
				leaves := w.LeafQueues()
				if len(w.Groups) == 0 || len(leaves) == 0 {
					continue
				}
				g := w.Groups[uniform(t, len(w.Groups), "mutGroupQ")]
				running := false
				for _, p := range g.Pods {
					running = running || p.State != Pending
				}
				if running {
					continue // only workloads that have not started are moved (the queue of a started workload is history)
				}
				m = Mutation{Kind: kind, Target: g.Name, Value: leaves[uniform(t, len(leaves), "mutLeaf")]}
			case "pod-replace":
				var cands []string
				for _, g := range w.Groups {
					for _, p := range g.Pods {
						if len(p.Claims) == 0 && (p.State == Running || p.State == Pending) {
							cands = append(cands, p.Name)
						}
					}
				}
				if len(cands) == 0 {
					continue
				}
				m = Mutation{Kind: kind, Target: cands[uniform(t, len(cands), "mutReplace")], Value: strconv.Itoa(pickInt(t, "mutReplaceCpu", 100, 1000, 3000, 6000, 12000))}
			case "pg-minmember":
				// the owner of a workload that has not started changes how many pods it needs at least
				var cands []*Group
				for gi := range w.Groups {
					g := &w.Groups[gi]
					pendingOnly := len(g.SubGroups) == 0 && len(g.Pods) >= 2
					for _, p := range g.Pods {
						pendingOnly = pendingOnly && p.State == Pending
					}
					if pendingOnly {
						cands = append(cands, g)
					}
				}
				if len(cands) == 0 {
					continue
				}
				g := cands[uniform(t, len(cands), "mutGroupMin")]
				m = Mutation{Kind: kind, Target: g.Name, Value: strconv.Itoa(between(t, 1, len(g.Pods), "mutMin"))}
			case "node-unschedulable":
				n := w.Nodes[uniform(t, len(w.Nodes), "mutNode2")]
				// flips relative to the state reached so far
				cur := n.Unschedulable
				for g2 := 0; g2 <= gap; g2++ {
					for _, pm := range w.Cycles[g2].Mutations {
						if pm.Kind == kind && pm.Target == n.Name {
							cur = pm.Value == "true"
						}
					}
				}
				m = Mutation{Kind: kind, Target: n.Name, Value: strconv.FormatBool(!cur)}
			}
			if m.Kind != "" {
				w.Cycles[gap].Mutations = append(w.Cycles[gap].Mutations, m)
			}
		}
	}
}

func genConfig(t *rapid.T, pf Profile, w *World) {
	c := &w.Config
	if len(pf.Actions) > 0 {
		c.Actions = pf.Actions[uniform(t, len(pf.Actions), "actions")]
	}
	c.PlacementGPU = pickS(t, "placementGpu", "binpack", "binpack", "spread")
	c.PlacementCPU = pickS(t, "placementCpu", "binpack", "spread")
	c.MaxConsolidation = pickInt(t, "maxConsolidation", 16, 16, 0, -1, 2)
	c.ConsolidatingReclaim = chance(t, 5, "consolidatingReclaim")
	c.Signatures = chance(t, 5, "signatures")
	c.FullHierarchy = between(t, 0, 3, "fullHierarchy") > 0
	c.SaturationMultiplier = pickS(t, "satMult", "", "", "1.2", "2")
	c.KValue = pickS(t, "kValue", "", "", "0.5")
	c.GPUSpread = between(t, 0, 4, "gpuSpread") == 0
	if chance(t, pf.PMinRuntime, "minRuntimeArgs") {
		c.MinRuntimeArgs = map[string]string{}
		if chance(t, 5, "mrPreempt") {
			c.MinRuntimeArgs["defaultPreemptMinRuntime"] = pickS(t, "mrPreemptV", "0s", "1h", "3h")
		}
		if chance(t, 5, "mrReclaim") {
			c.MinRuntimeArgs["defaultReclaimMinRuntime"] = pickS(t, "mrReclaimV", "0s", "1h", "3h")
		}
		if chance(t, 5, "mrResolve") {
			c.MinRuntimeArgs["reclaimResolveMethod"] = pickS(t, "mrResolveV", "lca", "queue")
		}
	}
}

func genNodes(t *rapid.T, pf Profile, w *World) {
	n := between(t, 1, pf.MaxNodes, "nNodes")
	for i := 0; i < n; i++ {
		nd := Node{Name: fmt.Sprintf("n%d", i), Labels: map[string]string{}}
		nd.GPUs = pickInt(t, "gpus", 0, 1, 2, 2, 4, 4, 8)
		if pf.GPUNodesOnly && nd.GPUs == 0 {
			nd.GPUs = pickInt(t, "gpusOnly", 1, 2, 3, 4)
		}
		if nd.GPUs > 0 {
			nd.GPUMem = pickInt(t, "gpuMem", 0, 16000, 16384, 40000, 16000)
		}
		nd.CPU = pickInt(t, "cpu", 4000, 8000, 16000, 32000)
		if pf.Fill {
			nd.GPUs = pickInt(t, "gpusFill", 0, 1, 2, 2, 4)
			nd.CPU = pickInt(t, "cpuFill", 2000, 4000, 4000, 8000)
		}
		if pf.Contention {
			nd.GPUs = pickInt(t, "gpusContention", 1, 2, 2, 4)
			nd.GPUMem = pickInt(t, "gpuMemContention", 16000, 16000, 40000)
			nd.CPU, nd.MemMB = 32000, 65536
		}
		nd.MemMB = pickInt(t, "mem", 8192, 16384, 65536)
		nd.Pods = 110
		if chance(t, pf.PSmallPodSlots, "smallSlots") {
			nd.Pods = pickInt(t, "pods", 3, 4, 5, 8)
		}
		// topology / selector labels; some nodes miss some
		if chance(t, 9, "hasZone") {
			nd.Labels[ZoneLabel] = zones[between(t, 0, len(zones)-1, "zone")]
		}
		if chance(t, 8, "hasRack") {
			nd.Labels[RackLabel] = racks[between(t, 0, len(racks)-1, "rack")]
		}
		if chance(t, 5, "hasDisk") {
			nd.Labels[DiskLabel] = pickS(t, "disk", "ssd", "hdd")
		}
		if !pf.NoNodeProblems && chance(t, pf.PConstraints, "nodeProblemLikely") && chance(t, 4, "nodeProblem") {
			switch between(t, 0, 4, "problem") {
			case 0:
				nd.NotReady = true
			case 1:
				nd.Unschedulable = true
			case 2:
				nd.Taints = append(nd.Taints, Taint{Key: "dedicated", Value: pickS(t, "taintV", "a", "b"), Effect: "NoSchedule"})
			case 3:
				nd.Taints = append(nd.Taints, Taint{Key: "maint", Effect: "NoExecute"})
			case 4:
				nd.Taints = append(nd.Taints, Taint{Key: "soft", Effect: "PreferNoSchedule"})
			}
		}
		if nd.GPUs > 0 && chance(t, pf.PMIG, "migLikely") && chance(t, 4, "mig") {
			nd.MigStrategy = "mixed"
			nd.Ext = map[string]int{"nvidia.com/mig-1g.5gb": pickInt(t, "mig1g", 2, 4, 7), "nvidia.com/mig-2g.10gb": pickInt(t, "mig2g", 0, 1, 3)}
		} else if chance(t, 1, "extRes") {
			nd.Ext = map[string]int{"example.com/dongle": pickInt(t, "dongles", 1, 2, 4)}
		}
		w.Nodes = append(w.Nodes, nd)
	}
}

func genQRes(t *rapid.T, label string, scale float64, pf Profile, fractional bool) QRes {
	if !fractional && (pf.Contention || chance(t, 7, label+"Free")) {
		return QRes{Quota: -1, Limit: -1, Weight: 1}
	}
	q := QRes{Limit: -1, Weight: pickF(t, label+"W", 0, 1, 1, 1, 2, 3)}
	if fractional && pf.Contention {
		q.Quota = pickF(t, label+"QC", 0, 0, 1, 1, 2, 2, 3, 4)
		q.Weight = pickF(t, label+"WC", 1, 1, 2, 0)
	} else if fractional {
		q.Quota = pickF(t, label+"Q", -1, 0, 0, 0.5, 1, 1, 2, 4, 8)
	} else {
		q.Quota = pickF(t, label+"Q", -1, -1, 0, 2, 4, 8, 16) * scale
		if q.Quota < 0 {
			q.Quota = -1
		}
	}
	if chance(t, pf.PLimits, label+"HasL") {
		if fractional {
			q.Limit = pickF(t, label+"L", 0, 0.5, 1, 1, 2, 2, 3, 4, 8)
		} else {
			q.Limit = pickF(t, label+"L", 2, 4, 8, 16, 32) * scale
		}
	}
	return q
}

func genQueues(t *rapid.T, pf Profile, w *World) {
	nTop := between(t, 1, 2, "nTop")
	id := 0
	total := 0
	mk := func(parent string) *Queue {
		q := Queue{Name: fmt.Sprintf("q%d", id), Parent: parent, CreatedMin: between(t, 0, 5, "qCreated")}
		id++
		q.GPU = genQRes(t, "qGpu", 1, pf, true)
		q.CPU = genQRes(t, "qCpu", 1000, pf, false)
		q.Mem = genQRes(t, "qMem", 1024, pf, false)
		if chance(t, 3, "qHasPrio") {
			p := between(t, 0, 3, "qPrio")
			q.Priority = &p
		}
		if chance(t, pf.PMinRuntime, "qMinRt") {
			if chance(t, 5, "qPreemptRt") {
				v := pickInt(t, "qPreemptRtV", 0, 3600, 10800)
				q.PreemptMinRuntime = &v
			}
			if chance(t, 5, "qReclaimRt") {
				v := pickInt(t, "qReclaimRtV", 0, 3600, 10800)
				q.ReclaimMinRuntime = &v
			}
		}
		w.Queues = append(w.Queues, q)
		total++
		return &w.Queues[len(w.Queues)-1]
	}
	for i := 0; i < nTop; i++ {
		top := mk("")
		topName := top.Name
		kids := between(t, 1, 3, "kids")
		if w.Config.FullHierarchy && i > 0 && chance(t, 3, "topLevelLeaf") {
			kids = 0 // a one-level queue: top-level and leaf at once
		}
		for k := 0; k < kids && total < pf.MaxQueues+nTop; k++ {
			mid := mk(topName)
			midName := mid.Name
			if w.Config.FullHierarchy && (pf.Deep || between(t, 0, 3, "deeper") == 0) && total < pf.MaxQueues+nTop {
				for j := 0; j < between(t, 1, 2, "grandKids"); j++ {
					gk := mk(midName).Name
					// four (rarely five) levels, sibling leaves under one level-3 parent
					if pf.DeeperTrees && chance(t, 4, "level4") && total < pf.MaxQueues+nTop+4 {
						for l := 0; l < between(t, 2, 3, "level4Kids"); l++ {
							l4 := mk(gk).Name
							if l == 0 && chance(t, 2, "level5") {
								mk(l4)
								mk(l4)
							}
						}
					}
				}
			}
		}
	}
}

// LeafQueues of the world's tree.
func (w *World) LeafQueues() []string {
	hasKids := map[string]bool{}
	for _, q := range w.Queues {
		if q.Parent != "" {
			hasKids[q.Parent] = true
		}
	}
	var out []string
	for _, q := range w.Queues {
		if !hasKids[q.Name] && (q.Parent != "" || w.Config.FullHierarchy) {
			out = append(out, q.Name)
		}
	}
	sort.Strings(out)
	return out
}

type placer struct {
	w     *World
	caps  map[string]NodeCap
	use   map[string]*Usage
	order []string
}

func newPlacer(w *World) *placer {
	p := &placer{w: w, caps: map[string]NodeCap{}, use: map[string]*Usage{}}
	for i := range w.Nodes {
		n := BuildNode(&w.Nodes[i])
		p.caps[n.Name] = NodeCapacity(n)
		p.use[n.Name] = NewUsage()
		p.order = append(p.order, n.Name)
	}
	return p
}

// place finds a node (and GPU groups) on which the request fits without oversubscribing anything,
// counting one pod slot for the reservation pod of every group it opens. start rotates the search.
func (p *placer) place(req Request, start int, name string, allow func(node string) bool) (string, []string, bool) {
	for k := 0; k < len(p.order); k++ {
		nn := p.order[(start+k)%len(p.order)]
		if allow != nil && !allow(nn) {
			continue
		}
		c, u := p.caps[nn], p.use[nn]
		node := p.nodeModel(nn)
		if node.MigStrategy == "mixed" && (req.GPUs > 0 || req.Sharing()) {
			continue
		}
		if u.CPU+req.CPU > c.CPU || u.Mem+req.Mem > c.Mem {
			continue
		}
		ok := true
		for k2, v := range req.Ext {
			if u.Ext[k2]+v > c.Ext[k2] {
				ok = false
			}
		}
		if !ok {
			continue
		}
		if !req.Sharing() {
			if u.Pods+1 > c.Pods || u.WholeGPUs+int64(len(u.Groups))+req.GPUs > c.GPUs {
				continue
			}
			u.Add(name, req, nil, false, c)
			return nn, nil, true
		}
		// sharing request: pick req.Devices distinct groups with room, opening new ones on free devices
		devMem := c.GPUMem
		if req.GPUMem > 0 {
			// gpu-memory requests are judged against the label as the scheduler reads it (floored to 100 MiB): initial
			// states are states the scheduler could have produced
			devMem -= devMem % 100
		}
		if devMem == 0 {
			devMem = 100
		}
		need := DeviceMemory(req, c)
		if need > devMem || need <= 0 || c.GPUs == 0 {
			continue
		}
		var chosen []string
		gnames := make([]string, 0, len(u.Groups))
		for g := range u.Groups {
			gnames = append(gnames, g)
		}
		sort.Strings(gnames)
		for _, g := range gnames {
			if int64(len(chosen)) < req.Devices && u.Groups[g]+need <= devMem {
				chosen = append(chosen, g)
			}
		}
		opened := 0
		for int64(len(chosen)) < req.Devices {
			if u.WholeGPUs+int64(len(u.Groups))+int64(opened)+1 > c.GPUs {
				break
			}
			chosen = append(chosen, fmt.Sprintf("grp-%s-%d", nn, len(u.Groups)+opened))
			opened++
		}
		if int64(len(chosen)) < req.Devices || u.Pods+1+int64(opened) > c.Pods {
			continue
		}
		u.Add(name, req, chosen, false, c)
		u.Pods += int64(opened) // reservation pods
		return nn, chosen, true
	}
	return "", nil, false
}

func (p *placer) nodeModel(name string) *Node {
	for i := range p.w.Nodes {
		if p.w.Nodes[i].Name == name {
			return &p.w.Nodes[i]
		}
	}
	return nil
}

func genTemplate(t *rapid.T, pf Profile, w *World) Pod {
	p := Pod{CPU: pickInt(t, "pCpu", 100, 500, 1000, 2000), MemMB: pickInt(t, "pMem", 128, 1024, 2048)}
	if pf.Contention {
		p.CPU, p.MemMB = pickInt(t, "pCpuC", 100, 500), 128
	}
	hasGPUNodes, hasMIG, hasDongle := false, false, false
	for _, n := range w.Nodes {
		if n.GPUs > 0 && n.MigStrategy != "mixed" {
			hasGPUNodes = true
		}
		if n.MigStrategy == "mixed" {
			hasMIG = true
		}
		if n.Ext["example.com/dongle"] > 0 {
			hasDongle = true
		}
	}
	switch {
	case hasMIG && chance(t, 3, "migPod"):
		p.Ext = map[string]int{pickS(t, "migProfile", "nvidia.com/mig-1g.5gb", "nvidia.com/mig-2g.10gb"): pickInt(t, "migCount", 1, 1, 2)}
	case hasGPUNodes && chance(t, pf.PSharing, "sharing"):
		switch between(t, 0, 3, "shareKind") {
		case 0, 1:
			p.Fraction = pickS(t, "fraction", "0.5", "0.25", "0.3", "0.7", "0.1", "0.9", "0.33")
		case 2:
			p.GPUMemory = pickInt(t, "gpuMemory", 2000, 4000, 8000, 10000, 16000)
			// requests at and just around the memory of an existing device (the scheduler turns MiB into a portion
			// of the node's device, in hundredths; a request slightly above the device must not become portion 1.00)
			if chance(t, 3, "gpuMemoryNearDevice") {
				var mems []int
				for _, n := range w.Nodes {
					if n.GPUs > 0 && n.GPUMem > 0 && n.MigStrategy != "mixed" {
						mems = append(mems, n.GPUMem, n.GPUMem-n.GPUMem%100)
					}
				}
				if len(mems) > 0 {
					m := mems[uniform(t, len(mems), "nearDeviceOf")]
					switch between(t, 0, 7, "nearDeviceKind") {
					case 0:
						p.GPUMemory = m
					case 1:
						p.GPUMemory = m + 1
					case 2:
						p.GPUMemory = m + m/400
					case 3:
						p.GPUMemory = m + m/210
					case 4:
						p.GPUMemory = m + m/100
					case 5:
						p.GPUMemory = m - 1
					case 6:
						p.GPUMemory = m/2 + 1
					case 7:
						p.GPUMemory = m/2 + m/300
					}
				}
			}
		case 3:
			p.Fraction = pickS(t, "mfFraction", "0.5", "0.25", "0.6")
			p.Devices = pickInt(t, "devices", 2, 2, 3)
		}
	case hasGPUNodes && chance(t, pf.PWholeGPU, "wholeGpu"):
		p.GPUs = pickInt(t, "pGpus", 1, 1, 1, 2, 2, 4, 8)
		if pf.Contention {
			p.GPUs = pickInt(t, "pGpusC", 1, 1, 1, 2)
		}
	}
	if hasDongle && chance(t, 3, "dongle") {
		if p.Ext == nil {
			p.Ext = map[string]int{}
		}
		p.Ext["example.com/dongle"] = 1
	}
	if chance(t, 1, "initContainer") {
		p.InitCPU = pickInt(t, "initCpu", 100, 3000)
		if chance(t, 3, "initMem") {
			p.InitMemMB = pickInt(t, "initMemMB", 64, 2048, 6000)
		}
	}
	// runtime-class overhead; together with a larger init container the order of max() and + matters
	if chance(t, 1, "podOverhead") || (p.InitCPU > 0 && chance(t, 5, "podOverheadWithInit")) {
		p.OverheadCPU = pickInt(t, "overheadCpu", 250, 1000, 2000)
		if chance(t, 5, "overheadMem") {
			p.OverheadMemMB = pickInt(t, "overheadMemMB", 128, 1024, 4096)
		}
	}
	hasDRA, hasDRAGPU := false, false
	for _, n := range w.Nodes {
		hasDRA = hasDRA || n.DRA[DRAClass] > 0
		hasDRAGPU = hasDRAGPU || n.DRA[DRAGPUClass] > 0
	}
	if hasDRA && chance(t, 5, "draClaim") {
		p.Claims = []Claim{{Name: "nic", Class: DRAClass, Count: pickInt(t, "draCount", 1, 1, 2)}}
	}
	if hasDRAGPU && p.GPUs == 0 && p.Fraction == "" && p.GPUMemory == 0 && len(p.Ext) == 0 && chance(t, 5, "draGpuClaim") {
		p.Claims = append(p.Claims, Claim{Name: "gpu", Class: DRAGPUClass, Count: pickInt(t, "draGpuCount", 1, 1, 2)})
	}
	if pf.AntiFamily {
		switch uniform(t, 10, "antiFamilyRole") {
		case 0, 1, 2, 3: // holder: forbids pods of a role in its host / zone; usually small so that allocate binds it at once
			p.PodAffinity = []PodAffinityTerm{{Anti: true, TopologyKey: pickS(t, "antiKeyF", HostnameLabel, HostnameLabel, ZoneLabel), MatchLabels: map[string]string{"role": pickS(t, "antiRoleF", "x", "y")}}}
			if chance(t, 3, "holderHasRole") {
				p.Labels = map[string]string{"role": pickS(t, "holderRole", "x", "y")}
			}
			if chance(t, 6, "holderCpuOnly") {
				p.GPUs, p.Fraction, p.GPUMemory, p.Devices, p.Ext, p.Claims = 0, "", 0, 0, nil, nil
			}
		case 4, 5, 6, 7, 8: // target: only carries the role
			p.Labels = map[string]string{"role": pickS(t, "targetRole", "x", "y")}
		}
		return p
	}
	if chance(t, pf.PConstraints, "constrained") {
		switch between(t, 0, 5, "constraintKind") {
		case 0:
			p.NodeSelector = map[string]string{ZoneLabel: zones[between(t, 0, len(zones)-1, "selZone")]}
		case 1:
			p.NodeSelector = map[string]string{DiskLabel: pickS(t, "selDisk", "ssd", "hdd", "nvme")}
		case 2:
			p.Affinity = []AffinityTerm{{Key: RackLabel, Op: pickS(t, "affOp", "In", "NotIn", "Exists", "DoesNotExist"), Values: []string{racks[between(t, 0, len(racks)-1, "affRack")]}}}
			if p.Affinity[0].Op == "Exists" || p.Affinity[0].Op == "DoesNotExist" {
				p.Affinity[0].Values = nil
			}
		case 3:
			p.Tolerations = []Toleration{{Key: "dedicated", Operator: "Equal", Value: pickS(t, "tolV", "a", "b"), Effect: "NoSchedule"}}
			if chance(t, 5, "tolAll") {
				p.Tolerations = []Toleration{{Operator: "Exists"}}
			}
		case 4:
			p.PodAffinity = []PodAffinityTerm{{Anti: true, TopologyKey: pickS(t, "antiKey", HostnameLabel, ZoneLabel), MatchLabels: map[string]string{"role": pickS(t, "antiRole", "x", "y")}}}
			p.Labels = map[string]string{"role": pickS(t, "ownRole", "x", "y")}
		case 5:
			p.PodAffinity = []PodAffinityTerm{{TopologyKey: pickS(t, "affKey", HostnameLabel, ZoneLabel), MatchLabels: map[string]string{"role": pickS(t, "affRole", "x", "y")}}}
			p.Labels = map[string]string{"role": pickS(t, "ownRole2", "x", "y")}
		}
	}
	if p.Labels == nil && chance(t, 2, "roleLabel") {
		p.Labels = map[string]string{"role": pickS(t, "plainRole", "x", "y")}
	}
	return p
}

func genGroups(t *rapid.T, pf Profile, w *World) {
	leaves := w.LeafQueues()
	pl := newPlacer(w)
	// running pods also respect queue limits and non-preemptible quota, as a real history would have
	tree := w.QueueTree()
	qAll, qNP := map[string][3]float64{}, map[string][3]float64{}
	admit := func(g *Group, req Request, node string) bool {
		pre := true
		wl := (&World{Groups: []Group{*g}, PriorityClasses: w.PriorityClasses}).Workloads()[g.Name]
		if wl != nil {
			pre = wl.Preemptible
		}
		ch := Charge(req, pl.caps[node])
		chain := Chain(tree, g.Queue)
		for _, q := range chain {
			for r := 0; r < 3; r++ {
				if ch[r] > 0 && q.Limit[r] >= 0 && qAll[q.Name][r]+ch[r] > q.Limit[r]+1e-9 {
					return false
				}
				if ch[r] > 0 && !pre && q.Deserved[r] >= 0 && qNP[q.Name][r]+ch[r] > q.Deserved[r]+1e-9 {
					return false
				}
			}
		}
		for _, q := range chain {
			a, n := qAll[q.Name], qNP[q.Name]
			for r := 0; r < 3; r++ {
				a[r] += ch[r]
				if !pre {
					n[r] += ch[r]
				}
			}
			qAll[q.Name], qNP[q.Name] = a, n
		}
		return true
	}
	n := between(t, 1, pf.MaxGroups, "nGroups")
	for gi := 0; gi < n; gi++ {
		g := Group{Name: fmt.Sprintf("j%d", gi), Queue: leaves[between(t, 0, len(leaves)-1, "queue")],
			CreatedMin: between(t, 1, 600, "gCreated")}
		g.PriorityClass = pickS(t, "prioClass", "train", "train", "build-preemptible", "build", "inference", "")
		if chance(t, pf.PNonPreemptible, "explicitPreemptibility") {
			g.Preemptibility = pickS(t, "preemptibility", "preemptible", "non-preemptible")
		}
		tmpl := genTemplate(t, pf, w)
		min := 1
		if chance(t, pf.PGang, "gang") {
			min = between(t, 2, 4, "minMember")
		}
		replicas := min
		if chance(t, pf.PElastic, "elastic") {
			replicas = min + between(t, 1, 2, "surplus")
		}
		g.MinMember = min
		// sub-groups: split the pods into 2-3 pod sets (optionally under a parent)
		var sets []string
		if min >= 2 && chance(t, pf.PSubGroups, "subGroups") {
			k := between(t, 2, 3, "nSubGroups")
			if k > min {
				k = min
			}
			parent := ""
			// hierarchy above the pod sets: none / one parent / two sibling parents (the root then has only
			// sub-group sets below it, no pod set of its own) / two sibling parents under a common top
			parents := []string{""}
			switch uniform(t, 8, "sgHierarchy") {
			case 0, 1, 2:
				parent = "all"
				g.SubGroups = append(g.SubGroups, SubGroup{Name: "all"})
				parents = []string{"all"}
			case 3, 4:
				g.SubGroups = append(g.SubGroups, SubGroup{Name: "ga"}, SubGroup{Name: "gb"})
				parents = []string{"ga", "gb"}
			case 5:
				g.SubGroups = append(g.SubGroups, SubGroup{Name: "top"}, SubGroup{Name: "ga", Parent: "top"}, SubGroup{Name: "gb", Parent: "top"})
				parents = []string{"ga", "gb"}
			}
			left := min
			for s := 0; s < k; s++ {
				if len(parents) == 2 {
					parent = parents[1]
					if s == 0 {
						parent = parents[0]
					}
				}
				m := 1
				if s == k-1 {
					m = left
				} else if left-(k-s-1) > 1 {
					m = between(t, 1, left-(k-s-1), "sgMin")
				}
				left -= m
				g.SubGroups = append(g.SubGroups, SubGroup{Name: fmt.Sprintf("s%d", s), Min: m, Parent: parent})
				sets = append(sets, fmt.Sprintf("s%d", s))
			}
		}
		if len(w.Topologies) > 0 && (chance(t, 6, "topoConstraint") || pf.TopoFamily) {
			tp := w.Topologies[between(t, 0, len(w.Topologies)-1, "topoIdx")]
			tc := &TopoConstraint{Topology: tp.Name}
			if chance(t, 1, "unknownTopo") {
				tc.Topology = "missing-topo"
			}
			lvl := tp.Levels[between(t, 0, len(tp.Levels)-1, "topoLevel")]
			if between(t, 0, 3, "topoRequired") > 0 {
				tc.Required = lvl
			} else {
				tc.Preferred = lvl
			}
			if len(sets) > 0 && chance(t, 5, "topoOnSubGroup") {
				idx := between(t, 0, len(g.SubGroups)-1, "topoSg")
				g.SubGroups[idx].Topo = tc
			} else {
				g.Topo = tc
			}
		}
		// pods
		state := Pending
		if chance(t, pf.PRunning, "startsRunning") {
			state = Running
		}
		runningCount := replicas
		if state == Running && replicas > 1 && (between(t, 0, 3, "partial") == 0 || (pf.TopoFamily && chance(t, 6, "partialTopo"))) {
			runningCount = between(t, 1, replicas, "runningCount") // partially running (elastic growth or stale gang)
		}
		start := between(t, 0, len(w.Nodes)-1, "placeStart")
		// terminating / binding are decided per workload (whole workload, or one pod of it)
		termMode, bindMode := 0, 0
		if state == Running && chance(t, pf.PTerminating, "terminatingWorkload") {
			termMode = pickInt(t, "termMode", 1, 2) // 1 all pods, 2 first pod only
		} else if state == Running && chance(t, pf.PBinding, "bindingWorkload") {
			bindMode = pickInt(t, "bindingMode", 1, 2)
		}
		// Topology-aware history: the running pods of a workload with a required level lie in one domain of
		// that level (as the scheduler would have placed them); optionally (termMode 3) the first pod is a
		// terminating left-over in ANOTHER domain - the workload moved, its old pod has not gone yet.
		var reqTopo *TopoConstraint
		if g.Topo != nil && g.Topo.Required != "" {
			reqTopo = g.Topo
		}
		for _, sg := range g.SubGroups {
			if reqTopo == nil && sg.Topo != nil && sg.Topo.Required != "" {
				reqTopo = sg.Topo
			}
		}
		var domainOfNode func(node string) (string, bool)
		if reqTopo != nil {
			for _, tp := range w.Topologies {
				if tp.Name != reqTopo.Topology {
					continue
				}
				lvl := -1
				for i, l := range tp.Levels {
					if l == reqTopo.Required {
						lvl = i
					}
				}
				if lvl < 0 {
					break
				}
				levels := tp.Levels[:lvl+1]
				domainOfNode = func(node string) (string, bool) {
					nm := pl.nodeModel(node)
					d := ""
					for _, l := range levels {
						v := nm.Labels[l]
						if l == HostnameLabel {
							v = nm.Name
						}
						if v == "" {
							return "", false
						}
						d += "/" + v
					}
					return d, true
				}
			}
		}
		topoAware := domainOfNode != nil && (pf.TopoFamily || chance(t, 7, "topoAwareHistory"))
		if topoAware && state == Running && replicas > 1 && termMode == 0 && bindMode == 0 && chance(t, 4, "staleDomainPod") {
			termMode = 3
		}
		pinDomain, staleDomain := "", ""
		allowNode := func(pi int) func(string) bool {
			if !topoAware {
				return nil
			}
			return func(node string) bool {
				d, ok := domainOfNode(node)
				if !ok {
					return false
				}
				if termMode == 3 && pi == 0 {
					return true
				}
				if staleDomain != "" && d == staleDomain {
					return false
				}
				return pinDomain == "" || d == pinDomain
			}
		}
		perSet := map[string]int{}
		// pods of one workload need not come from one template: launcher / worker roles with their own node selector
		// or required node affinity
		hetero := pf.PHeteroConstraints > 0 && replicas > 1 && chance(t, pf.PHeteroConstraints, "heteroConstraints")
		for pi := 0; pi < replicas; pi++ {
			p := tmpl
			if hetero {
				p.NodeSelector, p.Affinity = nil, nil
				if pi > 0 || chance(t, 3, "firstPodConstrainedToo") {
					switch between(t, 0, 3, "heteroKind") {
					case 0:
						p.NodeSelector = map[string]string{ZoneLabel: zones[between(t, 0, len(zones)-1, "hSelZone")]}
					case 1:
						p.NodeSelector = map[string]string{DiskLabel: pickS(t, "hSelDisk", "ssd", "hdd", "nvme")}
					case 2:
						p.Affinity = []AffinityTerm{{Key: RackLabel, Op: pickS(t, "hAffOp", "In", "NotIn"), Values: []string{racks[between(t, 0, len(racks)-1, "hAffRack")]}}}
					case 3: // this pod stays unconstrained
					}
				}
			}
			p.Name = fmt.Sprintf("%s-p%d", g.Name, pi)
			p.CreatedMin = g.CreatedMin
			if len(sets) > 0 {
				// fill each set to its minimum first, surplus goes to the last set
				p.SubGroup = sets[len(sets)-1]
				for _, sg := range g.SubGroups {
					if sg.Min > 0 && perSet[sg.Name] < sg.Min {
						p.SubGroup = sg.Name
						break
					}
				}
				perSet[p.SubGroup]++
			}
			p.State = Pending
			if state == Running && pi < runningCount {
				req := PodRequest(BuildPod(&g, &p, stubNow))
				if node, groups, ok := pl.place(req, start, p.Name, allowNode(pi)); ok && admit(&g, req, node) {
					p.State, p.Node, p.Groups = Running, node, groups
					if topoAware {
						d, _ := domainOfNode(node)
						if termMode == 3 && pi == 0 {
							staleDomain = d
						} else if pinDomain == "" {
							pinDomain = d
						}
					}
					if termMode == 1 || ((termMode == 2 || termMode == 3) && pi == 0) {
						p.State = Terminating
					} else if bindMode == 1 || (bindMode == 2 && pi == 0) {
						p.State = Binding
					}
				}
			}
			g.Pods = append(g.Pods, p)
		}
		anyRunning := false
		for _, p := range g.Pods {
			if p.State == Running || p.State == Binding {
				anyRunning = true
			}
		}
		if anyRunning {
			g.LastStartMin = pickInt(t, "lastStart", 5, 30, 90, 240, 1000)
		}
		// a gang that runs with fewer pods than its minimum has been marked stale some time ago: the grace period
		// (60 s by default) is over and the stale-gang eviction action may act in this history
		active := 0
		for _, p := range g.Pods {
			if p.State == Running || p.State == Binding {
				active++
			}
		}
		if active > 0 && active < g.MinMember && chance(t, 6, "staleSince") {
			g.StaleMin = pickInt(t, "staleMin", 2, 30, 600)
		}
		w.Groups = append(w.Groups, g)
	}
}

// Saturate fills the GPUs the generated world leaves idle with running one-GPU filler workloads spread over
// the leaf queues (preemptible, priority "train", started long ago), so that pending workloads can only be
// placed by reclaiming, preempting or consolidating. Queue GPU limits are respected.
func Saturate(t *rapid.T, w *World, pf Profile) int {
	pl := newPlacer(w)
	for gi := range w.Groups {
		g := &w.Groups[gi]
		for pi := range g.Pods {
			p := &g.Pods[pi]
			if p.State == Running || p.State == Terminating || p.State == Binding || p.State == BoundP {
				req := PodRequest(BuildPod(g, p, stubNow))
				if u, ok := pl.use[p.Node]; ok {
					u.Add(p.Name, req, p.Groups, false, pl.caps[p.Node])
				}
			}
		}
	}
	tree := w.QueueTree()
	qGPU := map[string]float64{}
	wls := w.Workloads()
	for gi := range w.Groups {
		g := &w.Groups[gi]
		for pi := range g.Pods {
			p := &g.Pods[pi]
			if p.State == Running || p.State == Binding || p.State == BoundP {
				ch := Charge(PodRequest(BuildPod(g, p, stubNow)), pl.caps[p.Node])
				for _, q := range Chain(tree, wls[g.Name].Queue) {
					qGPU[q.Name] += ch[RGPU]
				}
			}
		}
	}
	leaves := w.LeafQueues()
	added := 0
	for _, nn := range pl.order {
		c, u := pl.caps[nn], pl.use[nn]
		if pl.nodeModel(nn).MigStrategy == "mixed" || pl.nodeModel(nn).NotReady {
			continue
		}
		free := c.GPUs - u.WholeGPUs - int64(len(u.Groups))
		for k := int64(0); k < free; k++ {
			if u.CPU+100 > c.CPU || u.Pods+1 > c.Pods || !chance(t, 9, "fillThisGpu") {
				continue
			}
			queue := leaves[uniform(t, len(leaves), "fillQueue")]
			ok := true
			for _, q := range Chain(tree, queue) {
				if q.Limit[RGPU] >= 0 && qGPU[q.Name]+1 > q.Limit[RGPU] {
					ok = false
				}
			}
			if !ok {
				continue
			}
			for _, q := range Chain(tree, queue) {
				qGPU[q.Name]++
			}
			name := fmt.Sprintf("fill%d", added)
			g := Group{Name: name, Queue: queue, PriorityClass: "train", Preemptibility: "preemptible", MinMember: 1,
				CreatedMin: 700 + added, LastStartMin: pickInt(t, "fillStart", 30, 240, 1000),
				Pods: []Pod{{Name: name + "-p0", CPU: 100, MemMB: 64, GPUs: 1, State: Running, Node: nn, CreatedMin: 700 + added}}}
			w.Groups = append(w.Groups, g)
			u.Add(name+"-p0", Request{CPU: 100, Mem: 64000000, GPUs: 1}, nil, false, c)
			added++
		}
	}
	return added
}

// DRAClass is the device class of generated non-GPU DRA devices; DRAGPUClass names GPUs that a node publishes
// through DRA instead of the device plugin (the scheduler takes every class whose name contains "gpu" for GPUs
// and counts them in node capacity, workload and queue accounting).
const (
	DRAClass    = "nic.example.com"
	DRAGPUClass = "gpu.example.com"
)

// assignClaimDevices gives pods that already sit on a node the devices their claims hold: distinct devices of
// the node's slice, first come first served; a placed pod for whose claim the node has no devices left loses
// the claim (construction, no rejection). Pending pods keep their claims unallocated.
func assignClaimDevices(w *World) {
	next := map[string]int{}
	have := map[string]int{}
	for i := range w.Nodes {
		for class, n := range w.Nodes[i].DRA {
			have[w.Nodes[i].Name+"/"+class] = n
		}
	}
	for gi := range w.Groups {
		for pi := range w.Groups[gi].Pods {
			p := &w.Groups[gi].Pods[pi]
			if len(p.Claims) == 0 {
				continue
			}
			cl := make([]Claim, len(p.Claims))
			copy(cl, p.Claims)
			p.Claims = cl
			if p.Node == "" || p.State == Pending {
				continue
			}
			taken := map[string]int{}
			ok := true
			for ci := range p.Claims {
				c := &p.Claims[ci]
				k := p.Node + "/" + c.Class
				if next[k]+taken[k]+c.Count > have[k] {
					ok = false
					break
				}
				c.Devices = nil
				for d := 0; d < c.Count; d++ {
					c.Devices = append(c.Devices, next[k]+taken[k])
					taken[k]++
				}
			}
			if !ok {
				p.Claims = nil
				continue
			}
			for k, n := range taken {
				next[k] += n
			}
		}
	}
}
