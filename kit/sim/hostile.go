package sim

import (
	"fmt"

	"pgregory.net/rapid"
)

// Hostilize corrupts a well-formed world with malformed / adversarial API objects (C10). It returns the
// names of the corruptions applied. Everything stays well-typed: the API server would store these objects
// when the admission webhooks are disabled or bypassed (queue graphs are never validated at all).
func Hostilize(t *rapid.T, w *World) []string {
	var applied []string
	n := between(t, 1, 6, "nHostile")
	leaves := w.LeafQueues()
	for i := 0; i < n; i++ {
		op := uniform(t, 24, "hostileOp")
		name := ""
		switch op {
		case 0: // queue is its own parent
			q := &w.Queues[uniform(t, len(w.Queues), "hq")]
			q.Parent = q.Name
			name = "queue-self-parent"
		case 1: // parent cycle of length 2..4 among fresh queues, with a workload inside
			k := between(t, 2, 4, "cycleLen")
			base := len(w.Queues)
			for j := 0; j < k; j++ {
				w.Queues = append(w.Queues, Queue{Name: fmt.Sprintf("cyc%d", base+j), Parent: fmt.Sprintf("cyc%d", base+(j+1)%k),
					GPU: QRes{Quota: 1, Limit: -1, Weight: 1}, CPU: QRes{Quota: -1, Limit: -1, Weight: 1}, Mem: QRes{Quota: -1, Limit: -1, Weight: 1}})
			}
			if len(w.Groups) > 0 && chance(t, 7, "workloadInCycle") {
				w.Groups[uniform(t, len(w.Groups), "hg")].Queue = fmt.Sprintf("cyc%d", base)
			}
			name = fmt.Sprintf("queue-parent-cycle-%d", k)
		case 2: // an existing queue's parent chain is bent into a cycle
			q := &w.Queues[uniform(t, len(w.Queues), "hq2")]
			if len(leaves) > 0 {
				q.Parent = leaves[uniform(t, len(leaves), "hleaf")]
			}
			name = "queue-parent-is-descendant"
		case 3:
			w.Queues[uniform(t, len(w.Queues), "hq3")].Parent = "no-such-queue"
			name = "queue-missing-parent"
		case 4:
			if len(w.Groups) > 0 {
				w.Groups[uniform(t, len(w.Groups), "hg4")].Queue = pickS(t, "badQueue", "no-such-queue", "", w.Queues[0].Name)
			}
			name = "workload-in-missing-or-non-leaf-queue"
		case 5:
			w.Queues[uniform(t, len(w.Queues), "hq5")].NilResources = true
			name = "queue-nil-resources"
		case 6, 7:
			q := &w.Queues[uniform(t, len(w.Queues), "hq6")]
			if q.Raw == nil {
				q.Raw = map[string]string{}
			}
			key := pickS(t, "rawRes", "gpu", "cpu", "mem") + "." + pickS(t, "rawField", "quota", "limit", "weight")
			q.Raw[key] = pickS(t, "rawVal", "NaN", "+Inf", "-Inf", "-5", "1e308", "-1e308", "1e-320", "-0.5")
			name = "queue-special-number:" + q.Raw[key]
		case 8:
			if len(w.Groups) > 0 {
				g := &w.Groups[uniform(t, len(w.Groups), "hg8")]
				g.SubGroups = append(g.SubGroups, SubGroup{Name: "dup", Min: 1}, SubGroup{Name: "dup", Min: 2})
			}
			name = "podgroup-duplicate-subgroups"
		case 9:
			if len(w.Groups) > 0 {
				g := &w.Groups[uniform(t, len(w.Groups), "hg9")]
				g.SubGroups = append(g.SubGroups, SubGroup{Name: "ca", Min: 1, Parent: "cb"}, SubGroup{Name: "cb", Min: 1, Parent: "ca"})
				if len(g.Pods) > 0 {
					g.Pods[0].SubGroup = "ca"
				}
			}
			name = "podgroup-cyclic-subgroup-parents"
		case 10:
			if len(w.Groups) > 0 {
				g := &w.Groups[uniform(t, len(w.Groups), "hg10")]
				g.SubGroups = append(g.SubGroups, SubGroup{Name: "orphan", Min: 1, Parent: "no-such-parent"})
				if len(g.Pods) > 0 {
					g.Pods[len(g.Pods)-1].SubGroup = "orphan"
				}
			}
			name = "podgroup-missing-subgroup-parent"
		case 11:
			if len(w.Groups) > 0 {
				g := &w.Groups[uniform(t, len(w.Groups), "hg11")]
				g.MinMember = pickInt(t, "badMin", 0, -1, -100, len(g.Pods)+5, 1<<30)
				for k := range g.SubGroups {
					g.SubGroups[k].Min = pickInt(t, "badSgMin", 0, -1, 1000)
				}
			}
			name = "podgroup-bad-min-member"
		case 12:
			if len(w.Groups) > 0 {
				g := &w.Groups[uniform(t, len(w.Groups), "hg12")]
				g.Topo = &TopoConstraint{Topology: pickS(t, "badTopo", "no-such-topology", "topo", ""), Required: pickS(t, "badLevel", "no-such-level", "", ZoneLabel), Preferred: pickS(t, "badPref", "no-such-level", "")}
			}
			name = "podgroup-unknown-topology-or-level"
		case 13:
			if len(w.Groups) > 0 {
				g := &w.Groups[uniform(t, len(w.Groups), "hg13")]
				if len(g.Pods) > 0 {
					g.Pods[uniform(t, len(g.Pods), "hp13")].SubGroup = "no-such-subgroup"
				}
			}
			name = "pod-in-unknown-subgroup"
		case 14, 15:
			if len(w.Groups) > 0 {
				g := &w.Groups[uniform(t, len(w.Groups), "hg14")]
				val := pickS(t, "badAnn", "NaN", "abc", "-0.5", "1e308", "-1e308", "+Inf", "", "0", "1.0000001", "99999999999999999999", "0x1p-1", " 0.5")
				key := pickS(t, "annKey", GPUFractionAnn, GPUMemoryAnn, GPUDevicesAnn, "nvidia.com/mig-1g.5gb", "gpu-fraction-container-name")
				for k := range g.Pods {
					if g.Pods[k].RawAnnotations == nil {
						g.Pods[k].RawAnnotations = map[string]string{}
					}
					g.Pods[k].RawAnnotations[key] = val
				}
				name = "pod-bad-gpu-annotation:" + key
			}
		case 16:
			if len(w.Groups) > 0 {
				g := &w.Groups[uniform(t, len(w.Groups), "hg16")]
				if len(g.Pods) > 0 {
					g.Pods[uniform(t, len(g.Pods), "hp16")].NoContainers = true
				}
			}
			name = "pod-without-containers"
		case 17:
			if len(w.Groups) > 0 {
				g := &w.Groups[uniform(t, len(w.Groups), "hg17")]
				for k := range g.Pods {
					g.Pods[k].CPU, g.Pods[k].GPUs = 1<<40, pickInt(t, "hugeGpus", 0, 1000, 1<<30)
				}
			}
			name = "pod-request-larger-than-any-node"
		case 18:
			nd := &w.Nodes[uniform(t, len(w.Nodes), "hn18")]
			nd.NoLabels = true
			name = "node-without-labels"
		case 19:
			nd := &w.Nodes[uniform(t, len(w.Nodes), "hn19")]
			nd.CPU, nd.MemMB, nd.Pods = pickInt(t, "zeroCpu", 0, -1000), pickInt(t, "zeroMem", 0, -5), pickInt(t, "zeroPods", 0, -1, 110)
			name = "node-zero-or-negative-allocatable"
		case 20:
			nd := &w.Nodes[uniform(t, len(w.Nodes), "hn20")]
			nd.RawLabels = map[string]string{"nvidia.com/gpu.count": pickS(t, "badCount", "abc", "-1", "0", "99999999999", ""),
				"nvidia.com/gpu.memory": pickS(t, "badMem", "abc", "-100", "0", "1", "99", "9223372036854775807", "")}
			name = "node-garbage-gpu-labels"
		case 21:
			w.ExtraBindRequests = append(w.ExtraBindRequests, RawBindRequest{Pod: "no-such-pod", Node: pickS(t, "brNode", "no-such-node", w.Nodes[0].Name)})
			if len(w.Groups) > 0 && len(w.Groups[0].Pods) > 0 && w.Groups[0].Pods[0].State == Pending {
				w.ExtraBindRequests = append(w.ExtraBindRequests, RawBindRequest{Pod: w.Groups[0].Pods[0].Name, Node: "no-such-node"})
			}
			name = "bindrequest-for-missing-pod-or-node"
		case 22:
			if len(w.Groups) > 0 {
				w.Groups[uniform(t, len(w.Groups), "hg22")].NoPodGroup = true
			}
			name = "pods-without-podgroup"
		case 23:
			nd := &w.Nodes[uniform(t, len(w.Nodes), "hn23")]
			nd.NoStatus = true
			name = "node-without-conditions"
		}
		if name != "" {
			applied = append(applied, name)
		}
	}
	return applied
}

const (
	WitnessPod  = "witness-p0"
	WitnessNode = "witness-node"
)

// AddWitness adds a healthy workload that no malformed object touches: its own root queue with quota, its own
// tainted and labelled node, one pod selecting and tolerating that node.
func AddWitness(w *World) {
	for i := range w.Groups {
		for k := range w.Groups[i].Pods {
			// nobody else may tolerate the witness node's taint
			var keep []Toleration
			for _, tol := range w.Groups[i].Pods[k].Tolerations {
				if tol.Operator != "Exists" || tol.Key != "" {
					keep = append(keep, tol)
				}
			}
			w.Groups[i].Pods[k].Tolerations = keep
		}
	}
	w.Nodes = append(w.Nodes, Node{Name: WitnessNode, CPU: 64000, MemMB: 65536, Pods: 110, Labels: map[string]string{"witness": "true"},
		Taints: []Taint{{Key: "witness", Value: "only", Effect: "NoSchedule"}}})
	free := QRes{Quota: -1, Limit: -1, Weight: 1}
	w.Queues = append(w.Queues,
		Queue{Name: "witness-root", GPU: QRes{Quota: 1, Limit: -1, Weight: 1}, CPU: free, Mem: free},
		Queue{Name: "witness-q", Parent: "witness-root", GPU: QRes{Quota: 1, Limit: -1, Weight: 1}, CPU: free, Mem: free})
	w.Groups = append(w.Groups, Group{Name: "witness", Queue: "witness-q", PriorityClass: "train", MinMember: 1, CreatedMin: 10,
		Pods: []Pod{{Name: WitnessPod, CPU: 100, MemMB: 128, State: Pending, NodeSelector: map[string]string{"witness": "true"},
			Tolerations: []Toleration{{Key: "witness", Operator: "Equal", Value: "only", Effect: "NoSchedule"}}, CreatedMin: 10}}})
}
