package sim

import (
	"context"
	"fmt"
	"math"
	"sort"
	"strconv"
	"strings"
	"time"

	v1 "k8s.io/api/core/v1"
	resourceapi "k8s.io/api/resource/v1"
	metav1 "k8s.io/apimachinery/pkg/apis/meta/v1"

	schedulingv1alpha2 "github.com/NVIDIA/KAI-scheduler/pkg/apis/scheduling/v1alpha2"
)

// ---------------------------------------------------------------------------------------------
// reference request arithmetic (Kubernetes' definition, independent of the scheduler's resource_info)

type Request struct {
	CPU      int64            // millicpu
	Mem      int64            // bytes
	GPUs     int64            // whole GPUs (nvidia.com/gpu)
	Ext      map[string]int64 // other extended resources incl. MIG
	Fraction float64          // per-device fraction (0 = none)
	GPUMem   int64            // per-device MiB (0 = none)
	Devices  int64            // devices of a sharing request
}

func (r Request) Sharing() bool { return r.Fraction > 0 || r.GPUMem > 0 }

// PodRequest = max(sum of containers, each init container) + overhead, per resource.
func PodRequest(p *v1.Pod) Request {
	sum := map[v1.ResourceName]int64{}
	add := func(dst map[v1.ResourceName]int64, rl v1.ResourceList) {
		for k, q := range rl {
			if k == v1.ResourceCPU {
				dst[k] += q.MilliValue()
			} else {
				dst[k] += q.Value()
			}
		}
	}
	for _, c := range p.Spec.Containers {
		add(sum, c.Resources.Requests)
	}
	for _, c := range p.Spec.InitContainers {
		one := map[v1.ResourceName]int64{}
		add(one, c.Resources.Requests)
		for k, v := range one {
			if v > sum[k] {
				sum[k] = v
			}
		}
	}
	add(sum, p.Spec.Overhead)
	r := Request{Ext: map[string]int64{}}
	for k, v := range sum {
		switch k {
		case v1.ResourceCPU:
			r.CPU = v
		case v1.ResourceMemory:
			r.Mem = v
		case GPUResource:
			r.GPUs = v
		default:
			r.Ext[string(k)] = v
		}
	}
	// documented sharing annotations (docs/gpu-sharing)
	if f, err := strconv.ParseFloat(p.Annotations[GPUFractionAnn], 64); err == nil && f > 0 && f < 1 {
		r.Fraction = f
	}
	if m, err := strconv.ParseInt(p.Annotations[GPUMemoryAnn], 10, 64); err == nil && m > 0 {
		r.GPUMem = m
	}
	if r.Sharing() {
		r.Devices = 1
		if n, err := strconv.ParseInt(p.Annotations[GPUDevicesAnn], 10, 64); err == nil && n > 0 {
			r.Devices = n
		}
	}
	return r
}

// ---------------------------------------------------------------------------------------------
// snapshot of the API store

type PodView struct {
	Name, Namespace string
	UID             string
	Node            string // spec.nodeName, or the selected node of a live BindRequest
	Phase           v1.PodPhase
	Terminating     bool
	Binding         bool // pending, not on a node, live (non-failed) BindRequest
	BindFailed      bool
	Gated           bool
	Groups          []string // GPU groups (labels, or SelectedGPUGroups of the live BindRequest)
	Workload        string   // pod-group-name annotation
	SubGroup        string
	Req             Request
	Reservation     bool
	Scheduler       string
	Raw             *v1.Pod
}

// Occupying: holds capacity on Node (running, terminating, bound, being bound).
func (p *PodView) Occupying() bool {
	if p.Node == "" {
		return false
	}
	return p.Phase == v1.PodPending || p.Phase == v1.PodRunning
}

// Active = occupying and not terminating.
func (p *PodView) Active() bool { return p.Occupying() && !p.Terminating }

// PendingFree = waiting to be scheduled.
func (p *PodView) PendingFree() bool {
	return p.Node == "" && p.Phase == v1.PodPending && !p.Terminating && !p.Gated
}

type Snapshot struct {
	Pods      []*PodView
	ByName    map[string]*PodView
	Nodes     map[string]*v1.Node
	BRs       []*schedulingv1alpha2.BindRequest
	Claims    map[string]*resourceapi.ResourceClaim // DRA claims by name
	Slices    map[string]int                        // DRA devices per driver/pool
	LastStart map[string]time.Time                  // workload -> kai.scheduler/last-start-timestamp of its PodGroup
	Taken     time.Time
}

func TakeSnapshot(s *Store) *Snapshot {
	snap := &Snapshot{ByName: map[string]*PodView{}, Nodes: map[string]*v1.Node{}, LastStart: map[string]time.Time{}, Taken: time.Now()}
	if l, err := s.Kai.SchedulingV2alpha2().PodGroups("").List(context.Background(), metav1.ListOptions{}); err == nil {
		for i := range l.Items {
			if ts, err := time.Parse(time.RFC3339, l.Items[i].Annotations["kai.scheduler/last-start-timestamp"]); err == nil {
				snap.LastStart[l.Items[i].Name] = ts
			}
		}
	}
	for _, n := range s.NodesList() {
		snap.Nodes[n.Name] = n
	}
	snap.Claims = map[string]*resourceapi.ResourceClaim{}
	snap.Slices = map[string]int{}
	if l, err := s.Kube.ResourceV1().ResourceSlices().List(context.Background(), metav1.ListOptions{}); err == nil {
		for i := range l.Items {
			snap.Slices[l.Items[i].Spec.Driver+"/"+l.Items[i].Spec.Pool.Name] += len(l.Items[i].Spec.Devices)
		}
	}
	for _, rc := range s.Claims() {
		snap.Claims[rc.Name] = rc
	}
	brs := map[string]*schedulingv1alpha2.BindRequest{}
	snap.BRs = s.BindRequests()
	for _, br := range snap.BRs {
		brs[br.Namespace+"/"+br.Spec.PodName] = br
	}
	for _, p := range s.Pods() {
		pv := &PodView{Name: p.Name, Namespace: p.Namespace, UID: string(p.UID), Node: p.Spec.NodeName, Phase: p.Status.Phase,
			Terminating: p.DeletionTimestamp != nil, Workload: p.Annotations[PodGroupAnn], SubGroup: p.Labels[SubGroupLabel],
			Req: PodRequest(p), Scheduler: p.Spec.SchedulerName, Raw: p, Gated: len(p.Spec.SchedulingGates) > 0}
		pv.Reservation = p.Labels["app"] == "kai-resource-reservation"
		pv.Groups = PodGroups(p)
		if br, ok := brs[p.Namespace+"/"+p.Name]; ok && p.Spec.NodeName == "" && p.Status.Phase == v1.PodPending {
			failed := br.Status.Phase == schedulingv1alpha2.BindRequestPhaseFailed &&
				(br.Spec.BackoffLimit == nil || br.Status.FailedAttempts >= *br.Spec.BackoffLimit)
			if failed {
				pv.BindFailed = true
			} else if _, nodeExists := snap.Nodes[br.Spec.SelectedNode]; nodeExists {
				pv.Binding = true
				pv.Node = br.Spec.SelectedNode
				pv.Groups = append([]string(nil), br.Spec.SelectedGPUGroups...)
			}
		}
		snap.Pods = append(snap.Pods, pv)
		snap.ByName[p.Name] = pv
	}
	return snap
}

// ---------------------------------------------------------------------------------------------
// folding one cycle's ordered calls through the per-pod reference state machine (DESIGN.md E1)

const (
	StActive     = "A" // active at cycle start, untouched so far
	StPending    = "P"
	StTerm       = "T"
	StOther      = "O"
	StBound      = "B" // bound in this cycle
	StNominated  = "N"
	StEvicted    = "E" // active/bound/moved pod evicted in this cycle
	StMoved      = "M" // evicted, then nominated elsewhere in this cycle
	StNomDeleted = "X" // nominated pending pod deleted
)

type Fate struct {
	Pod        string
	Start      string
	State      string
	StartNode  string
	Node       string // node of the last bind / nomination
	Groups     []string
	Binds      int
	Pipes      int
	Evicts     int // successful evict calls
	FailedBind bool
	Anomalies  []string
	EvictCalls []int // indexes into Calls
	PlaceCalls []int
}

func (f *Fate) Retained() bool {
	return f.State == StActive || f.State == StBound || f.State == StMoved
}

type Fold struct {
	Fates     map[string]*Fate
	Anomalies []string
}

func startState(pv *PodView) string {
	switch {
	case pv == nil:
		return StOther
	case pv.Reservation:
		return StOther
	case pv.Terminating && pv.Occupying():
		return StTerm
	case pv.Active():
		return StActive
	case pv.PendingFree() || (pv.BindFailed && pv.Phase == v1.PodPending && !pv.Terminating):
		return StPending
	}
	return StOther
}

// FoldCalls folds calls[from:to) (whole cycle: 0,len).
func FoldCalls(before *Snapshot, calls []Call) *Fold {
	fd := &Fold{Fates: map[string]*Fate{}}
	for _, pv := range before.Pods {
		st := startState(pv)
		fd.Fates[pv.Name] = &Fate{Pod: pv.Name, Start: st, State: st, StartNode: pv.Node, Node: pv.Node, Groups: pv.Groups}
	}
	for i, c := range calls {
		f := fd.Fates[c.Pod]
		if f == nil {
			fd.Anomalies = append(fd.Anomalies, fmt.Sprintf("call %d %s on unknown pod", i, c))
			continue
		}
		switch c.Kind {
		case "bind":
			f.PlaceCalls = append(f.PlaceCalls, i)
			if c.Err != "" {
				f.FailedBind = true
				continue
			}
			f.Binds++
			if f.State != StPending {
				f.Anomalies = append(f.Anomalies, fmt.Sprintf("bind in state %s", f.State))
			}
			f.State, f.Node, f.Groups = StBound, c.Node, c.Groups
		case "pipeline":
			f.PlaceCalls = append(f.PlaceCalls, i)
			f.Pipes++
			switch f.State {
			case StPending, StNomDeleted:
				f.State = StNominated
			case StEvicted:
				f.State = StMoved
			case StNominated, StMoved:
				f.Anomalies = append(f.Anomalies, "second nomination")
			default:
				f.Anomalies = append(f.Anomalies, fmt.Sprintf("nomination in state %s", f.State))
			}
			f.Node, f.Groups = c.Node, c.Groups
		case "evict":
			if c.Err != "" {
				continue
			}
			f.EvictCalls = append(f.EvictCalls, i)
			f.Evicts++
			switch f.State {
			case StActive, StBound, StMoved:
				f.State = StEvicted
			case StNominated:
				f.State = StNomDeleted
			case StEvicted, StNomDeleted:
				f.Anomalies = append(f.Anomalies, "evicted twice")
			case StTerm:
				f.Anomalies = append(f.Anomalies, "evict of a terminating pod")
			default:
				f.Anomalies = append(f.Anomalies, fmt.Sprintf("evict in state %s", f.State))
			}
		}
	}
	return fd
}

// ---------------------------------------------------------------------------------------------
// node-level reference accounting

type NodeCap struct {
	CPU, Mem, Pods, GPUs int64
	Ext                  map[string]int64
	GPUMem               int64 // MiB per device as labelled (0 = no label)
}

func NodeCapacity(n *v1.Node) NodeCap {
	c := NodeCap{Ext: map[string]int64{}}
	for k, q := range n.Status.Allocatable {
		switch k {
		case v1.ResourceCPU:
			c.CPU = q.MilliValue()
		case v1.ResourceMemory:
			c.Mem = q.Value()
		case v1.ResourcePods:
			c.Pods = q.Value()
		case GPUResource:
			c.GPUs = q.Value()
		default:
			c.Ext[string(k)] = q.Value()
		}
	}
	if m, err := strconv.ParseInt(n.Labels["nvidia.com/gpu.memory"], 10, 64); err == nil {
		c.GPUMem = m
	}
	return c
}

// Usage is what a set of pods holds on one node.
type Usage struct {
	CPU, Mem, Pods, WholeGPUs int64
	Ext                       map[string]int64
	Groups                    map[string]int64 // group -> MiB (or per-mille of a device when the node has no memory label)
	GroupPods                 map[string][]string
}

func NewUsage() *Usage {
	return &Usage{Ext: map[string]int64{}, Groups: map[string]int64{}, GroupPods: map[string][]string{}}
}

// DeviceMemory of one device of a sharing request on a node: gpu-memory, or fraction x labelled memory
// (fraction x 100 "units" when the node carries no memory label, as the scheduler's default does).
func DeviceMemory(r Request, cap NodeCap) int64 {
	if r.GPUMem > 0 {
		return r.GPUMem
	}
	m := cap.GPUMem
	if m == 0 {
		m = 100
	}
	return int64(math.Floor(r.Fraction * float64(m)))
}

func (u *Usage) Add(name string, r Request, groups []string, reservation bool, cap NodeCap) {
	u.CPU += r.CPU
	u.Mem += r.Mem
	u.Pods++
	for k, v := range r.Ext {
		u.Ext[k] += v
	}
	if reservation {
		return // its GPU is accounted through the group it reserves
	}
	if r.Sharing() {
		for _, g := range groups {
			u.Groups[g] += DeviceMemory(r, cap)
			u.GroupPods[g] = append(u.GroupPods[g], name)
		}
		return
	}
	u.WholeGPUs += r.GPUs
}

func (u *Usage) String() string {
	gs := make([]string, 0, len(u.Groups))
	for g, m := range u.Groups {
		gs = append(gs, fmt.Sprintf("%s:%d%v", shortGroup(g), m, u.GroupPods[g]))
	}
	sort.Strings(gs)
	return fmt.Sprintf("cpu=%dm mem=%d pods=%d wholeGPUs=%d groups=[%s] ext=%v", u.CPU, u.Mem, u.Pods, u.WholeGPUs, strings.Join(gs, " "), u.Ext)
}

func shortGroup(g string) string {
	if len(g) > 8 {
		return g[:8]
	}
	return g
}

// TraceStrings renders calls for messages and samples.
func TraceStrings(calls []Call) []string {
	out := make([]string, len(calls))
	for i, c := range calls {
		out[i] = c.String()
	}
	return out
}
