package sim

import (
	"fmt"
	"os"
	"sync"

	"github.com/NVIDIA/KAI-scheduler/pkg/scheduler/framework"
)

// JudgeAccounting runs whole cycles with an event handler registered through Session.AddEventHandler that
// re-derives the scheduler's accounting from the pods at session open, on every allocate / deallocate event
// (i.e. at every step of every action and of every simulation inside the solvers) and before close (C14).
func JudgeAccounting(w *World) *Verdict {
	var mu sync.Mutex
	var findings []Finding
	events, sharedEvents, relEvents := 0, 0, 0
	seen := map[string]bool{}
	tracker := NewMoveTracker()
	check := func(ssn *framework.Session, cycle int, when string) {
		for _, d := range CheckAccounting(ssn, true, tracker.Twins) {
			mu.Lock()
			if !seen[d.Sig] {
				seen[d.Sig] = true
				findings = append(findings, Finding{Sig: "c14-" + d.Sig, Msg: when + ": " + d.Msg, Cycle: cycle})
			}
			mu.Unlock()
		}
	}
	opt := &Options{Hooks: Hooks{
		AfterOpen: func(ssn *framework.Session, cycle int) {
			tracker = NewMoveTracker()
			tracker.Start(ssn)
			check(ssn, cycle, "at session open (snapshot construction)")
			handler := func(kind string) func(e *framework.Event) {
				return func(e *framework.Event) {
					tracker.Observe(ssn, kind == "allocate")
					if tn := os.Getenv("VERIF_TRACE_NODE"); tn != "" {
						if ni := ssn.ClusterInfo.Nodes[tn]; ni != nil {
							fmt.Printf("TRACE c%d %-10s %s status=%v node=%s groups=%v | used=%v rel=%v pods=%d twins=%d\n", cycle, kind, e.Task.Name, e.Task.Status, e.Task.NodeName, e.Task.GPUGroups,
								ni.Used.Cpu(), ni.Releasing.Cpu(), len(ni.PodInfos), tracker.Count())
						}
					}
					mu.Lock()
					events++
					if len(e.Task.GPUGroups) > 0 {
						sharedEvents++
					}
					mu.Unlock()
					if node := ssn.ClusterInfo.Nodes[e.Task.NodeName]; node != nil {
						for _, p := range node.PodInfos {
							if p.Status.String() == "Releasing" || p.Status.String() == "Pipelined" {
								mu.Lock()
								relEvents++
								mu.Unlock()
								break
							}
						}
					}
					check(ssn, cycle, fmt.Sprintf("after %s event #%d for pod %s (status %v, node %s)", kind, events, e.Task.Name, e.Task.Status, e.Task.NodeName))
				}
			}
			ssn.AddEventHandler(&framework.EventHandler{AllocateFunc: handler("allocate"), DeallocateFunc: handler("deallocate")})
		},
		BeforeClose: func(ssn *framework.Session, cycle int) { check(ssn, cycle, "after the last action") },
	}}
	h := Run(w, opt)
	v := &Verdict{History: h, Findings: append(EngineFindings(h), findings...)}
	if events > 0 {
		v.Classes = append(v.Classes, "has-events")
	}
	if sharedEvents > 0 {
		v.Classes = append(v.Classes, "event-on-shared-gpu-pod")
	}
	if relEvents > 0 {
		v.Classes = append(v.Classes, "event-on-node-with-releasing-or-pipelined-pods")
	}
	if w.HasDRA() {
		v.Classes = append(v.Classes, "world-with-dra")
		for i := range w.Nodes {
			if w.Nodes[i].DRA[DRAGPUClass] > 0 {
				v.Classes = append(v.Classes, "world-with-dra-gpus")
				break
			}
		}
	}
	v.Classes = append(v.Classes, fmt.Sprintf("events:%s", bucket(events)))
	v.Nontrivial = sharedEvents > 0 || relEvents > 0
	return v
}

func bucket(n int) string {
	switch {
	case n == 0:
		return "0"
	case n < 10:
		return "1-9"
	case n < 100:
		return "10-99"
	default:
		return ">=100"
	}
}
