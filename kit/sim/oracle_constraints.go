package sim

import (
	"fmt"
	"sort"
	"strings"

	v1 "k8s.io/api/core/v1"
	metav1 "k8s.io/apimachinery/pkg/apis/meta/v1"
	"k8s.io/apimachinery/pkg/labels"
	corev1helpers "k8s.io/component-helpers/scheduling/corev1"
	"k8s.io/component-helpers/scheduling/corev1/nodeaffinity"
)

type ConstraintFacts struct {
	Placements, Constrained, TopologyJudged, TopologyPinned, AffinityJudged, UnknownTopology, InitialSpread int
}

type placedPod struct {
	pod      *v1.Pod
	node     string
	live     bool   // counts as "placed there" for anti-affinity (not terminating / evicted)
	wasOn    string // node the pod occupied at cycle start (or, for a pod placed and evicted within the cycle, before the eviction)
	leftInCy bool   // evicted (or moved away) by a call of this cycle
}

func selectorMatches(sel *metav1.LabelSelector, lbls map[string]string) bool {
	s, err := metav1.LabelSelectorAsSelector(sel)
	if err != nil {
		return false
	}
	return s.Matches(labels.Set(lbls))
}

// excludesSomeNode: does the pod carry a hard constraint that rules out at least one node of the cluster?
func excludesSomeNode(p *v1.Pod, nodes map[string]*v1.Node) bool {
	for _, n := range nodes {
		if ok, _ := nodeaffinity.GetRequiredNodeAffinity(p).Match(n); !ok {
			return true
		}
		if _, untolerated := corev1helpers.FindMatchingUntoleratedTaint(n.Spec.Taints, p.Spec.Tolerations, func(t *v1.Taint) bool {
			return t.Effect == v1.TaintEffectNoSchedule || t.Effect == v1.TaintEffectNoExecute
		}); untolerated {
			return true
		}
		if n.Spec.Unschedulable {
			return true
		}
		for _, c := range n.Status.Conditions {
			if c.Type == v1.NodeReady && c.Status != v1.ConditionTrue {
				return true
			}
		}
	}
	return p.Spec.Affinity != nil && (p.Spec.Affinity.PodAffinity != nil || p.Spec.Affinity.PodAntiAffinity != nil)
}

// CheckConstraints is the C04 oracle on one cycle.
func CheckConstraints(w *World, rec *CycleRecord) ([]Finding, ConstraintFacts) {
	w = rec.Effective(w)
	var out []Finding
	var facts ConstraintFacts
	nodes := rec.Before.Nodes
	fd := FoldCalls(rec.Before, rec.Calls)

	// pods on nodes, maintained in call order
	var placed []*placedPod
	byName := map[string]*placedPod{}
	for _, pv := range rec.Before.Pods {
		if pv.Occupying() && !pv.Reservation {
			pp := &placedPod{pod: pv.Raw, node: pv.Node, live: !pv.Terminating, wasOn: pv.Node}
			placed = append(placed, pp)
			byName[pv.Name] = pp
		}
	}
	domainOf := func(node, key string) (string, bool) {
		n := nodes[node]
		if n == nil {
			return "", false
		}
		v, ok := n.Labels[key]
		return v, ok
	}

	for i, c := range rec.Calls {
		if c.Err != "" {
			continue
		}
		if c.Kind == "evict" {
			if pp := byName[c.Pod]; pp != nil {
				pp.live = false
				pp.leftInCy = true
				if pp.wasOn == "" {
					pp.wasOn = pp.node // placed earlier in this very cycle, evicted (or moved away) now
				}
			}
			continue
		}
		pv := rec.Before.ByName[c.Pod]
		if pv == nil {
			continue
		}
		p := pv.Raw
		n := nodes[c.Node]
		facts.Placements++
		if excludesSomeNode(p, nodes) {
			facts.Constrained++
		}
		what := fmt.Sprintf("call %d (%s)", i, c)
		if n == nil {
			out = append(out, Finding{"c04-unknown-node", what + ": node is not in the store", rec.Index})
			continue
		}
		// node health and pool
		if n.Spec.Unschedulable {
			out = append(out, Finding{"c04-unschedulable-node", what + ": node is marked unschedulable", rec.Index})
		}
		for _, cond := range n.Status.Conditions {
			if cond.Type == v1.NodeReady && cond.Status != v1.ConditionTrue {
				out = append(out, Finding{"c04-node-not-ready", what + ": node is not Ready", rec.Index})
			}
		}
		if w.Config.Pool != "" && n.Labels[PoolLabelKey] != w.Config.Pool {
			out = append(out, Finding{"c04-outside-node-pool", fmt.Sprintf("%s: node carries pool label %q, the scheduler is restricted to %q", what, n.Labels[PoolLabelKey], w.Config.Pool), rec.Index})
		}
		// selector + required node affinity (upstream helper)
		if ok, _ := nodeaffinity.GetRequiredNodeAffinity(p).Match(n); !ok {
			out = append(out, Finding{"c04-node-affinity", fmt.Sprintf("%s: node labels %v do not satisfy selector %v / required affinity %s", what, n.Labels, p.Spec.NodeSelector, affStr(p)), rec.Index})
		}
		// taints (upstream helper)
		if taint, untolerated := corev1helpers.FindMatchingUntoleratedTaint(n.Spec.Taints, p.Spec.Tolerations, func(t *v1.Taint) bool {
			return t.Effect == v1.TaintEffectNoSchedule || t.Effect == v1.TaintEffectNoExecute
		}); untolerated {
			out = append(out, Finding{"c04-untolerated-taint", fmt.Sprintf("%s: taint %s=%s:%s is not tolerated (tolerations %v)", what, taint.Key, taint.Value, taint.Effect, p.Spec.Tolerations), rec.Index})
		}
		// inter-pod (anti-)affinity against the pods on the nodes after the cycle's earlier decisions
		if aff := p.Spec.Affinity; aff != nil && (aff.PodAffinity != nil || aff.PodAntiAffinity != nil) {
			facts.AffinityJudged++
		}
		self := byName[c.Pod]
		sameDomain := func(other *placedPod, key string) bool {
			a, ok1 := domainOf(c.Node, key)
			b, ok2 := domainOf(other.node, key)
			return ok1 && ok2 && a == b
		}
		if aff := p.Spec.Affinity; aff != nil && aff.PodAntiAffinity != nil {
			for _, term := range aff.PodAntiAffinity.RequiredDuringSchedulingIgnoredDuringExecution {
				for _, other := range placed {
					if other == self || !other.live || other.pod.Namespace != p.Namespace {
						continue
					}
					if selectorMatches(term.LabelSelector, other.pod.Labels) && sameDomain(other, term.TopologyKey) {
						out = append(out, Finding{"c04-own-anti-affinity", fmt.Sprintf("%s: pod %s with matching labels %v is already placed in the same %s domain (node %s)", what, other.pod.Name, other.pod.Labels, term.TopologyKey, other.node), rec.Index})
					}
				}
			}
		}
		for _, other := range placed {
			if other == self || !other.live || other.pod.Namespace != p.Namespace {
				continue
			}
			if oa := other.pod.Spec.Affinity; oa != nil && oa.PodAntiAffinity != nil {
				for _, term := range oa.PodAntiAffinity.RequiredDuringSchedulingIgnoredDuringExecution {
					if selectorMatches(term.LabelSelector, p.Labels) && sameDomain(other, term.TopologyKey) {
						out = append(out, Finding{"c04-existing-anti-affinity", fmt.Sprintf("%s: pod %s already placed on node %s forbids pods with labels %v in its %s domain", what, other.pod.Name, other.node, p.Labels, term.TopologyKey), rec.Index})
					}
				}
			}
		}
		if aff := p.Spec.Affinity; aff != nil && aff.PodAffinity != nil {
			for _, term := range aff.PodAffinity.RequiredDuringSchedulingIgnoredDuringExecution {
				// Kubernetes semantics (InterPodAffinity filter): the node must carry the topology key; a matching
				// pod must exist in the node's domain, unless no matching pod exists in any domain of that key and
				// the pod matches its own term (first pod of a group).
				_, nodeHasKey := domainOf(c.Node, term.TopologyKey)
				found, anyMatch := false, false
				for _, other := range placed {
					if other == self || other.pod.Namespace != p.Namespace {
						continue
					}
					if _, ok := domainOf(other.node, term.TopologyKey); !ok {
						continue
					}
					if selectorMatches(term.LabelSelector, other.pod.Labels) {
						anyMatch = true
						if sameDomain(other, term.TopologyKey) {
							found = true
						}
					}
				}
				firstOfGroup := !anyMatch && selectorMatches(term.LabelSelector, p.Labels)
				if nodeHasKey && !(found || firstOfGroup) {
					// was the term satisfied only by a pod this very cycle evicts (or moves away)?
					for _, other := range placed {
						// (the pod's own releasing entry counts too: a victim that matches its own term and is put
						// back by the decision that evicted it)
						if !other.leftInCy || other.pod.Namespace != p.Namespace || other.wasOn == "" {
							continue
						}
						a, ok1 := domainOf(c.Node, term.TopologyKey)
						b, ok2 := domainOf(other.wasOn, term.TopologyKey)
						if ok1 && ok2 && a == b && selectorMatches(term.LabelSelector, other.pod.Labels) {
							out = append(out, Finding{"c04-pod-affinity-met-only-by-evicted-pod", fmt.Sprintf("%s: the only pod matching %v in the node's %s domain is %s, which the same cycle evicts or moves away", what, term.LabelSelector.MatchLabels, term.TopologyKey, other.pod.Name), rec.Index})
							found = true
							break
						}
					}
				}
				if !nodeHasKey || !(found || firstOfGroup) {
					out = append(out, Finding{"c04-pod-affinity", fmt.Sprintf("%s: no pod matching %v is placed in the node's %s domain (node has the key: %v, a matching pod exists elsewhere: %v)", what, term.LabelSelector.MatchLabels, term.TopologyKey, nodeHasKey, anyMatch), rec.Index})
				}
			}
		}
		// record the placement
		if self != nil {
			self.node, self.live = c.Node, true
		} else {
			pp := &placedPod{pod: p, node: c.Node, live: true}
			placed = append(placed, pp)
			byName[c.Pod] = pp
		}
	}

	// topology constraints per workload / sub-group, on the folded final state
	topos := map[string]Topology{}
	for _, t := range w.Topologies {
		topos[t.Name] = t
	}
	for gi := range w.Groups {
		g := &w.Groups[gi]
		type scope struct {
			name string
			tc   *TopoConstraint
			sets map[string]bool // nil = all pods
		}
		var scopes []scope
		if g.Topo != nil {
			scopes = append(scopes, scope{"workload " + g.Name, g.Topo, nil})
		}
		children := map[string][]string{}
		for _, sg := range g.SubGroups {
			children[sg.Parent] = append(children[sg.Parent], sg.Name)
		}
		var collect func(name string, into map[string]bool)
		collect = func(name string, into map[string]bool) {
			into[name] = true
			for _, ch := range children[name] {
				collect(ch, into)
			}
		}
		for _, sg := range g.SubGroups {
			if sg.Topo != nil {
				sets := map[string]bool{}
				collect(sg.Name, sets)
				scopes = append(scopes, scope{fmt.Sprintf("sub-group %s/%s", g.Name, sg.Name), sg.Topo, sets})
			}
		}
		for _, sc := range scopes {
			tp, known := topos[sc.tc.Topology]
			var placedNow, pinned []string // "pod@node"
			for _, pv := range rec.Before.Pods {
				if pv.Workload != g.Name || (sc.sets != nil && !sc.sets[pv.SubGroup]) {
					continue
				}
				f := fd.Fates[pv.Name]
				switch f.State {
				case StBound, StNominated, StMoved:
					placedNow = append(placedNow, pv.Name+"@"+f.Node)
				case StActive:
					pinned = append(pinned, pv.Name+"@"+f.Node)
				}
			}
			if len(placedNow) == 0 {
				continue
			}
			if !known {
				facts.UnknownTopology++
				out = append(out, Finding{"c04-unknown-topology-placed", fmt.Sprintf("%s names topology %q which does not exist, yet pods were placed: %v", sc.name, sc.tc.Topology, placedNow), rec.Index})
				continue
			}
			if sc.tc.Required == "" {
				continue
			}
			lvl := -1
			for i, l := range tp.Levels {
				if l == sc.tc.Required {
					lvl = i
				}
			}
			if lvl < 0 {
				continue
			}
			facts.TopologyJudged++
			domain := func(entry string) (string, bool) {
				node := entry[strings.Index(entry, "@")+1:]
				var parts []string
				for i := 0; i <= lvl; i++ {
					v, ok := domainOf(node, tp.Levels[i])
					if !ok {
						return "", false
					}
					parts = append(parts, v)
				}
				return strings.Join(parts, "/"), true
			}
			// the already active pods must themselves be consistent, otherwise the scheduler inherited a broken state
			pinDomains := map[string]bool{}
			for _, e := range pinned {
				if d, ok := domain(e); ok {
					pinDomains[d] = true
				} else {
					pinDomains["<unlabelled:"+e+">"] = true
				}
			}
			if len(pinDomains) > 1 {
				facts.InitialSpread++
				continue
			}
			if len(pinDomains) == 1 {
				facts.TopologyPinned++
			}
			all := map[string]bool{}
			for d := range pinDomains {
				all[d] = true
			}
			for _, e := range placedNow {
				d, ok := domain(e)
				if !ok {
					out = append(out, Finding{"c04-topology-unlabelled-node", fmt.Sprintf("%s requires level %s of topology %s but %s lacks the topology's labels", sc.name, sc.tc.Required, tp.Name, e), rec.Index})
					continue
				}
				all[d] = true
			}
			if len(all) > 1 {
				ds := make([]string, 0, len(all))
				for d := range all {
					ds = append(ds, d)
				}
				sort.Strings(ds)
				out = append(out, Finding{"c04-topology-domain-split", fmt.Sprintf("%s requires one %s domain of topology %s but its pods span %v (placed now %v, already active %v)", sc.name, sc.tc.Required, tp.Name, ds, placedNow, pinned), rec.Index})
			}
		}
	}
	return dedupe(out), facts
}

func affStr(p *v1.Pod) string {
	if p.Spec.Affinity == nil || p.Spec.Affinity.NodeAffinity == nil || p.Spec.Affinity.NodeAffinity.RequiredDuringSchedulingIgnoredDuringExecution == nil {
		return "<none>"
	}
	return fmt.Sprintf("%v", p.Spec.Affinity.NodeAffinity.RequiredDuringSchedulingIgnoredDuringExecution.NodeSelectorTerms)
}

func JudgeConstraints(w *World) *Verdict {
	h := Run(w, nil)
	v := &Verdict{History: h, Findings: EngineFindings(h)}
	var tot ConstraintFacts
	for _, rec := range h.Cycles {
		if rec.Panic != "" || rec.Hung || rec.Starved {
			continue
		}
		fs, f := CheckConstraints(w, rec)
		v.Findings = append(v.Findings, fs...)
		tot.Placements += f.Placements
		tot.Constrained += f.Constrained
		tot.TopologyJudged += f.TopologyJudged
		tot.TopologyPinned += f.TopologyPinned
		tot.AffinityJudged += f.AffinityJudged
		tot.InitialSpread += f.InitialSpread
	}
	add := func(b bool, s string) {
		if b {
			v.Classes = append(v.Classes, s)
		}
	}
	add(tot.Placements > 0, "has-placement")
	add(tot.Constrained > 0, "placement-with-excluding-constraint")
	add(tot.TopologyJudged > 0, "required-topology-placement")
	add(tot.TopologyPinned > 0, "topology-domain-pinned-by-active-pods")
	add(tot.AffinityJudged > 0, "pod-affinity-placement")
	add(tot.InitialSpread > 0, "active-pods-already-span-domains(skipped)")
	add(w.Config.Pool != "", "node-pool")
	v.Nontrivial = tot.Constrained > 0 || tot.TopologyJudged > 0
	return v
}
