package sim

import (
	"fmt"
	"sort"
)

// setKey identifies a pod set (sub-group) of a workload.
type setKey struct{ Workload, Set string }

// PodSetMins returns minAvailable of every pod set of the world: leaf sub-groups carry their own minimum,
// a workload without sub-groups has one default set with minMember.
func (w *World) PodSetMins() map[setKey]int {
	out := map[setKey]int{}
	for _, g := range w.Groups {
		if len(g.SubGroups) == 0 {
			m := g.MinMember
			if m < 1 {
				m = 1
			}
			out[setKey{g.Name, ""}] = m
			continue
		}
		isParent := map[string]bool{}
		for _, sg := range g.SubGroups {
			if sg.Parent != "" {
				isParent[sg.Parent] = true
			}
		}
		for _, sg := range g.SubGroups {
			if !isParent[sg.Name] {
				out[setKey{g.Name, sg.Name}] = sg.Min
			}
		}
	}
	return out
}

// substituted: evicted active members replaced, in the same cycle, by nominations of other pending members.
func substituted(evictedActive, nominated int) int {
	if nominated < evictedActive {
		return nominated
	}
	return evictedActive
}

type GangFacts struct{ GangActed, GangBound, GangNominated, GangVictim, Moved, ElasticShrink, Anomalies int }

// CheckGangs is the C03 oracle on one cycle.
func CheckGangs(w *World, rec *CycleRecord) ([]Finding, GangFacts) {
	w = rec.Effective(w)
	var out []Finding
	var facts GangFacts
	mins := w.PodSetMins()
	fd := FoldCalls(rec.Before, rec.Calls)
	type setAgg struct {
		retained, bound, nominated, evictedActive, movedN, activeBefore int
		acted                                                           bool
		pods                                                            []string
	}
	sets := map[setKey]*setAgg{}
	byWorkload := map[string][]setKey{}
	for _, pv := range rec.Before.Pods {
		if pv.Reservation || pv.Workload == "" || pv.Namespace != Namespace {
			continue
		}
		k := setKey{pv.Workload, pv.SubGroup}
		if _, ok := mins[k]; !ok {
			continue
		}
		a := sets[k]
		if a == nil {
			a = &setAgg{}
			sets[k] = a
			byWorkload[pv.Workload] = append(byWorkload[pv.Workload], k)
		}
		f := fd.Fates[pv.Name]
		facts.Anomalies += len(f.Anomalies)
		if f.Start == StActive {
			a.activeBefore++
		}
		if f.Retained() {
			a.retained++
		}
		switch f.State {
		case StBound:
			a.bound++
			a.acted = true
		case StNominated:
			a.nominated++
		case StMoved:
			a.movedN++
			facts.Moved++
		case StEvicted:
			if f.Start == StActive || f.Binds > 0 {
				a.evictedActive++
				a.acted = true
			}
		}
		if f.State == StMoved {
			a.acted = true
		}
		a.pods = append(a.pods, fmt.Sprintf("%s:%s->%s", pv.Name, f.Start, f.State))
	}
	keys := make([]setKey, 0, len(sets))
	for k := range sets {
		keys = append(keys, k)
	}
	sort.Slice(keys, func(i, j int) bool {
		return keys[i].Workload+"/"+keys[i].Set < keys[j].Workload+"/"+keys[j].Set
	})
	for _, k := range keys {
		a := sets[k]
		min := mins[k]
		if min >= 2 && (a.acted || a.nominated > 0) {
			facts.GangActed++
			if a.bound > 0 {
				facts.GangBound++
			}
			if a.nominated > 0 {
				facts.GangNominated++
			}
			if a.evictedActive > 0 || a.movedN > 0 {
				facts.GangVictim++
			}
		}
		if !a.acted {
			continue
		}
		// A set that was already partial before the cycle (members terminating or lost outside the scheduler's
		// control) may be left alone, moved or evicted; but a bind into it must complete it, and a complete set
		// must not be broken.
		// (when no member stays put or is bound - every active member was evicted, some of them nominated again
		// elsewhere - the set is evicted as a whole; the moved members are nominations, not running pods)
		// (a move by substitution - members evicted and, in the same cycle, as many other pending members of the set
		// nominated in their place - is the same decision as a move of the evicted members themselves: the solver
		// re-places the victim workload with whichever of its pods come first; counted like moved members)
		staying := a.retained - a.movedN
		if staying > 0 && a.retained+substituted(a.evictedActive, a.nominated) < min && (a.bound > 0 || a.activeBefore >= min) {
			out = append(out, Finding{"c03-pod-set-partially-running", fmt.Sprintf(
				"pod set %s/%q (minimum %d) is left with %d active pods after the cycle's decisions: %v",
				k.Workload, k.Set, min, a.retained, a.pods), rec.Index})
		}
		if a.evictedActive > 0 && a.retained >= min {
			facts.ElasticShrink++
		}
	}
	// workload level
	wls := make([]string, 0, len(byWorkload))
	for wl := range byWorkload {
		wls = append(wls, wl)
	}
	sort.Strings(wls)
	for _, wl := range wls {
		evicted, retainedTotal, stayingTotal, bound, nominated := 0, 0, 0, 0, 0
		var below, waiting []string
		var desc []string
		for _, k := range byWorkload[wl] {
			a := sets[k]
			evicted += a.evictedActive
			retainedTotal += a.retained
			stayingTotal += a.retained - a.movedN
			bound += a.bound
			nominated += a.nominated
			if a.retained+substituted(a.evictedActive, a.nominated) < mins[k] && (a.activeBefore >= mins[k] || a.bound > 0) {
				below = append(below, fmt.Sprintf("%q has %d of %d (had %d)", k.Set, a.retained, mins[k], a.activeBefore))
			}
			if a.retained < mins[k] && a.nominated > 0 {
				waiting = append(waiting, fmt.Sprintf("%q has %d of %d, %d nominated", k.Set, a.retained, mins[k], a.nominated))
			}
			desc = append(desc, a.pods...)
		}
		// (a workload of which nothing stays put - every active pod evicted, some nominated again elsewhere - is
		// evicted as a whole)
		if evicted > 0 && len(below) > 0 && stayingTotal > 0 {
			out = append(out, Finding{"c03-workload-partially-evicted", fmt.Sprintf(
				"workload %s lost %d active pods; pod sets below minimum: %v, yet %d pods stay active: %v", wl, evicted, below, retainedTotal, desc), rec.Index})
		}
		if bound > 0 && len(waiting) > 0 {
			out = append(out, Finding{"c03-partly-bound-partly-nominated", fmt.Sprintf(
				"workload %s: %d pods bound in the cycle although pod sets still wait for releasing capacity (%v): %v", wl, bound, waiting, desc), rec.Index})
		}
	}
	return out, facts
}

// JudgeGangs is the C03 judge.
func JudgeGangs(w *World) *Verdict {
	h := Run(w, nil)
	v := &Verdict{History: h, Findings: EngineFindings(h)}
	var tot GangFacts
	for _, rec := range h.Cycles {
		if rec.Panic != "" || rec.Hung || rec.Starved {
			continue
		}
		fs, f := CheckGangs(w, rec)
		v.Findings = append(v.Findings, fs...)
		tot.GangActed += f.GangActed
		tot.GangBound += f.GangBound
		tot.GangNominated += f.GangNominated
		tot.GangVictim += f.GangVictim
		tot.Moved += f.Moved
		tot.ElasticShrink += f.ElasticShrink
		tot.Anomalies += f.Anomalies
	}
	add := func(b bool, s string) {
		if b {
			v.Classes = append(v.Classes, s)
		}
	}
	add(tot.GangActed > 0, "gang-acted-on")
	add(tot.GangBound > 0, "gang-bound")
	add(tot.GangNominated > 0, "gang-nominated")
	add(tot.GangVictim > 0, "gang-victim")
	add(tot.Moved > 0, "pod-moved(evicted+nominated)")
	add(tot.ElasticShrink > 0, "elastic-shrink")
	add(tot.Anomalies > 0, "trace-anomaly")
	v.Nontrivial = tot.GangActed > 0
	return v
}
