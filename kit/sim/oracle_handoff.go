package sim

import (
	"fmt"
	"sort"
	"strings"
	"sync"

	"pgregory.net/rapid"

	"github.com/NVIDIA/KAI-scheduler/pkg/scheduler/api/pod_status"
	"github.com/NVIDIA/KAI-scheduler/pkg/scheduler/framework"
)

// C12, scheduler half: the hand-off to the binder. A BindRequest that has not reached a terminal outcome keeps
// its pod charged to the selected node in every snapshot; requests for nodes that left and terminally failed
// requests are deleted and their pods can be scheduled again.

// GenHandoffWorld adds BindRequests in every phase (for existing and vanished nodes, with and without backoff
// limit) and nodes that leave between cycles to a generated world.
func GenHandoffWorld(t *rapid.T, pf Profile) *World {
	w := GenWorld(t, pf)
	nodes := make([]string, 0, len(w.Nodes))
	for _, n := range w.Nodes {
		nodes = append(nodes, n.Name)
	}
	for gi := range w.Groups {
		g := &w.Groups[gi]
		for pi := range g.Pods {
			p := &g.Pods[pi]
			if p.State != "pending" || p.Fraction != "" || p.GPUMemory != 0 || len(p.Claims) > 0 || !chance(t, 3, "rawBindRequest") {
				continue
			}
			rb := RawBindRequest{Pod: p.Name}
			if chance(t, 3, "brNodeGone") || len(nodes) == 0 {
				rb.Node = "node-gone"
			} else {
				rb.Node = nodes[uniform(t, len(nodes), "brNode")]
			}
			switch uniform(t, 5, "brPhase") {
			case 0:
				rb.Phase = ""
			case 1:
				rb.Phase = "Pending"
			default:
				rb.Phase = "Failed"
				rb.FailedAttempts = int32(between(t, 0, 3, "brAttempts"))
			}
			if chance(t, 5, "brBackoff") {
				l := int32(between(t, 0, 4, "brLimit"))
				rb.BackoffLimit = &l
			}
			w.ExtraBindRequests = append(w.ExtraBindRequests, rb)
		}
	}
	// a sharer that is being bound may still carry the GPU-group label of an earlier, abandoned attempt (the binder's
	// rollback could not remove it); the live request's groups are what is charged
	for gi := range w.Groups {
		g := &w.Groups[gi]
		for pi := range g.Pods {
			p := &g.Pods[pi]
			binding := p.State == Binding && len(p.Groups) > 0
			// ... and so may a sharer whose request failed for good and which waits to be scheduled again
			abandoned := p.State == Pending && (p.Fraction != "" || p.GPUMemory > 0)
			if !(binding || abandoned) || !chance(t, 5, "staleGroupLabel") {
				continue
			}
			labels := map[string]string{}
			for k, v := range p.Labels {
				labels[k] = v
			}
			stale := "stale-" + p.Name
			if p.Devices > 1 {
				labels[GPUGroupLabel+"/"+stale] = stale
			} else {
				labels[GPUGroupLabel] = stale
			}
			p.Labels = labels
		}
	}
	for ci := range w.Cycles {
		if len(nodes) > 1 && chance(t, 3, "nodeLeaves") {
			w.Cycles[ci].DeleteNodes = []string{nodes[uniform(t, len(nodes), "leavingNode")]}
		}
	}
	return w
}

type taskView struct {
	Status  pod_status.PodStatus
	Node    string
	Groups  []string
	InTable bool
	Charged bool // the node's entry is charged to Idle (any status but nominated)
}

// JudgeHandoff runs the world and checks the scheduler half of C12 on every cycle.
func JudgeHandoff(w *World) *Verdict {
	var mu sync.Mutex
	views := map[int]map[string]taskView{}
	allocatedDevices := map[int]map[string]bool{}
	opt := &Options{Hooks: Hooks{AfterOpen: func(ssn *framework.Session, cycle int) {
		v := map[string]taskView{}
		for _, job := range ssn.ClusterInfo.PodGroupInfos {
			for _, t := range job.GetAllPodsMap() {
				tv := taskView{Status: t.Status, Node: t.NodeName, Groups: append([]string(nil), t.GPUGroups...)}
				if ni := ssn.ClusterInfo.Nodes[t.NodeName]; ni != nil {
					for _, e := range ni.PodInfos {
						if e.UID == t.UID {
							tv.InTable = true
							tv.Charged = e.Status != pod_status.Pipelined
						}
					}
				}
				v[t.Name] = tv
			}
		}
		devs := map[string]bool{}
		if k8sPlugins := ssn.InternalK8sPlugins(); k8sPlugins != nil && k8sPlugins.FrameworkHandle != nil && k8sPlugins.FrameworkHandle.SharedDRAManager() != nil {
			if ad, err := k8sPlugins.FrameworkHandle.SharedDRAManager().ResourceClaims().ListAllAllocatedDevices(); err == nil {
				for id := range ad {
					devs[id.String()] = true
				}
			}
		}
		mu.Lock()
		views[cycle] = v
		allocatedDevices[cycle] = devs
		mu.Unlock()
	}}}
	h := Run(w, opt)
	v := &Verdict{History: h, Findings: EngineFindings(h)}
	seen := map[string]bool{}
	add := func(cycle int, sig, format string, a ...any) {
		if !seen[sig] {
			seen[sig] = true
			v.Findings = append(v.Findings, Finding{Sig: sig, Msg: fmt.Sprintf(format, a...), Cycle: cycle})
		}
	}
	live, gone, terminal, liveWithNeighbour, liveWithClaims, liveWithStaleLabel := 0, 0, 0, 0, 0, 0
	for ci, rec := range h.Cycles {
		if rec.OpenErr != "" || rec.Panic != "" || rec.Hung || rec.Starved || rec.After == nil {
			continue
		}
		view := views[ci]
		if view == nil {
			continue
		}
		afterBR := map[string]string{}
		for _, br := range rec.After.BRs {
			afterBR[br.Name] = fmt.Sprintf("%s|%s|%d", br.Spec.SelectedNode, br.Status.Phase, br.Status.FailedAttempts)
		}
		boundOn := map[string]int{}
		for _, c := range rec.Calls {
			if (c.Kind == "bind" || c.Kind == "pipeline") && c.Err == "" {
				boundOn[c.Node]++
			}
		}
		for _, br := range rec.Before.BRs {
			pv := rec.Before.ByName[br.Spec.PodName]
			if pv == nil || pv.Raw.Spec.NodeName != "" || pv.Terminating || pv.Phase == "Succeeded" || pv.Phase == "Failed" {
				continue // pod gone, already bound, or finished: the request's outcome is decided elsewhere
			}
			tv, inSession := view[br.Spec.PodName]
			_, nodeExists := rec.Before.Nodes[br.Spec.SelectedNode]
			isTerminal := br.Status.Phase == "Failed" && (br.Spec.BackoffLimit == nil || br.Status.FailedAttempts >= *br.Spec.BackoffLimit)
			key := fmt.Sprintf("%s|%s|%d", br.Spec.SelectedNode, br.Status.Phase, br.Status.FailedAttempts)
			switch {
			case !nodeExists:
				gone++
				if afterBR[br.Name] == key {
					add(ci, "c12-request-for-deleted-node-kept", "BindRequest %s names node %s which is not in the cluster; after the cycle the request still exists", br.Name, br.Spec.SelectedNode)
				}
				if inSession && tv.Node == br.Spec.SelectedNode && tv.Status == pod_status.Binding {
					add(ci, "c12-pod-of-deleted-node-request-not-schedulable", "pod %s is still 'Binding' to the vanished node %s in the session: it cannot be scheduled again", br.Spec.PodName, br.Spec.SelectedNode)
				}
			case isTerminal:
				terminal++
				if afterBR[br.Name] == key {
					add(ci, "c12-terminally-failed-request-kept", "BindRequest %s is terminally failed (phase %s, attempts %d, limit %v) and still exists after the cycle", br.Name, br.Status.Phase, br.Status.FailedAttempts, limitStr(br.Spec.BackoffLimit))
				}
			default:
				if !inSession {
					continue // pod without workload: not a task of the session
				}
				live++
				if boundOn[br.Spec.SelectedNode] > 0 {
					liveWithNeighbour++
				}
				if tv.Status != pod_status.Binding || tv.Node != br.Spec.SelectedNode || !tv.InTable || !tv.Charged {
					add(ci, "c12-live-request-not-charged", "BindRequest %s (phase %q, attempts %d, limit %s) for node %s is live, but the snapshot has pod %s as %v on node %q (in node table %v, charged %v)",
						br.Name, br.Status.Phase, br.Status.FailedAttempts, limitStr(br.Spec.BackoffLimit), br.Spec.SelectedNode, br.Spec.PodName, tv.Status, tv.Node, tv.InTable, tv.Charged)
				}
				want := append([]string(nil), br.Spec.SelectedGPUGroups...)
				got := append([]string(nil), tv.Groups...)
				sort.Strings(want)
				sort.Strings(got)
				if len(want) > 0 && len(PodGroups(pv.Raw)) > 0 {
					liveWithStaleLabel++
				}
				if len(want) > 0 && strings.Join(want, ",") != strings.Join(got, ",") {
					add(ci, "c12-live-request-gpu-groups-not-charged", "BindRequest %s selects GPU groups %v, the snapshot charges pod %s to %v", br.Name, want, br.Spec.PodName, got)
				}
				for _, ca := range br.Spec.ResourceClaimAllocations {
					if ca.Allocation == nil {
						continue
					}
					liveWithClaims++
					for _, r := range ca.Allocation.Devices.Results {
						if id := r.Driver + "/" + r.Pool + "/" + r.Device; !allocatedDevices[ci][id] {
							add(ci, "c12-live-request-claim-devices-not-charged", "BindRequest %s carries device %s for claim %s; the snapshot's DRA manager does not count that device as allocated (allocated: %v)", br.Name, id, ca.Name, keysOf(allocatedDevices[ci]))
						}
					}
				}
				if _, still := afterBR[br.Name]; !still {
					add(ci, "c12-live-request-deleted", "BindRequest %s (phase %q, attempts %d, limit %s, node %s exists) is not terminal but was deleted during the cycle", br.Name, br.Status.Phase, br.Status.FailedAttempts, limitStr(br.Spec.BackoffLimit), br.Spec.SelectedNode)
				}
			}
		}
		// what is charged is not handed out again: the node inequality of C01, which counts binding pods
		fs, _ := CheckNodes(rec, false)
		for _, f := range fs {
			add(ci, "c12-"+f.Sig, "%s", f.Msg)
		}
	}
	if live > 0 {
		v.Classes = append(v.Classes, "live-request")
	}
	if liveWithNeighbour > 0 {
		v.Classes = append(v.Classes, "live-request-while-node-receives-pods")
	}
	if liveWithClaims > 0 {
		v.Classes = append(v.Classes, "live-request-with-dra-claim")
	}
	if liveWithStaleLabel > 0 {
		v.Classes = append(v.Classes, "live-request-of-sharer-with-stale-group-label")
	}
	if gone > 0 {
		v.Classes = append(v.Classes, "request-for-vanished-node")
	}
	if terminal > 0 {
		v.Classes = append(v.Classes, "terminally-failed-request")
	}
	v.Nontrivial = liveWithNeighbour > 0 || gone > 0 || terminal > 0
	return v
}

func limitStr(l *int32) string {
	if l == nil {
		return "none"
	}
	return fmt.Sprint(*l)
}

func keysOf(m map[string]bool) []string {
	out := make([]string, 0, len(m))
	for k := range m {
		out = append(out, k)
	}
	sort.Strings(out)
	return out
}
