package sim

import (
	"fmt"
	"pgregory.net/rapid"
	"sort"
	"strings"
)

// CanonicalState renders the decision-relevant cluster state of a snapshot independent of pod names, UIDs and
// GPU-group identifiers: for every (workload, pod set) the multiset of pod situations, plus, per node, the
// partition of sharers into devices.
func CanonicalState(s *Snapshot) string {
	var items []string
	groupMembers := map[string][]string{} // node/group -> member labels
	for _, p := range s.Pods {
		if p.Reservation || p.Namespace != Namespace {
			continue
		}
		label := p.Workload + "/" + p.SubGroup
		var sit string
		switch {
		case p.Terminating && p.Occupying():
			sit = "terminating@" + p.Node
		case p.Active():
			sit = "active@" + p.Node
			if p.Binding {
				sit = "binding@" + p.Node
			}
		case p.PendingFree() || p.BindFailed:
			sit = "pending"
		default:
			sit = "other:" + string(p.Phase)
		}
		items = append(items, label+"="+sit)
		if p.Occupying() {
			for _, g := range p.Groups {
				k := p.Node + "#" + g
				m := label
				if p.Terminating {
					m += "(t)"
				}
				groupMembers[k] = append(groupMembers[k], m)
			}
		}
	}
	sort.Strings(items)
	var devs []string
	for k, members := range groupMembers {
		sort.Strings(members)
		devs = append(devs, k[:strings.Index(k, "#")]+":["+strings.Join(members, ",")+"]")
	}
	sort.Strings(devs)
	return strings.Join(items, ";") + " || " + strings.Join(devs, ";")
}

type LivelockFacts struct {
	Evictions, CyclesWithEviction, QuietTail int
	Repeats                                  int
	Inconclusive                             bool
}

// CheckLivelock is the C15 oracle over a whole closed-system history: a violation is a lasso - the canonical
// state at the start of cycle j equals the one at the start of an earlier cycle i with at least one eviction in
// cycles i..j-1.
func CheckLivelock(h *History) ([]Finding, LivelockFacts) {
	var facts LivelockFacts
	var out []Finding
	states := make([]string, len(h.Cycles))
	evicts := make([]int, len(h.Cycles))
	for i, rec := range h.Cycles {
		states[i] = CanonicalState(rec.Before)
		for _, c := range rec.Calls {
			if c.Kind == "evict" && c.Err == "" {
				evicts[i]++
			}
		}
		facts.Evictions += evicts[i]
		if evicts[i] > 0 {
			facts.CyclesWithEviction++
		}
	}
	for j := 1; j < len(states) && len(out) == 0; j++ {
		for i := 0; i < j; i++ {
			if states[i] != states[j] {
				continue
			}
			n := 0
			for k := i; k < j; k++ {
				n += evicts[k]
			}
			if n > 0 {
				facts.Repeats++
				var trace []string
				for k := i; k < j; k++ {
					trace = append(trace, fmt.Sprintf("cycle %d: %v", k, TraceStrings(h.Cycles[k].Calls)))
				}
				// shape of the loop: does every eviction hit a pod that was bound earlier in the very same cycle
				// (it never ran: allocate hands it the capacity, a later action of the cycle takes it back)?
				sig := "c15-eviction-lasso"
				onlyFresh := true
				for k := i; k < j; k++ {
					bound := map[string]bool{}
					for _, c := range h.Cycles[k].Calls {
						if c.Kind == "bind" && c.Err == "" {
							bound[c.Pod] = true
						}
						if c.Kind == "evict" && c.Err == "" && !bound[c.Pod] {
							onlyFresh = false
						}
					}
				}
				// ... or, more generally: is every eviction of the loop made for a workload that never starts inside the
				// loop (its pods are only ever nominated; the nomination is not carried into the next cycle and the freed
				// capacity is handed to other pods first)? Loops in which the beneficiaries of the evictions do start
				// (queues taking turns) are a different matter and keep the general signature.
				preemptors, started := map[string]bool{}, map[string]bool{}
				unnamed := false
				for k := i; k < j; k++ {
					for _, c := range h.Cycles[k].Calls {
						if c.Err != "" {
							continue
						}
						if c.Kind == "evict" {
							if c.Preemptor == "" {
								unnamed = true
							}
							preemptors[c.Preemptor] = true
						}
						if c.Kind == "bind" {
							if pv := h.Cycles[k].Before.ByName[c.Pod]; pv != nil {
								started[pv.Workload] = true
							}
						}
					}
				}
				noBeneficiaryStarts := !unnamed && len(preemptors) > 0
				for p := range preemptors {
					if started[p] {
						noBeneficiaryStarts = false
					}
				}
				// The two listed findings need the allocate order of the queues and the reclaim criterion to disagree. In the
				// constructed exact-tie families (equal quota, weight, priority, identical workloads) they cannot disagree
				// as long as ties are broken by fixed inputs - the unchanged tree produces no loop at all there - so a loop
				// in such a world is never one of the listed findings: something follows the current holdings.
				if h.World != nil && h.World.Family == "tie" {
					sig = "c15-eviction-lasso"
				} else if onlyFresh {
					sig = "c15-lasso-bound-then-evicted-in-same-cycle"
				} else if noBeneficiaryStarts {
					sig = "c15-lasso-evictions-for-nominee-that-never-starts"
				}
				out = append(out, Finding{sig, fmt.Sprintf(
					"the cluster state at the start of cycle %d equals the state at the start of cycle %d although %d pods were evicted in between: %s || state: %s",
					j, i, n, strings.Join(trace, " | "), states[j]), j})
				break
			}
		}
	}
	// quiet tail: trailing cycles without evictions
	for k := len(evicts) - 1; k >= 0 && evicts[k] == 0; k-- {
		facts.QuietTail++
	}
	if len(out) == 0 && facts.QuietTail < 2 && facts.Evictions > 0 {
		facts.Inconclusive = true // still evicting at the horizon, no repeat seen: neither verdict
	}
	return out, facts
}

func JudgeLivelock(w *World) *Verdict {
	h := Run(w, nil)
	v := &Verdict{History: h, Findings: EngineFindings(h)}
	fs, f := CheckLivelock(h)
	v.Findings = append(v.Findings, fs...)
	add := func(b bool, s string) {
		if b {
			v.Classes = append(v.Classes, s)
		}
	}
	add(f.Evictions > 0, "has-eviction")
	add(f.CyclesWithEviction >= 2, "evictions-in->=2-cycles")
	add(f.Evictions > 0 && f.QuietTail >= 2, "evictions-then-quiescent")
	add(f.Inconclusive, "inconclusive:still-evicting-at-horizon-without-repeat")
	v.Nontrivial = f.Evictions > 0
	return v
}

// GenTieFamily builds closed systems in which sibling queues are exact ties for the fair-share division: equal
// quota, equal over-quota weight, identical one-GPU preemptible workloads, a saturated cluster and unequal current
// holdings. Whatever tie-break decides who gets the leftover units, it has to be a function of the fixed inputs;
// if it follows the current allocation the system oscillates.
func GenTieFamily(t *rapid.T) *World {
	w := &World{Family: "tie"}
	c := &w.Config
	c.FullHierarchy = true
	c.PlacementGPU = pickS(t, "placementGpu", "binpack", "spread")
	c.PlacementCPU = "binpack"
	c.MaxConsolidation = 16
	c.Actions = [][]string{nil, {"allocate", "reclaim"}, {"allocate", "consolidation", "reclaim", "preempt"}}[uniform(t, 3, "actions")]
	nNodes := between(t, 1, 2, "nNodes")
	gpn := pickInt(t, "gpusPerNode", 1, 2, 3, 4, 5)
	total := nNodes * gpn
	for i := 0; i < nNodes; i++ {
		w.Nodes = append(w.Nodes, Node{Name: fmt.Sprintf("n%d", i), GPUs: gpn, GPUMem: 16000, CPU: 32000, MemMB: 65536, Pods: 110, Labels: map[string]string{}})
	}
	free := QRes{Quota: -1, Limit: -1, Weight: 1}
	nq := between(t, 2, 3, "queues")
	quota := float64(between(t, 0, total/nq, "quota"))
	weight := pickF(t, "weight", 1, 1, 2)
	w.Queues = []Queue{{Name: "root", GPU: QRes{Quota: float64(total), Limit: -1, Weight: 1}, CPU: free, Mem: free}}
	for q := 0; q < nq; q++ {
		w.Queues = append(w.Queues, Queue{Name: fmt.Sprintf("q%d", q), Parent: "root", GPU: QRes{Quota: quota, Limit: -1, Weight: weight}, CPU: free, Mem: free, CreatedMin: 100 - q})
	}
	// every queue wants more than any share it can get; the GPUs are handed out unevenly to start with
	slot := 0
	for q := 0; q < nq; q++ {
		jobs := total/nq + 2
		running := between(t, 0, jobs, fmt.Sprintf("running%d", q))
		for j := 0; j < jobs; j++ {
			name := fmt.Sprintf("q%dj%d", q, j)
			p := Pod{Name: name + "-p0", CPU: 100, MemMB: 64, GPUs: 1, State: Pending, CreatedMin: 50 + j}
			if j < running && slot < total {
				p.State, p.Node = Running, fmt.Sprintf("n%d", slot/gpn)
				slot++
			}
			g := Group{Name: name, Queue: fmt.Sprintf("q%d", q), PriorityClass: "train", Preemptibility: "preemptible", MinMember: 1, CreatedMin: 50 + j, Pods: []Pod{p}}
			if p.State == Running {
				g.LastStartMin = 1000
			}
			w.Groups = append(w.Groups, g)
		}
	}
	for i := 0; i < between(t, 8, 14, "cycles"); i++ {
		w.Cycles = append(w.Cycles, CycleScript{BindMode: 0, TermLinger: pickInt(t, "linger", 0, 0, 1), RecreateEvicted: true, Salt: i})
	}
	return w
}

// GenFragmentationFamily builds closed systems in which idle GPUs exist but are scattered: nodes with an odd number
// of GPUs, every pod asks for two, each node is left with one idle GPU. Elastic workloads (minimum 1) of the same
// queue run above their minimum and have further pods pending, so the consolidation action is tempted every cycle:
// it may move pods, but a move that does not re-place every victim frees nothing for good - the victim comes back
// pending, is handed its node again and the next cycle starts where this one started.
func GenFragmentationFamily(t *rapid.T) *World {
	w := &World{Family: "fragmentation"}
	c := &w.Config
	c.FullHierarchy = true
	c.PlacementGPU = pickS(t, "placementGpu", "binpack", "spread")
	c.PlacementCPU = "binpack"
	c.MaxConsolidation = pickInt(t, "maxConsolidation", 16, 16, 2)
	c.Actions = [][]string{nil, {"allocate", "consolidation"}, {"allocate", "consolidation", "reclaim", "preempt"}}[uniform(t, 3, "actions")]
	nNodes := between(t, 2, 4, "nNodes")
	gpn := pickInt(t, "gpusPerNode", 3, 3, 5)
	for i := 0; i < nNodes; i++ {
		w.Nodes = append(w.Nodes, Node{Name: fmt.Sprintf("n%d", i), GPUs: gpn, GPUMem: 16000, CPU: 32000, MemMB: 65536, Pods: 110, Labels: map[string]string{}})
	}
	total := nNodes * gpn
	free := QRes{Quota: -1, Limit: -1, Weight: 1}
	nq := between(t, 1, 2, "queues")
	w.Queues = []Queue{{Name: "root", GPU: QRes{Quota: float64(total), Limit: -1, Weight: 1}, CPU: free, Mem: free}}
	for q := 0; q < nq; q++ {
		w.Queues = append(w.Queues, Queue{Name: fmt.Sprintf("q%d", q), Parent: "root", GPU: QRes{Quota: float64(total), Limit: -1, Weight: 1}, CPU: free, Mem: free, CreatedMin: 100 - q})
	}
	nJobs := between(t, 2, 3, "jobs")
	samePrio := chance(t, 7, "samePriority")
	for j := 0; j < nJobs; j++ {
		g := Group{Name: fmt.Sprintf("e%d", j), Queue: fmt.Sprintf("q%d", j%nq), PriorityClass: "train", Preemptibility: "preemptible", MinMember: 1, CreatedMin: 50 + j, LastStartMin: 1000}
		if !samePrio {
			g.PriorityClass = pickS(t, "prio", "train", "build-preemptible")
		}
		w.Groups = append(w.Groups, g)
	}
	// running pods: gpn/2 per node, dealt round-robin to the workloads (each ends with at least one when there are
	// enough slots; a workload without a running pod is simply pending as a whole)
	k := 0
	for n := 0; n < nNodes; n++ {
		for s := 0; s < gpn/2; s++ {
			g := &w.Groups[k%nJobs]
			g.Pods = append(g.Pods, Pod{Name: fmt.Sprintf("%s-r%d", g.Name, len(g.Pods)), CPU: 100, MemMB: 64, GPUs: 2, State: Running, Node: fmt.Sprintf("n%d", n), CreatedMin: 60})
			k++
		}
	}
	for j := range w.Groups {
		g := &w.Groups[j]
		for p, np := 0, between(t, 1, 2, "pendingPods"); p < np; p++ {
			g.Pods = append(g.Pods, Pod{Name: fmt.Sprintf("%s-w%d", g.Name, p), CPU: 100, MemMB: 64, GPUs: 2, State: Pending, CreatedMin: 20})
		}
	}
	for i := 0; i < between(t, 8, 12, "cycles"); i++ {
		w.Cycles = append(w.Cycles, CycleScript{BindMode: 0, TermLinger: pickInt(t, "linger", 0, 0, 1), RecreateEvicted: true, Salt: i})
	}
	return w
}
