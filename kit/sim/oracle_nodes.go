package sim

import (
	"fmt"
	resourceapi "k8s.io/api/resource/v1"
	"sort"
	"strconv"
	"strings"
)

// Finding is one oracle verdict against one cycle of a history.
type Finding struct {
	Sig   string
	Msg   string
	Cycle int
}

// NodeFacts is what the C01/C02 oracles report about a cycle for the evidence counters.
type NodeFacts struct {
	Binds, BindsNearFull, BindsNextToTerminating, JoinGroup, OpenGroup, OpenWhileReleasing, FailedBinds int
	StartInconsistent                                                                                   bool
}

// nodeUsage = what the pods of the snapshot hold on every node, by the reference arithmetic.
func nodeUsage(snap *Snapshot) (map[string]*Usage, map[string]NodeCap, map[string]string) {
	caps := map[string]NodeCap{}
	use := map[string]*Usage{}
	groupNode := map[string]string{}
	for name, n := range snap.Nodes {
		caps[name] = NodeCapacity(n)
		use[name] = NewUsage()
	}
	for _, p := range snap.Pods {
		if !p.Occupying() {
			continue
		}
		u, ok := use[p.Node]
		if !ok {
			continue
		}
		u.Add(p.Name, p.Req, p.Groups, p.Reservation, caps[p.Node])
		for _, g := range p.Groups {
			groupNode[g] = p.Node
		}
	}
	return use, caps, groupNode
}

func overCap(u *Usage, c NodeCap, groupsExtra int) []string {
	var over []string
	if u.CPU > c.CPU {
		over = append(over, fmt.Sprintf("cpu %dm > %dm", u.CPU, c.CPU))
	}
	if u.Mem > c.Mem {
		over = append(over, fmt.Sprintf("memory %d > %d", u.Mem, c.Mem))
	}
	if u.Pods > c.Pods {
		over = append(over, fmt.Sprintf("pods %d > %d", u.Pods, c.Pods))
	}
	if u.WholeGPUs+int64(len(u.Groups)) > c.GPUs {
		over = append(over, fmt.Sprintf("GPUs %d whole + %d shared devices > %d", u.WholeGPUs, len(u.Groups), c.GPUs))
	}
	keys := make([]string, 0, len(u.Ext))
	for k := range u.Ext {
		keys = append(keys, k)
	}
	sort.Strings(keys)
	for _, k := range keys {
		if u.Ext[k] > c.Ext[k] {
			over = append(over, fmt.Sprintf("%s %d > %d", k, u.Ext[k], c.Ext[k]))
		}
	}
	return over
}

// CheckNodes evaluates the C01 inequality (and the whole/shared device count both C01 and C02 state)
// and, when shared is set, the per-device clauses of C02, on one cycle.
func CheckNodes(rec *CycleRecord, shared bool) ([]Finding, NodeFacts) {
	var out []Finding
	var facts NodeFacts
	use, caps, groupNode := nodeUsage(rec.Before)
	// the induction hypothesis, per node: the node was not oversubscribed when the cycle started. A node that
	// starts oversubscribed (in practice: pod slots taken by reservation pods of multi-device sharers, see
	// DESIGN.md section 5 item 9) is not judged in this cycle; all other nodes are.
	skipNode := map[string]bool{}
	for n, u := range use {
		if len(overCap(u, caps[n], 0)) > 0 {
			skipNode[n] = true
		}
		for g, m := range u.Groups {
			dm := caps[n].GPUMem
			if dm == 0 {
				dm = 100
			}
			if m > dm+int64(len(u.GroupPods[g])) {
				skipNode[n] = true
			}
		}
	}
	facts.StartInconsistent = len(skipNode) > 0
	termOn := map[string]bool{}
	for _, p := range rec.Before.Pods {
		if p.Terminating && p.Occupying() {
			termOn[p.Node] = true
		}
	}
	evictedOn := map[string]bool{}
	releasingGroups := map[string]bool{}
	for i, c := range rec.Calls {
		switch c.Kind {
		case "evict":
			if pv := rec.Before.ByName[c.Pod]; pv != nil && c.Err == "" {
				evictedOn[pv.Node] = true
				for _, g := range pv.Groups {
					releasingGroups[g] = true
				}
			}
			continue
		case "pipeline":
			continue
		}
		// bind
		if c.Err != "" {
			facts.FailedBinds++
			continue
		}
		pv := rec.Before.ByName[c.Pod]
		if pv == nil {
			continue
		}
		u, ok := use[c.Node]
		if !ok {
			out = append(out, Finding{"bind-to-unknown-node", fmt.Sprintf("call %d binds %s to node %s which is not in the store", i, c.Pod, c.Node), rec.Index})
			continue
		}
		cp := caps[c.Node]
		if skipNode[c.Node] {
			u.Add(c.Pod, pv.Req, c.Groups, false, cp)
			continue
		}
		facts.Binds++
		if termOn[c.Node] || evictedOn[c.Node] {
			facts.BindsNextToTerminating++
		}
		req := pv.Req
		// tight?
		if (req.CPU > 0 && cp.CPU-u.CPU < 2*req.CPU) || (req.Mem > 0 && cp.Mem-u.Mem < 2*req.Mem) || cp.Pods-u.Pods < 2 ||
			(req.GPUs > 0 && cp.GPUs-u.WholeGPUs-int64(len(u.Groups)) < 2*req.GPUs) {
			facts.BindsNearFull++
		}
		if req.Sharing() {
			dm := cp.GPUMem
			if dm == 0 {
				dm = 100
			}
			if shared {
				if int64(len(c.Groups)) != req.Devices {
					out = append(out, Finding{"c02-device-count", fmt.Sprintf("call %d binds %s, which asks for %d fractional devices, with groups %v", i, c.Pod, req.Devices, c.Groups), rec.Index})
				}
				seen := map[string]bool{}
				for _, g := range c.Groups {
					if seen[g] {
						out = append(out, Finding{"c02-repeated-group", fmt.Sprintf("call %d binds %s with the same GPU group twice: %v", i, c.Pod, c.Groups), rec.Index})
					}
					seen[g] = true
					if gn, known := groupNode[g]; known && gn != c.Node {
						out = append(out, Finding{"c02-group-on-two-nodes", fmt.Sprintf("call %d binds %s to group %s on node %s but that group lives on %s", i, c.Pod, g, c.Node, gn), rec.Index})
					}
				}
			}
			newGroups := 0
			for _, g := range c.Groups {
				if _, exists := u.Groups[g]; exists {
					facts.JoinGroup++
				} else {
					facts.OpenGroup++
					newGroups++
					for rg := range releasingGroups {
						if groupNode[rg] == c.Node {
							facts.OpenWhileReleasing++
							break
						}
					}
					for _, p := range rec.Before.Pods {
						if p.Terminating && p.Node == c.Node && len(p.Groups) > 0 {
							facts.OpenWhileReleasing++
							break
						}
					}
				}
				groupNode[g] = c.Node
			}
			u.Add(c.Pod, req, c.Groups, false, cp)
			if shared {
				for _, g := range c.Groups {
					if u.Groups[g] > dm+int64(len(u.GroupPods[g])) {
						out = append(out, Finding{"c02-device-oversubscribed", fmt.Sprintf(
							"after call %d (%s) GPU group %s on node %s holds %d MiB of a %d MiB device: pods %v", i, c, g, c.Node, u.Groups[g], dm, u.GroupPods[g]), rec.Index})
					}
				}
			}
			_ = newGroups
		} else {
			if shared && len(c.Groups) > 0 && req.GPUs > 0 {
				out = append(out, Finding{"c02-whole-gpu-in-group", fmt.Sprintf("call %d binds whole-GPU pod %s into groups %v", i, c.Pod, c.Groups), rec.Index})
			}
			u.Add(c.Pod, req, nil, false, cp)
		}
		if over := overCap(u, cp, 0); len(over) > 0 {
			sig := "c01-node-oversubscribed"
			onlyGPU := len(over) == 1 && len(over[0]) > 4 && over[0][:4] == "GPUs"
			if shared && onlyGPU {
				sig = "c02-devices-exceed-gpu-count"
			} else if shared {
				continue // other resources are C01's business
			}
			out = append(out, Finding{sig, fmt.Sprintf("after call %d (%s) node %s is oversubscribed: %v; holds %s; allocatable cpu=%dm mem=%d pods=%d gpus=%d",
				i, c, c.Node, over, u, cp.CPU, cp.Mem, cp.Pods, cp.GPUs), rec.Index})
		}
	}
	return out, facts
}

// ReservationSlotClause: a bind that opens k new groups on a node needs k more pod slots for their
// reservation pods. Evaluated separately from the main inequality (DESIGN.md, C01 false-alarm guards).
func ReservationSlotClause(rec *CycleRecord) []Finding {
	var out []Finding
	use, caps, _ := nodeUsage(rec.Before)
	for n, u := range use {
		if len(overCap(u, caps[n], 0)) > 0 {
			return nil
		}
	}
	pending := map[string]int64{} // node -> reservation pods still to be created
	for i, c := range rec.Calls {
		if c.Kind != "bind" || c.Err != "" {
			continue
		}
		pv := rec.Before.ByName[c.Pod]
		u := use[c.Node]
		if pv == nil || u == nil {
			continue
		}
		for _, g := range c.Groups {
			if _, exists := u.Groups[g]; !exists {
				pending[c.Node]++
			}
		}
		u.Add(c.Pod, pv.Req, c.Groups, false, caps[c.Node])
		if u.Pods+pending[c.Node] > caps[c.Node].Pods {
			out = append(out, Finding{"c01-no-slot-for-reservation-pod", fmt.Sprintf(
				"after call %d (%s) node %s has %d pods + %d reservation pods to come > %d pod slots", i, c, c.Node, u.Pods, pending[c.Node], caps[c.Node].Pods), rec.Index})
		}
	}
	return out
}

// DescribeOver explains why a snapshot is oversubscribed (debugging aid).
func DescribeOver(snap *Snapshot) string {
	use, caps, _ := nodeUsage(snap)
	s := ""
	for n, u := range use {
		if o := overCap(u, caps[n], 0); len(o) > 0 {
			s += fmt.Sprintf("node %s: %v holds %s; ", n, o, u)
		}
		for g, m := range u.Groups {
			dm := caps[n].GPUMem
			if dm == 0 {
				dm = 100
			}
			if m > dm+int64(len(u.GroupPods[g])) {
				s += fmt.Sprintf("node %s group %s: %d > %d pods %v; ", n, g, m, dm, u.GroupPods[g])
			}
		}
	}
	return s
}

// CheckDevices is the DRA part of C01: a device of a node's ResourceSlice is held by at most one claim, devices
// held by pods that occupy the node (running, terminating, bound, being bound - by the claim status in the API or
// by the allocation of a live BindRequest) are never handed to a bind, and a bind gets exactly the devices its
// claims ask for, on the node it is bound to, out of the node's slice.
func CheckDevices(rec *CycleRecord) ([]Finding, int) {
	var out []Finding
	if len(rec.Before.Claims) == 0 {
		return nil, 0
	}
	held := map[string]string{} // driver/pool/device -> holder
	hold := func(dev, who string) {
		if prev, taken := held[dev]; taken && prev != who {
			// inconsistent start state: not the scheduler's doing in this cycle
			return
		}
		held[dev] = who
	}
	claimOf := func(pod *PodView, podClaim string) *resourceapi.ResourceClaim {
		for _, pc := range pod.Raw.Spec.ResourceClaims {
			if pc.Name == podClaim && pc.ResourceClaimName != nil {
				return rec.Before.Claims[*pc.ResourceClaimName]
			}
		}
		return nil
	}
	for _, rc := range rec.Before.Claims {
		if rc.Status.Allocation == nil {
			continue
		}
		for _, r := range rc.Status.Allocation.Devices.Results {
			hold(r.Driver+"/"+r.Pool+"/"+r.Device, "claim "+rc.Name)
		}
	}
	for _, br := range rec.Before.BRs {
		pv := rec.Before.ByName[br.Spec.PodName]
		if pv == nil || !pv.Binding {
			continue
		}
		for _, ca := range br.Spec.ResourceClaimAllocations {
			if ca.Allocation == nil {
				continue
			}
			name := "claim of " + br.Spec.PodName
			if rc := claimOf(pv, ca.Name); rc != nil {
				name = "claim " + rc.Name
			}
			for _, r := range ca.Allocation.Devices.Results {
				hold(r.Driver+"/"+r.Pool+"/"+r.Device, name)
			}
		}
	}
	sliceSize := rec.Before.Slices // driver/pool -> devices
	bindsWithClaims := 0
	for i, c := range rec.Calls {
		if c.Kind != "bind" || c.Err != "" {
			continue
		}
		pv := rec.Before.ByName[c.Pod]
		if pv == nil || len(pv.Raw.Spec.ResourceClaims) == 0 {
			continue
		}
		bindsWithClaims++
		got := map[string]int{}
		for _, cd := range c.Claims {
			eq := strings.Index(cd, "=")
			if eq < 0 {
				continue
			}
			podClaim, dev := cd[:eq], cd[eq+1:]
			if dev == "<unallocated>" {
				out = append(out, Finding{"c01-bound-with-unallocated-claim", fmt.Sprintf("call %d binds %s while its claim %s has no devices", i, c.Pod, podClaim), rec.Index})
				continue
			}
			got[podClaim]++
			parts := strings.Split(dev, "/")
			if len(parts) == 3 {
				if parts[1] != c.Node {
					out = append(out, Finding{"c01-device-of-another-node", fmt.Sprintf("call %d binds %s to node %s with device %s of node %s", i, c.Pod, c.Node, dev, parts[1]), rec.Index})
				}
				idx, err := strconv.Atoi(parts[2])
				if size, known := sliceSize[parts[0]+"/"+parts[1]]; !known || err != nil || idx < 0 || idx >= size {
					out = append(out, Finding{"c01-device-not-in-slice", fmt.Sprintf("call %d binds %s with device %s which the node's slice does not hold", i, c.Pod, dev), rec.Index})
				}
			}
			me := "claim of " + c.Pod
			if rc := claimOf(pv, podClaim); rc != nil {
				me = "claim " + rc.Name
			}
			if who, taken := held[dev]; taken && who != me {
				out = append(out, Finding{"c01-device-handed-out-twice", fmt.Sprintf("call %d (%s) hands device %s to %s although it is held by %s", i, c, dev, me, who), rec.Index})
			}
			held[dev] = me
		}
		for _, pc := range pv.Raw.Spec.ResourceClaims {
			rc := claimOf(pv, pc.Name)
			if rc == nil || len(rc.Spec.Devices.Requests) == 0 || rc.Spec.Devices.Requests[0].Exactly == nil {
				continue
			}
			if want := int(rc.Spec.Devices.Requests[0].Exactly.Count); got[pc.Name] != want {
				out = append(out, Finding{"c01-claim-device-count", fmt.Sprintf("call %d binds %s: claim %s asks for %d device(s), the bind carries %d (%v)", i, c.Pod, pc.Name, want, got[pc.Name], c.Claims), rec.Index})
			}
		}
	}
	return out, bindsWithClaims
}
