package sim

import (
	"fmt"

	"pgregory.net/rapid"
)

// AddFamilies appends, to a generated world, families of workloads of the same leaf queue that are identical in
// pod template, gang shape and preemptibility and differ only in priority class and creation time (C16).
func AddFamilies(t *rapid.T, w *World, pf Profile) {
	leaves := w.LeafQueues()
	nf := between(t, 1, 2, "nFamilies")
	for f := 0; f < nf; f++ {
		queue := leaves[uniform(t, len(leaves), "famQueue")]
		tmpl := genTemplate(t, pf, w)
		// A member whose feasibility depends on what other workloads get placed during the same cycle (required
		// pod affinity towards other pods) can fail at its turn and a later, lower-priority twin succeed once
		// the matching pod has landed: the allocate action is one pass in priority order, it does not revisit.
		// Such templates are outside what the order property can be judged on; drop the affinity (counted).
		var keep []PodAffinityTerm
		for _, pa := range tmpl.PodAffinity {
			if pa.Anti {
				keep = append(keep, pa)
			}
		}
		tmpl.PodAffinity = keep
		min := 1
		if chance(t, 4, "famGang") {
			min = between(t, 2, 3, "famMin")
		}
		replicas := min
		if chance(t, 2, "famElastic") {
			replicas = min + 1
		}
		preempt := pickS(t, "famPreemptibility", "preemptible", "preemptible", "non-preemptible")
		k := between(t, 2, 5, "famSize")
		extreme := chance(t, 3, "famExtremePriorities")
		if extreme {
			if len(w.PriorityClasses) == 0 {
				w.PriorityClasses = DefaultPriorityClasses()
			}
			have := map[string]bool{}
			for _, pc := range w.PriorityClasses {
				have[pc.Name] = true
			}
			for _, pc := range []PriorityClass{{Name: "p-max", Value: 2000000000}, {Name: "p-high", Value: 1000000000}, {Name: "p-low", Value: -1200000000}, {Name: "p-min", Value: -2147483648}} {
				if !have[pc.Name] {
					w.PriorityClasses = append(w.PriorityClasses, pc)
				}
			}
		}
		used := map[int]bool{}
		for m := 0; m < k; m++ {
			g := Group{Name: fmt.Sprintf("f%dm%d", f, m), Queue: queue, MinMember: min, Preemptibility: preempt, Family: fmt.Sprintf("f%d", f)}
			g.PriorityClass = pickS(t, "famPrio", "train", "build-preemptible", "build", "inference")
			if chance(t, 5, "famSamePrio") {
				g.PriorityClass = "train"
			}
			if extreme {
				// the whole int32 range is legal for a PriorityClass; preemptibility is explicit in a family
				g.PriorityClass = pickS(t, "famPrioExtreme", "p-max", "p-high", "p-low", "p-min", "train", "inference")
			}
			c := between(t, 1, 40, "famCreated") * 3
			for used[c] {
				c += 3
			}
			used[c] = true
			g.CreatedMin = c
			for pi := 0; pi < replicas; pi++ {
				p := tmpl
				p.Name = fmt.Sprintf("%s-p%d", g.Name, pi)
				p.CreatedMin = c
				p.State = Pending
				g.Pods = append(g.Pods, p)
			}
			w.Groups = append(w.Groups, g)
		}
		// near-twins that are NOT members: same queue, template and gang shape, the other preemptibility (they meet
		// other quota rules and may fail where a member would not); whatever the scheduler concludes from their fate
		// must not change the order among the members. They are never compared.
		if chance(t, 2, "famDecoys") {
			other := "non-preemptible"
			if preempt == "non-preemptible" {
				other = "preemptible"
			}
			for d, nd := 0, between(t, 1, 2, "famDecoyN"); d < nd; d++ {
				src := w.Groups[len(w.Groups)-1-uniform(t, k, "famDecoyLike")]
				g := Group{Name: fmt.Sprintf("f%dd%d", f, d), Queue: queue, MinMember: min, Preemptibility: other, PriorityClass: src.PriorityClass}
				c := between(t, 1, 40, "famDecoyCreated")*3 + 1
				g.CreatedMin = c
				for pi := 0; pi < replicas; pi++ {
					p := tmpl
					p.Name = fmt.Sprintf("%s-p%d", g.Name, pi)
					p.CreatedMin = c
					p.State = Pending
					g.Pods = append(g.Pods, p)
				}
				w.Groups = append(w.Groups, g)
			}
		}
	}
}

type OrderFacts struct{ Pairs, SplitPairs int }

// nodeDependentGPUShare: the workload asks for GPU memory (MiB), the cluster has GPU nodes with devices of different
// memory - so the GPU share the queue is charged depends on the node each pod lands on - and a queue above the
// workload has a GPU limit. Whether the gang fits under the limit then depends on the per-pod node choice, which the
// allocate action makes greedily by node score and never revisits.
func nodeDependentGPUShare(w *World, g *Group) bool {
	if len(g.Pods) == 0 || g.Pods[0].GPUMemory <= 0 {
		return false
	}
	mems := map[int]bool{}
	for _, n := range w.Nodes {
		if n.GPUs > 0 && n.GPUMem > 0 {
			mems[n.GPUMem-n.GPUMem%100] = true
		}
	}
	if len(mems) < 2 {
		return false
	}
	byName := map[string]*Queue{}
	for i := range w.Queues {
		byName[w.Queues[i].Name] = &w.Queues[i]
	}
	for q, hops := byName[g.Queue], 0; q != nil && hops < 16; q, hops = byName[q.Parent], hops+1 {
		if q.GPU.Limit >= 0 {
			return true
		}
		if q.Parent == "" {
			break
		}
	}
	return false
}

// CheckOrder is the C16 oracle on one cycle.
func CheckOrder(w *World, rec *CycleRecord) ([]Finding, OrderFacts) {
	w = rec.Effective(w)
	var out []Finding
	var facts OrderFacts
	wls := w.Workloads()
	placed := map[string]bool{}
	for _, c := range rec.Calls {
		if (c.Kind == "bind" || c.Kind == "pipeline") && c.Err == "" {
			if pv := rec.Before.ByName[c.Pod]; pv != nil {
				placed[pv.Workload] = true
			}
		}
	}
	// a family member is comparable in this cycle only while it is still entirely pending
	pendingOnly := map[string]bool{}
	for i := range w.Groups {
		g := &w.Groups[i]
		if g.Family == "" {
			continue
		}
		ok := true
		n := 0
		for _, pv := range rec.Before.Pods {
			if pv.Workload == g.Name {
				n++
				if !pv.PendingFree() {
					ok = false
				}
			}
		}
		pendingOnly[g.Name] = ok && n >= g.MinMember
	}
	for i := range w.Groups {
		a := &w.Groups[i]
		if a.Family == "" || !pendingOnly[a.Name] {
			continue
		}
		for j := range w.Groups {
			b := &w.Groups[j]
			if i == j || b.Family != a.Family || !pendingOnly[b.Name] {
				continue
			}
			pa, pb := wls[a.Name].Priority, wls[b.Name].Priority
			before := pa > pb || (pa == pb && a.CreatedMin > b.CreatedMin) // larger CreatedMin = older
			if !before {
				continue
			}
			facts.Pairs++
			if placed[a.Name] != placed[b.Name] {
				facts.SplitPairs++
			}
			if placed[b.Name] && !placed[a.Name] {
				sig := "c16-order-inverted"
				if nodeDependentGPUShare(w, a) {
					// listed known finding: see known_findings.json
					sig = "c16-order-inverted-gpu-memory-share-depends-on-node-under-queue-limit"
				}
				out = append(out, Finding{sig, fmt.Sprintf(
					"workload %s (priority %d, created %d min ago) was placed while the identical workload %s of the same queue %s (priority %d, created %d min ago) was left unplaced",
					b.Name, pb, b.CreatedMin, a.Name, a.Queue, pa, a.CreatedMin), rec.Index})
			}
		}
	}
	return dedupe(out), facts
}

func JudgeOrder(w *World) *Verdict {
	h := Run(w, nil)
	v := &Verdict{History: h, Findings: EngineFindings(h)}
	var tot OrderFacts
	for _, rec := range h.Cycles {
		if rec.Panic != "" || rec.Hung || rec.Starved {
			continue
		}
		fs, f := CheckOrder(w, rec)
		v.Findings = append(v.Findings, fs...)
		tot.Pairs += f.Pairs
		tot.SplitPairs += f.SplitPairs
	}
	if tot.Pairs > 0 {
		v.Classes = append(v.Classes, "comparable-pair")
	}
	if tot.SplitPairs > 0 {
		v.Classes = append(v.Classes, "pair-with-exactly-one-placed")
	}
	v.Nontrivial = tot.SplitPairs > 0
	return v
}
