package sim

import (
	"fmt"
	"math"
	"sort"
	"strings"
	"sync"

	"pgregory.net/rapid"

	"github.com/NVIDIA/KAI-scheduler/pkg/scheduler/framework"
)

type ProgressFacts struct {
	PendingLeft, PlacedSome, Judged, Skipped, WithClaims int
}

// CheckWorkConservation is clause (a) of C05 on one allocate-only cycle: no ready, fully pending workload whose
// identical pods demonstrably fit on idle capacity (by counting) and respect the queue limits may be left.
func CheckWorkConservation(w *World, rec *CycleRecord) ([]Finding, ProgressFacts) {
	w = rec.Effective(w)
	var out []Finding
	var facts ProgressFacts
	tree := w.QueueTree()
	wls := w.Workloads()
	mins := w.PodSetMins()
	// post-cycle occupancy: store after the cycle (bind requests of this cycle are live there) + this cycle's nominations
	use, caps, _ := nodeUsage(rec.After)
	nominatedGPUs := map[string]int64{}
	placed := map[string]bool{}
	for _, c := range rec.Calls {
		if c.Err != "" {
			continue
		}
		pv := rec.Before.ByName[c.Pod]
		if pv == nil {
			continue
		}
		if c.Kind == "bind" || c.Kind == "pipeline" {
			placed[pv.Workload] = true
		}
		if c.Kind == "pipeline" {
			u := use[c.Node]
			if u == nil {
				continue
			}
			if pv.Req.Sharing() {
				nominatedGPUs[c.Node] += pv.Req.Devices // conservative: a whole device per nominated sharer device
				u.CPU += pv.Req.CPU
				u.Mem += pv.Req.Mem
				u.Pods += 1 + pv.Req.Devices
			} else {
				u.Add(c.Pod, pv.Req, nil, false, caps[c.Node])
			}
		}
	}
	if len(placed) > 0 {
		facts.PlacedSome = 1
	}
	// DRA devices that are taken after the cycle: allocated claims of the store, allocations travelling in live bind
	// requests, devices of this cycle's nominations
	takenDevices := map[string]bool{} // driver/pool/device
	for _, rc := range rec.After.Claims {
		if rc.Status.Allocation != nil {
			for _, r := range rc.Status.Allocation.Devices.Results {
				takenDevices[r.Driver+"/"+r.Pool+"/"+r.Device] = true
			}
		}
	}
	for _, br := range rec.After.BRs {
		for _, ca := range br.Spec.ResourceClaimAllocations {
			if ca.Allocation != nil {
				for _, r := range ca.Allocation.Devices.Results {
					takenDevices[r.Driver+"/"+r.Pool+"/"+r.Device] = true
				}
			}
		}
	}
	for _, c := range rec.Calls {
		if c.Err == "" {
			for _, cd := range c.Claims {
				if i := strings.Index(cd, "="); i >= 0 {
					takenDevices[cd[i+1:]] = true
				}
			}
		}
	}
	takenPerPool := map[string]int{} // driver/pool
	for d := range takenDevices {
		if i := strings.LastIndex(d, "/"); i > 0 {
			takenPerPool[d[:i]]++
		}
	}
	// queue allocations after the cycle (active pods incl. binding) + nominations
	qAll, qNP := map[string][3]float64{}, map[string][3]float64{}
	charge := func(wl *WorkloadInfo, ch [3]float64) {
		for _, q := range Chain(tree, wl.Queue) {
			a, n := qAll[q.Name], qNP[q.Name]
			for r := 0; r < 3; r++ {
				a[r] += ch[r]
				if !wl.Preemptible {
					n[r] += ch[r]
				}
			}
			qAll[q.Name], qNP[q.Name] = a, n
		}
	}
	// GPUs requested through DRA claims of the GPU device class count towards the queues' GPU allocation as well
	draGPUs := func(pv *PodView) float64 {
		n := 0.0
		for _, pc := range pv.Raw.Spec.ResourceClaims {
			if pc.ResourceClaimName == nil {
				continue
			}
			if rc := rec.After.Claims[*pc.ResourceClaimName]; rc != nil {
				for _, rq := range rc.Spec.Devices.Requests {
					if rq.Exactly != nil && rq.Exactly.DeviceClassName == DRAGPUClass {
						n += float64(rq.Exactly.Count)
					}
				}
			}
		}
		return n
	}
	for _, pv := range rec.After.Pods {
		if wl := wls[pv.Workload]; wl != nil && pv.Active() && !pv.Reservation {
			ch := ChargeUpper(pv.Req, caps[pv.Node])
			ch[RGPU] += draGPUs(pv)
			charge(wl, ch)
		}
	}
	for _, c := range rec.Calls {
		if c.Kind == "pipeline" && c.Err == "" {
			if pv := rec.Before.ByName[c.Pod]; pv != nil && wls[pv.Workload] != nil {
				ch := ChargeUpper(pv.Req, caps[c.Node])
				ch[RGPU] += draGPUs(pv)
				charge(wls[pv.Workload], ch)
			}
		}
	}
	for gi := range w.Groups {
		g := &w.Groups[gi]
		wl := wls[g.Name]
		if placed[g.Name] || g.Topo != nil || g.NoPodGroup {
			continue
		}
		hasTopo := false
		for _, sg := range g.SubGroups {
			if sg.Topo != nil {
				hasTopo = true
			}
		}
		if hasTopo {
			continue
		}
		// fully pending and ready in the store after the cycle?
		var pods []*PodView
		ready := true
		perSet := map[setKey]int{}
		for _, pv := range rec.After.Pods {
			if pv.Workload == g.Name {
				pods = append(pods, pv)
				if !pv.PendingFree() {
					ready = false
				}
				perSet[setKey{g.Name, pv.SubGroup}]++
			}
		}
		need := 0
		for sk, m := range mins {
			if sk.Workload == g.Name {
				need += m
				if perSet[sk] < m {
					ready = false
				}
			}
		}
		if !ready || len(pods) == 0 || need == 0 {
			continue
		}
		facts.PendingLeft++
		req := pods[0].Req
		constrained := false
		for _, pv := range pods {
			p := pv.Raw
			if len(p.Spec.NodeSelector) > 0 || p.Spec.Affinity != nil {
				constrained = true
			}
		}
		// the counting argument needs identical pods: the same request and the same claims for every pod of the
		// workload (a pod replaced by its controller with another template, or a workload of which only some pods
		// carry claims, is outside it)
		shape := func(pv *PodView) string {
			cl := ""
			for _, pc := range pv.Raw.Spec.ResourceClaims {
				if pc.ResourceClaimName != nil {
					if rc := rec.After.Claims[*pc.ResourceClaimName]; rc != nil && len(rc.Spec.Devices.Requests) == 1 && rc.Spec.Devices.Requests[0].Exactly != nil {
						cl += fmt.Sprintf("%s*%d;", rc.Spec.Devices.Requests[0].Exactly.DeviceClassName, rc.Spec.Devices.Requests[0].Exactly.Count)
						continue
					}
				}
				cl += "?;"
			}
			return fmt.Sprintf("%+v|%s", pv.Req, cl)
		}
		for _, pv := range pods[1:] {
			if shape(pv) != shape(pods[0]) {
				constrained = true
			}
		}
		if constrained || len(req.Ext) > 0 {
			facts.Skipped++
			continue
		}
		// DRA claims of the (identical) pods: devices of a class, per pod; claims of the DRA GPU class are left out
		// (they count towards GPU quotas and limits, which this counting argument does not model)
		type devNeed struct {
			class string
			count int
		}
		var needs []devNeed
		draGPU, oddClaim := false, false
		for _, pc := range pods[0].Raw.Spec.ResourceClaims {
			if pc.ResourceClaimName == nil {
				oddClaim = true
				continue
			}
			rc := rec.After.Claims[*pc.ResourceClaimName]
			if rc == nil || len(rc.Spec.Devices.Requests) != 1 || rc.Spec.Devices.Requests[0].Exactly == nil {
				oddClaim = true
				continue
			}
			ex := rc.Spec.Devices.Requests[0].Exactly
			if ex.DeviceClassName == DRAGPUClass {
				draGPU = true
			}
			needs = append(needs, devNeed{ex.DeviceClassName, int(ex.Count)})
		}
		if draGPU || oddClaim {
			facts.Skipped++
			continue
		}
		if len(needs) > 0 {
			facts.WithClaims++
		}
		// how many of its identical pods fit on what is idle now?
		fit := int64(0)
		var detail []string
		nodes := make([]string, 0, len(use))
		for n := range use {
			nodes = append(nodes, n)
		}
		sort.Strings(nodes)
		for _, n := range nodes {
			node := rec.After.Nodes[n]
			u, c := use[n], caps[n]
			if node.Spec.Unschedulable || len(node.Spec.Taints) > 0 || node.Labels["nvidia.com/mig.strategy"] == "mixed" {
				continue
			}
			notReady := false
			for _, cond := range node.Status.Conditions {
				if cond.Type == "Ready" && cond.Status != "True" {
					notReady = true
				}
			}
			if notReady {
				continue
			}
			k := int64(1 << 40)
			lim := func(free, per int64) {
				if per > 0 {
					if v := free / per; v < k {
						k = v
					}
				}
			}
			lim(c.CPU-u.CPU, req.CPU)
			lim(c.Mem-u.Mem, req.Mem)
			idleGPUs := c.GPUs - u.WholeGPUs - int64(len(u.Groups)) - nominatedGPUs[n]
			if req.Sharing() {
				if c.GPUMem == 0 || DeviceMemory(req, c) > c.GPUMem-c.GPUMem%100 {
					k = 0
				}
				lim(idleGPUs, req.Devices)
				lim(c.Pods-u.Pods, 1+req.Devices)
			} else {
				lim(idleGPUs, req.GPUs)
				lim(c.Pods-u.Pods, 1)
			}
			for _, dn := range needs {
				pool := dn.class + "/" + n
				lim(int64(rec.After.Slices[pool]-takenPerPool[pool]), int64(dn.count))
			}
			if k < 0 {
				k = 0
			}
			if k > 0 {
				detail = append(detail, fmt.Sprintf("%s:%d", n, k))
			}
			fit += k
		}
		if fit < int64(need) {
			continue
		}
		// queue limits / non-preemptible quota for minMember pods
		ch := Charge(req, NodeCap{GPUMem: 16000})
		if req.GPUMem > 0 {
			ch[RGPU] = float64(req.Devices) // conservative upper bound for gpu-memory requests
		}
		ok := true
		for _, q := range Chain(tree, wl.Queue) {
			for r := 0; r < 3; r++ {
				add := ch[r] * float64(need)
				if add <= 0 {
					continue
				}
				// all amounts are multiples of 0.01 (GPU) or integers (cpu, memory): compare in hundredths, exactly
				if q.Limit[r] >= 0 && hundredths(qAll[q.Name][r])+hundredths(add) > hundredths(q.Limit[r]) {
					ok = false
				}
				if !wl.Preemptible && q.Deserved[r] >= 0 && hundredths(qNP[q.Name][r])+hundredths(add) > hundredths(q.Deserved[r]) {
					ok = false
				}
			}
		}
		if !ok {
			continue
		}
		facts.Judged++
		out = append(out, Finding{"c05-work-not-conserved", fmt.Sprintf(
			"workload %s (queue %s, %d identical pods needed, request cpu=%dm mem=%d gpus=%d fraction=%v gpuMem=%d devices=%d) stays pending although its pods fit on idle capacity (%v) within all queue limits",
			g.Name, wl.Queue, need, req.CPU, req.Mem, req.GPUs, req.Fraction, req.GPUMem, req.Devices, detail), rec.Index})
	}
	return out, facts
}

func hundredths(x float64) int64 { return int64(math.Round(x * 100)) }

func JudgeWorkConservation(w *World) *Verdict {
	// The known C13 / C14 finding (the whole-GPU part of a node's Idle / Releasing counters drifts on nodes with shared
	// GPUs, it can even go negative) also costs progress: a node whose releasing GPU count is negative refuses every
	// task, CPU-only ones included. The accounting oracle of C14 runs alongside; a cycle in which it sees exactly that
	// drift gives its work-conservation findings the signature of the known finding.
	var mu sync.Mutex
	drifted := map[int]bool{}
	tracker := NewMoveTracker()
	look := func(ssn *framework.Session, cycle int) {
		for _, d := range CheckAccounting(ssn, true, tracker.Twins) {
			if d.Sig == "node-whole-gpu-counter-differs-from-rebuild" {
				mu.Lock()
				drifted[cycle] = true
				mu.Unlock()
			}
		}
	}
	opt := &Options{Hooks: Hooks{
		AfterOpen: func(ssn *framework.Session, cycle int) {
			tracker = NewMoveTracker()
			tracker.Start(ssn)
			handler := func(allocate bool) func(e *framework.Event) {
				return func(e *framework.Event) {
					tracker.Observe(ssn, allocate)
					look(ssn, cycle)
				}
			}
			ssn.AddEventHandler(&framework.EventHandler{AllocateFunc: handler(true), DeallocateFunc: handler(false)})
		},
		BeforeClose: func(ssn *framework.Session, cycle int) { look(ssn, cycle) },
	}}
	h := Run(w, opt)
	v := &Verdict{History: h, Findings: EngineFindings(h)}
	var tot ProgressFacts
	for _, rec := range h.Cycles {
		if rec.Panic != "" || rec.Hung || rec.Starved {
			continue
		}
		fs, f := CheckWorkConservation(w, rec)
		if drifted[rec.Index] {
			for i := range fs {
				if fs[i].Sig == "c05-work-not-conserved" {
					fs[i].Sig = "c05-work-not-conserved-while-whole-gpu-counters-drifted"
				}
			}
		}
		v.Findings = append(v.Findings, fs...)
		tot.PendingLeft += f.PendingLeft
		tot.PlacedSome += f.PlacedSome
		tot.Skipped += f.Skipped
		tot.WithClaims += f.WithClaims
	}
	if tot.PendingLeft > 0 {
		v.Classes = append(v.Classes, "workload-left-pending")
	}
	if tot.WithClaims > 0 {
		v.Classes = append(v.Classes, "pending-workload-with-dra-claims-judged")
	}
	if tot.PlacedSome > 0 {
		v.Classes = append(v.Classes, "some-workload-placed")
	}
	v.Classes = append(v.Classes, "family:work-conservation")
	v.Nontrivial = tot.PendingLeft > 0 && tot.PlacedSome > 0
	return v
}

// ---------------------------------------------------------------------------------------------
// clause (b): the unobstructed reclaim / preempt families

// GenDisplacementFamily builds a world of interchangeable one-GPU single-pod workloads on interchangeable
// nodes, cluster exactly full, in which the designated pending workload "want" must obtain capacity by
// reclaim (family "reclaim") or preempt (family "preempt") within one cycle.
func GenDisplacementFamily(t *rapid.T) *World {
	w := &World{}
	c := &w.Config
	c.FullHierarchy = true
	c.PlacementGPU = pickS(t, "placementGpu", "binpack", "spread")
	c.PlacementCPU = pickS(t, "placementCpu", "binpack", "spread")
	c.MaxConsolidation = pickInt(t, "maxConsolidation", 16, 0)
	c.Signatures = chance(t, 5, "signatures")
	c.ConsolidatingReclaim = chance(t, 5, "consolidatingReclaim")
	c.SaturationMultiplier = pickS(t, "satMult", "", "1.2")
	nNodes := between(t, 1, 3, "nNodes")
	gpn := pickInt(t, "gpusPerNode", 1, 2, 4)
	total := nNodes * gpn
	for i := 0; i < nNodes; i++ {
		w.Nodes = append(w.Nodes, Node{Name: fmt.Sprintf("n%d", i), GPUs: gpn, GPUMem: 16000, CPU: 32000, MemMB: 65536, Pods: 110, Labels: map[string]string{}})
	}
	free := QRes{Quota: -1, Limit: -1, Weight: 1}
	family := pickS(t, "family", "reclaim", "preempt")
	w.Family = family
	addRunning := func(name, queue, prio string, node int) {
		w.Groups = append(w.Groups, Group{Name: name, Queue: queue, PriorityClass: prio, Preemptibility: "preemptible", MinMember: 1,
			CreatedMin: 300 + len(w.Groups), LastStartMin: 1000,
			Pods: []Pod{{Name: name + "-p0", CPU: 100, MemMB: 64, GPUs: 1, State: Running, Node: fmt.Sprintf("n%d", node), CreatedMin: 300}}})
	}
	if family == "preempt" {
		// one leaf queue holds everything: nothing to reclaim from, only lower priorities to preempt
		w.Queues = []Queue{{Name: "root", GPU: QRes{Quota: float64(total), Limit: -1, Weight: 1}, CPU: free, Mem: free},
			{Name: "x", Parent: "root", GPU: QRes{Quota: pickF(t, "xQuota", 0, 1, float64(total)), Limit: -1, Weight: 1}, CPU: free, Mem: free}}
		// variant "replacement": the previous pod of 'want' is still terminating on a GPU, its replacement is pending;
		// an older workload of higher priority in the same queue is nominated onto the GPU being freed, so 'want' has
		// to preempt like any other pending workload
		replacement := total >= 2 && chance(t, 3, "replacementPod")
		wantPods := []Pod{{Name: "want-p0", CPU: 100, MemMB: 64, GPUs: 1, State: Pending, CreatedMin: 10}}
		for k := 0; k < total; k++ {
			if replacement && k == total-1 {
				wantPods = append(wantPods, Pod{Name: "want-old", CPU: 100, MemMB: 64, GPUs: 1, State: Terminating, Node: fmt.Sprintf("n%d", k/gpn), CreatedMin: 300})
				w.Groups = append(w.Groups, Group{Name: "first", Queue: "x", PriorityClass: "inference", Preemptibility: "preemptible", MinMember: 1, CreatedMin: 200,
					Pods: []Pod{{Name: "first-p0", CPU: 100, MemMB: 64, GPUs: 1, State: Pending, CreatedMin: 200}}})
				w.Family2 = "replacement-pod"
				continue
			}
			prio := "train"
			if k > 0 && chance(t, 3, "higherRunner") {
				prio = "build-preemptible"
			}
			addRunning(fmt.Sprintf("run%d", k), "x", prio, k/gpn)
		}
		w.Groups = append(w.Groups, Group{Name: "want", Queue: "x", PriorityClass: "build-preemptible", Preemptibility: "preemptible", MinMember: 1, CreatedMin: 10, Pods: wantPods})
		// bystander queues: each is full with pods of the pending workload's own priority, sits exactly at its quota
		// with no over-quota weight (nothing to reclaim, nothing to preempt) and has a pending workload identical to
		// 'want'. They can obtain nothing and must not keep 'want' from preempting inside its own queue.
		for d := 0; d < pickInt(t, "bystanderQueues", 0, 0, 1, 2); d++ {
			qn := fmt.Sprintf("y%d", d)
			node := len(w.Nodes)
			w.Nodes = append(w.Nodes, Node{Name: fmt.Sprintf("n%d", node), GPUs: gpn, GPUMem: 16000, CPU: 32000, MemMB: 65536, Pods: 110, Labels: map[string]string{}})
			w.Queues = append(w.Queues, Queue{Name: qn, Parent: "root", GPU: QRes{Quota: float64(gpn), Limit: -1, Weight: 0}, CPU: free, Mem: free})
			w.Queues[0].GPU.Quota += float64(gpn)
			for k := 0; k < gpn; k++ {
				w.Groups = append(w.Groups, Group{Name: fmt.Sprintf("%srun%d", qn, k), Queue: qn, PriorityClass: "build-preemptible", Preemptibility: "preemptible", MinMember: 1,
					CreatedMin: 300 + len(w.Groups), LastStartMin: 1000,
					Pods: []Pod{{Name: fmt.Sprintf("%srun%d-p0", qn, k), CPU: 100, MemMB: 64, GPUs: 1, State: Running, Node: fmt.Sprintf("n%d", node), CreatedMin: 300}}})
			}
			w.Groups = append(w.Groups, Group{Name: qn + "want", Queue: qn, PriorityClass: "build-preemptible", Preemptibility: "preemptible", MinMember: 1, CreatedMin: between(t, 5, 15, "bystanderAge"),
				Pods: []Pod{{Name: qn + "want-p0", CPU: 100, MemMB: 64, GPUs: 1, State: Pending, CreatedMin: 10}}})
		}
	} else {
		// queue a: deserved quota covers its running pods + the pending one; queue b: strictly above its quota even after losing one
		// variant "replacement" (see the preempt family): one GPU is held by the terminating previous pod of 'want' and
		// is nominated to an older, higher-priority workload of queue a
		replacement := total >= 2 && chance(t, 3, "replacementPod")
		own := 0
		if replacement {
			own = 1
		}
		aRun := between(t, 0, total-1-own, "aRunning")
		bRun := total - own - aRun
		aQuota := aRun + 1 + 2*own + between(t, 0, 1, "aSlack")
		bQuota := between(t, 0, bRun-1, "bQuota")
		w.Queues = []Queue{{Name: "root", GPU: QRes{Quota: float64(aQuota + bQuota + 1), Limit: -1, Weight: 1}, CPU: free, Mem: free},
			{Name: "a", Parent: "root", GPU: QRes{Quota: float64(aQuota), Limit: -1, Weight: pickF(t, "aW", 0, 1, 2)}, CPU: free, Mem: free},
			{Name: "b", Parent: "root", GPU: QRes{Quota: float64(bQuota), Limit: -1, Weight: pickF(t, "bW", 0, 1, 2)}, CPU: free, Mem: free}}
		k := 0
		for i := 0; i < aRun; i++ {
			addRunning(fmt.Sprintf("arun%d", i), "a", pickS(t, "aPrio", "train", "build-preemptible"), k/gpn)
			k++
		}
		for i := 0; i < bRun; i++ {
			addRunning(fmt.Sprintf("brun%d", i), "b", pickS(t, "bPrio", "train", "build-preemptible"), k/gpn)
			k++
		}
		wantPods := []Pod{{Name: "want-p0", CPU: 100, MemMB: 64, GPUs: 1, State: Pending, CreatedMin: 10}}
		if replacement {
			wantPods = append(wantPods, Pod{Name: "want-old", CPU: 100, MemMB: 64, GPUs: 1, State: Terminating, Node: fmt.Sprintf("n%d", k/gpn), CreatedMin: 300})
			w.Groups = append(w.Groups, Group{Name: "first", Queue: "a", PriorityClass: "inference", Preemptibility: "preemptible", MinMember: 1, CreatedMin: 200,
				Pods: []Pod{{Name: "first-p0", CPU: 100, MemMB: 64, GPUs: 1, State: Pending, CreatedMin: 200}}})
			w.Family2 = "replacement-pod"
		}
		w.Groups = append(w.Groups, Group{Name: "want", Queue: "a", PriorityClass: pickS(t, "wantPrio", "train", "build-preemptible"), Preemptibility: "preemptible", MinMember: 1, CreatedMin: 10, Pods: wantPods})
	}
	w.Cycles = []CycleScript{{}}
	return w
}

func JudgeDisplacement(w *World) *Verdict {
	h := Run(w, nil)
	v := &Verdict{History: h, Findings: EngineFindings(h), Nontrivial: true}
	v.Classes = append(v.Classes, "family:"+w.Family)
	if w.Family2 != "" {
		v.Classes = append(v.Classes, "family:"+w.Family+"+"+w.Family2)
	}
	if len(h.Cycles) == 0 || h.Cycles[0].Panic != "" || h.Cycles[0].Hung || h.Cycles[0].Starved {
		return v
	}
	rec := h.Cycles[0]
	placed, evicted := false, false
	for _, c := range rec.Calls {
		if c.Err != "" {
			continue
		}
		if (c.Kind == "bind" || c.Kind == "pipeline") && c.Pod == "want-p0" {
			placed = true
		}
		if c.Kind == "evict" && c.Action == w.Family && c.Preemptor == "want" {
			evicted = true
		}
	}
	if !placed || !evicted {
		v.Findings = append(v.Findings, Finding{"c05-" + w.Family + "-did-not-happen", fmt.Sprintf(
			"family %s: the pending workload 'want' should obtain a GPU by %s within one cycle (placed=%v, %s eviction for it=%v); calls: %v",
			w.Family, w.Family, placed, w.Family, evicted, TraceStrings(rec.Calls)), 0})
	}
	return v
}
