package sim

import (
	"fmt"
	"math"
	"regexp"
	"sort"
	"strconv"
)

// ---------------------------------------------------------------------------------------------
// queue tree as the scheduler is configured to see it

type QNode struct {
	Name     string
	Parent   string
	Limit    [3]float64 // cpu (milli), memory (bytes), gpu ; -1 unlimited
	Deserved [3]float64
	Spec     *Queue
}

const (
	RCPU = 0
	RMem = 1
	RGPU = 2
)

var ResNames = [3]string{"cpu(m)", "memory(B)", "gpu"}

// QueueTree returns the effective queue tree: with full hierarchy fairness the tree as given; without it
// (the default) every queue that has a parent hangs under an unlimited "default" queue and top-level
// queues are dropped (cluster_info/queue.go).
func (w *World) QueueTree() map[string]*QNode {
	out := map[string]*QNode{}
	mb := func(v float64) float64 {
		if v < 0 {
			return -1
		}
		return v * 1000 * 1000
	}
	for i := range w.Queues {
		q := &w.Queues[i]
		if !w.Config.FullHierarchy && q.Parent == "" {
			continue
		}
		n := &QNode{Name: q.Name, Parent: q.Parent, Spec: q}
		if !w.Config.FullHierarchy {
			n.Parent = "default"
		}
		n.Limit = [3]float64{q.CPU.Limit, mb(q.Mem.Limit), q.GPU.Limit}
		n.Deserved = [3]float64{q.CPU.Quota, mb(q.Mem.Quota), q.GPU.Quota}
		if q.NilResources {
			n.Limit, n.Deserved = [3]float64{}, [3]float64{}
		}
		out[q.Name] = n
	}
	if !w.Config.FullHierarchy {
		out["default"] = &QNode{Name: "default", Limit: [3]float64{-1, -1, -1}, Deserved: [3]float64{-1, -1, -1}}
	}
	return out
}

// Chain returns the queue and its ancestors, leaf first (bounded against malformed trees).
func Chain(tree map[string]*QNode, leaf string) []*QNode {
	var out []*QNode
	seen := map[string]bool{}
	for q := tree[leaf]; q != nil && !seen[q.Name]; q = tree[q.Parent] {
		seen[q.Name] = true
		out = append(out, q)
	}
	return out
}

// WorkloadInfo: queue, priority and preemptibility of every workload, as documented.
type WorkloadInfo struct {
	Queue       string
	Priority    int
	Preemptible bool
	Group       *Group
}

func (w *World) Workloads() map[string]*WorkloadInfo {
	pcs := w.PriorityClasses
	if pcs == nil {
		pcs = DefaultPriorityClasses()
	}
	def := 50
	for _, pc := range pcs {
		if pc.GlobalDefault {
			def = pc.Value
		}
	}
	out := map[string]*WorkloadInfo{}
	for i := range w.Groups {
		g := &w.Groups[i]
		prio := def
		for _, pc := range pcs {
			if pc.Name == g.PriorityClass {
				prio = pc.Value
			}
		}
		pre := prio < 100
		switch g.Preemptibility {
		case "preemptible":
			pre = true
		case "non-preemptible":
			pre = false
		}
		out[g.Name] = &WorkloadInfo{Queue: g.Queue, Priority: prio, Preemptible: pre, Group: g}
	}
	return out
}

var migRe = regexp.MustCompile(`^nvidia\.com/mig-([0-9]+)g\.`)

// Charge is a lower bound of what a pod placed on node costs its queues: cpu, memory, GPUs.
func Charge(r Request, cap NodeCap) [3]float64 {
	c := [3]float64{float64(r.CPU), float64(r.Mem), float64(r.GPUs)}
	if r.Fraction > 0 {
		c[RGPU] = math.Round(r.Fraction*100) / 100 * float64(r.Devices)
	} else if r.GPUMem > 0 {
		c[RGPU] = 0
		if cap.GPUMem > 0 {
			c[RGPU] = float64(r.GPUMem) / float64(cap.GPUMem) * float64(r.Devices)
		}
	}
	for k, v := range r.Ext {
		if m := migRe.FindStringSubmatch(k); m != nil {
			g, _ := strconv.Atoi(m[1])
			c[RGPU] += float64(g) * float64(v)
		}
	}
	return c
}

// ChargeUpper is an upper bound of what a pod placed on node costs its queues (used where an oracle argues that
// something still fits under a limit): a gpu-memory request is charged against the device memory as the scheduler
// reads it (the label floored to 100 MiB), rounded up to hundredths of a device.
func ChargeUpper(r Request, cap NodeCap) [3]float64 {
	c := Charge(r, cap)
	if r.Fraction <= 0 && r.GPUMem > 0 {
		m := cap.GPUMem - cap.GPUMem%100
		per := 1.0
		if m > 0 {
			per = math.Ceil(float64(r.GPUMem)/float64(m)*100) / 100
		}
		up := per * float64(r.Devices)
		for k, v := range r.Ext {
			if mm := migRe.FindStringSubmatch(k); mm != nil {
				g, _ := strconv.Atoi(mm[1])
				up += float64(g) * float64(v)
			}
		}
		if up > c[RGPU] {
			c[RGPU] = up
		}
	}
	return c
}

type QueueFacts struct{ Adds, NearLimit, NearQuota, OverAtStart, FailedCall int }

type qAcc struct{ all, np [3]float64 }

// CheckQueueLimits is the C08 oracle on one cycle: running sums over the ordered call record.
func CheckQueueLimits(w *World, rec *CycleRecord) ([]Finding, QueueFacts) {
	w = rec.Effective(w)
	var out []Finding
	var facts QueueFacts
	tree := w.QueueTree()
	wls := w.Workloads()
	caps := map[string]NodeCap{}
	for n, node := range rec.Before.Nodes {
		caps[n] = NodeCapacity(node)
	}
	acc := map[string]*qAcc{}
	get := func(q string) *qAcc {
		a := acc[q]
		if a == nil {
			a = &qAcc{}
			acc[q] = a
		}
		return a
	}
	apply := func(wl *WorkloadInfo, c [3]float64, sign float64) {
		for _, q := range Chain(tree, wl.Queue) {
			a := get(q.Name)
			for r := 0; r < 3; r++ {
				a.all[r] += sign * c[r]
				if !wl.Preemptible {
					a.np[r] += sign * c[r]
				}
			}
		}
	}
	// allocation at cycle start: active (not terminating) pods of the scheduler's workloads
	charged := map[string][3]float64{}
	for _, pv := range rec.Before.Pods {
		wl := wls[pv.Workload]
		if wl == nil || pv.Reservation || !pv.Active() || pv.Scheduler != SchedulerName {
			continue
		}
		c := Charge(pv.Req, caps[pv.Node])
		charged[pv.Name] = c
		apply(wl, c, +1)
	}
	start := map[string]qAcc{}
	for q, a := range acc {
		start[q] = *a
	}
	for _, q := range tree {
		a := start[q.Name]
		for r := 0; r < 3; r++ {
			if q.Limit[r] >= 0 && a.all[r] > q.Limit[r]+1e-6 {
				facts.OverAtStart++
			}
		}
	}
	const tol = 1e-6
	fd := map[string]string{} // pod -> folded state, maintained incrementally
	for _, pv := range rec.Before.Pods {
		fd[pv.Name] = startState(pv)
	}
	for i, c := range rec.Calls {
		pv := rec.Before.ByName[c.Pod]
		if c.Err != "" {
			// C08 does not quantify over failing API calls. Failures also arise without injection: a pod that was bound
			// and evicted earlier in the cycle is gone from the API at once, and evicting it again (after it was
			// nominated elsewhere) returns NotFound; the commit then keeps the reclaimer's placements although the victim
			// was put back. From the first failed call on the cycle is outside the property.
			facts.FailedCall++
			break
		}
		if pv == nil {
			continue
		}
		wl := wls[pv.Workload]
		if wl == nil {
			continue
		}
		switch c.Kind {
		case "evict":
			if ch, ok := charged[c.Pod]; ok {
				apply(wl, ch, -1)
				delete(charged, c.Pod)
			}
			continue
		}
		// bind / pipeline: adding call (a pod still charged - e.g. re-nominated - is first released)
		if ch, ok := charged[c.Pod]; ok {
			apply(wl, ch, -1)
		}
		ch := Charge(pv.Req, caps[c.Node])
		charged[c.Pod] = ch
		apply(wl, ch, +1)
		facts.Adds++
		for _, q := range Chain(tree, wl.Queue) {
			a := acc[q.Name]
			st := start[q.Name]
			for r := 0; r < 3; r++ {
				if ch[r] <= 0 {
					continue
				}
				if q.Limit[r] >= 0 {
					if q.Limit[r]-a.all[r] < ch[r] {
						facts.NearLimit++
					}
					if a.all[r] > math.Max(q.Limit[r], st.all[r])+tol*math.Max(1, a.all[r]) {
						out = append(out, Finding{"c08-queue-over-limit", fmt.Sprintf(
							"call %d (%s) raises %s of queue %s to %v, above its limit %v (allocation at cycle start %v); workload %s in queue %s",
							i, c, ResNames[r], q.Name, a.all[r], q.Limit[r], st.all[r], pv.Workload, wl.Queue), rec.Index})
					}
				}
				if !wl.Preemptible && q.Deserved[r] >= 0 {
					if q.Deserved[r]-a.np[r] < ch[r] {
						facts.NearQuota++
					}
					if a.np[r] > math.Max(q.Deserved[r], st.np[r])+tol*math.Max(1, a.np[r]) {
						out = append(out, Finding{"c08-non-preemptible-over-quota", fmt.Sprintf(
							"call %d (%s) raises the non-preemptible %s of queue %s to %v, above its deserved quota %v (at cycle start %v); workload %s in queue %s",
							i, c, ResNames[r], q.Name, a.np[r], q.Deserved[r], st.np[r], pv.Workload, wl.Queue), rec.Index})
					}
				}
			}
		}
	}
	return dedupe(out), facts
}

func dedupe(fs []Finding) []Finding {
	seen := map[string]bool{}
	var out []Finding
	for _, f := range fs {
		k := f.Sig
		if !seen[k] {
			seen[k] = true
			out = append(out, f)
		}
	}
	sort.SliceStable(out, func(i, j int) bool { return out[i].Cycle < out[j].Cycle })
	return out
}

// JudgeQueueLimits is the C08 judge.
func JudgeQueueLimits(w *World) *Verdict {
	h := Run(w, nil)
	v := &Verdict{History: h, Findings: EngineFindings(h)}
	var tot QueueFacts
	for _, rec := range h.Cycles {
		if rec.Panic != "" || rec.Hung || rec.Starved {
			continue
		}
		fs, f := CheckQueueLimits(w, rec)
		v.Findings = append(v.Findings, fs...)
		tot.Adds += f.Adds
		tot.FailedCall += f.FailedCall
		tot.NearLimit += f.NearLimit
		tot.NearQuota += f.NearQuota
		tot.OverAtStart += f.OverAtStart
	}
	add := func(b bool, s string) {
		if b {
			v.Classes = append(v.Classes, s)
		}
	}
	add(tot.Adds > 0, "has-adding-call")
	add(tot.NearLimit > 0, "add-within-one-request-of-a-limit")
	add(tot.NearQuota > 0, "non-preemptible-add-within-one-request-of-quota")
	add(tot.OverAtStart > 0, "queue-above-limit-at-cycle-start")
	add(tot.FailedCall > 0, "cycle-cut-at-failed-api-call(outside-quantifier)")
	add(w.Config.FullHierarchy, "full-hierarchy")
	v.Nontrivial = tot.NearLimit > 0 || tot.NearQuota > 0
	return v
}
