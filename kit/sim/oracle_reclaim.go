package sim

import (
	"fmt"
	"math"
	"sort"
)

type ReclaimFacts struct {
	Decisions, MultiUnit, CrossSubtree, NonPreemptibleReclaimer, Skipped int
}

func exceeds(a, bound float64, tol float64) bool {
	if bound < 0 { // unlimited
		return false
	}
	return a > bound+tol
}

// CheckReclaim is the C07 oracle on one cycle. Allocations are recomputed from the store and the ordered
// calls, deserved quota from the queue specs, fair share from the proportion plugin's result (validated by C09).
func CheckReclaim(w *World, rec *CycleRecord) ([]Finding, ReclaimFacts) {
	w = rec.Effective(w)
	var out []Finding
	var facts ReclaimFacts
	if rec.Shares == nil {
		return nil, facts
	}
	tree := w.QueueTree()
	wls := w.Workloads()
	caps := map[string]NodeCap{}
	for n, node := range rec.Before.Nodes {
		caps[n] = NodeCapacity(node)
	}
	acc := map[string]*qAcc{}
	get := func(q string) *qAcc {
		if acc[q] == nil {
			acc[q] = &qAcc{}
		}
		return acc[q]
	}
	apply := func(wl *WorkloadInfo, c [3]float64, sign float64) {
		for _, q := range Chain(tree, wl.Queue) {
			a := get(q.Name)
			for r := 0; r < 3; r++ {
				a.all[r] += sign * c[r]
				if !wl.Preemptible {
					a.np[r] += sign * c[r]
				}
			}
		}
	}
	charged := map[string][3]float64{}
	for _, pv := range rec.Before.Pods {
		wl := wls[pv.Workload]
		if wl == nil || pv.Reservation || !pv.Active() || pv.Scheduler != SchedulerName {
			continue
		}
		c := Charge(pv.Req, caps[pv.Node])
		charged[pv.Name] = c
		apply(wl, c, +1)
	}
	// Charge is a lower bound for gpu-memory sharers (share of the labelled device memory); the scheduler charges the
	// share of the floored label rounded up to hundredths. Where the oracle argues that a queue was NOT above its
	// quota it must use an upper bound: gpuSlack[q] bounds what the pods below q can cost more than Charge says.
	gpuSlack := map[string]float64{}
	for _, pv := range rec.Before.Pods {
		wl := wls[pv.Workload]
		if wl == nil || pv.Reservation || pv.Req.GPUMem <= 0 {
			continue
		}
		d := 0.0
		for n, cp := range caps {
			if (pv.Node != "" && n != pv.Node) || cp.GPUMem <= 0 {
				continue
			}
			if x := ChargeUpper(pv.Req, cp)[RGPU] - Charge(pv.Req, cp)[RGPU]; x > d {
				d = x
			}
		}
		for _, q := range Chain(tree, wl.Queue) {
			gpuSlack[q.Name] += d
		}
	}
	decs := Decisions(rec.Calls, func(pod string) string {
		if pv := rec.Before.ByName[pod]; pv != nil {
			return pv.Workload
		}
		return ""
	})
	decAt := map[int]decision{}
	for _, d := range decs {
		decAt[d.from] = d
	}
	snapshotAcc := func() map[string]qAcc {
		m := map[string]qAcc{}
		for k, v := range acc {
			m[k] = *v
		}
		return m
	}
	step := func(c Call) {
		pv := rec.Before.ByName[c.Pod]
		if pv == nil || c.Err != "" || wls[pv.Workload] == nil {
			return
		}
		wl := wls[pv.Workload]
		if c.Kind == "evict" {
			if ch, ok := charged[c.Pod]; ok {
				apply(wl, ch, -1)
				delete(charged, c.Pod)
			}
			return
		}
		if ch, ok := charged[c.Pod]; ok {
			apply(wl, ch, -1)
		}
		ch := Charge(pv.Req, caps[c.Node])
		charged[c.Pod] = ch
		apply(wl, ch, +1)
	}
	const tol = 1e-6
	i := 0
	for i < len(rec.Calls) {
		d, isDec := decAt[i]
		if !isDec || d.action != "reclaim" {
			step(rec.Calls[i])
			i++
			continue
		}
		facts.Decisions++
		pre := wls[d.preemptor]
		before := snapshotAcc()
		// victim units: all pods of one workload taken (net) by this decision
		type unit struct {
			workload string
			res      [3]float64
		}
		evicted := map[string][3]float64{}
		replaced := map[string][3]float64{} // pods evicted and placed again by this decision (re-placed victims)
		var placedPre [3]float64
		involved := [3]bool{}
		for k := d.from; k < d.to; k++ {
			c := rec.Calls[k]
			pv := rec.Before.ByName[c.Pod]
			if pv == nil || c.Err != "" {
				continue
			}
			if c.Kind == "evict" {
				if ch, ok := charged[c.Pod]; ok {
					evicted[c.Pod] = ch
				}
			} else {
				if _, was := evicted[c.Pod]; was {
					replaced[c.Pod] = Charge(pv.Req, caps[c.Node])
				}
				delete(evicted, c.Pod) // re-placed in the same decision: not taken
				if pv.Workload == d.preemptor {
					ch := Charge(pv.Req, caps[c.Node])
					for r := 0; r < 3; r++ {
						placedPre[r] += ch[r]
						if ch[r] > 0 {
							involved[r] = true
						}
					}
				}
			}
			step(c)
		}
		i = d.to
		after := snapshotAcc()
		if pre == nil {
			continue
		}
		unitsByWl := map[string]*unit{}
		for pod, ch := range evicted {
			pv := rec.Before.ByName[pod]
			u := unitsByWl[pv.Workload]
			if u == nil {
				u = &unit{workload: pv.Workload}
				unitsByWl[pv.Workload] = u
			}
			for r := 0; r < 3; r++ {
				u.res[r] += ch[r]
				if ch[r] > 0 {
					involved[r] = true
				}
			}
		}
		if len(unitsByWl) >= 2 {
			facts.MultiUnit++
		}
		prePath := pathFromRoot(tree, pre.Queue)
		share := func(q string) (QShare, bool) {
			s, ok := rec.Shares[q]
			return s, ok
		}
		// (a) every victim queue, at the level where it diverges from the reclaimer's queue, was above its
		// deserved quota or above its fair share when its units were taken (some order of the units)
		byLevelQueue := map[string][]*unit{}
		levelOf := map[string]string{} // victim level queue -> reclaimer queue at the same level
		for _, u := range unitsByWl {
			vic := wls[u.workload]
			vp := pathFromRoot(tree, vic.Queue)
			k := 0
			for k < len(vp) && k < len(prePath) && vp[k].Name == prePath[k].Name {
				k++
			}
			if k >= len(vp) || k >= len(prePath) {
				facts.Skipped++ // same leaf, or one queue is an ancestor of the other: not a reclaim shape the statement covers
				continue
			}
			if k > 0 {
				facts.CrossSubtree++
			}
			byLevelQueue[vp[k].Name] = append(byLevelQueue[vp[k].Name], u)
			levelOf[vp[k].Name] = prePath[k].Name
		}
		vqs := make([]string, 0, len(byLevelQueue))
		for q := range byLevelQueue {
			vqs = append(vqs, q)
		}
		sort.Strings(vqs)
		for _, vq := range vqs {
			units := byLevelQueue[vq]
			sh, ok := share(vq)
			if !ok {
				continue
			}
			node := tree[vq]
			start := before[vq].all
			start[RGPU] += gpuSlack[vq]
			above := func(alloc [3]float64) bool {
				for r := 0; r < 3; r++ {
					if exceeds(alloc[r], node.Deserved[r], tol*math.Max(1, alloc[r])) || exceeds(alloc[r], sh.FairShare[r], tol*math.Max(1, alloc[r])) {
						return true
					}
				}
				return false
			}
			okOrder := false
			if len(units) <= 5 {
				perm := make([]int, len(units))
				for k := range perm {
					perm[k] = k
				}
				var try func(k int, alloc [3]float64) bool
				used := make([]bool, len(units))
				try = func(k int, alloc [3]float64) bool {
					if k == len(units) {
						return true
					}
					if !above(alloc) {
						return false
					}
					for j := range units {
						if used[j] {
							continue
						}
						used[j] = true
						next := alloc
						for r := 0; r < 3; r++ {
							next[r] -= units[j].res[r]
						}
						if try(k+1, next) {
							used[j] = false
							return true
						}
						used[j] = false
					}
					return false
				}
				okOrder = try(0, start)
			} else {
				okOrder = above(start)
			}
			if !okOrder {
				var us []string
				for _, u := range units {
					us = append(us, fmt.Sprintf("%s%v", u.workload, u.res))
				}
				out = append(out, Finding{"c07-took-from-queue-within-quota-and-fair-share", fmt.Sprintf(
					"reclaim for %s (queue %s) took %v from queue %s whose allocation %v [cpu m, mem B, gpu] was within its deserved quota %v and fair share %v",
					d.preemptor, pre.Queue, us, vq, start, node.Deserved, sh.FairShare), rec.Index})
			}
		}
		// (b) reclaimer's leaf queue stays within its fair share
		if sh, ok := share(pre.Queue); ok && (placedPre != [3]float64{}) {
			a := after[pre.Queue].all
			for r := 0; r < 3; r++ {
				if placedPre[r] > 0 && exceeds(a[r], sh.FairShare[r], tol*math.Max(1, a[r])) {
					out = append(out, Finding{"c07-reclaimer-above-fair-share", fmt.Sprintf(
						"reclaim for %s leaves its queue %s with %s allocation %v above its fair share %v", d.preemptor, pre.Queue, ResNames[r], a[r], sh.FairShare[r]), rec.Index})
				}
			}
		}
		// (c) non-preemptible reclaimer within deserved quota at every level
		if !pre.Preemptible {
			facts.NonPreemptibleReclaimer++
			for _, q := range Chain(tree, pre.Queue) {
				a := after[q.Name].np
				for r := 0; r < 3; r++ {
					if placedPre[r] > 0 && exceeds(a[r], q.Deserved[r], tol*math.Max(1, a[r])) && a[r] > before[q.Name].np[r]+tol {
						out = append(out, Finding{"c07-non-preemptible-reclaimer-over-quota", fmt.Sprintf(
							"non-preemptible reclaimer %s raises the non-preemptible %s allocation of queue %s to %v, above its deserved quota %v", d.preemptor, ResNames[r], q.Name, a[r], q.Deserved[r]), rec.Index})
					}
				}
			}
		}
		// (d) no ancestor-or-self of the reclaimer ends above its fair share and at least as saturated as the sibling it took from
		for _, vq := range vqs {
			rq := levelOf[vq]
			rsh, ok1 := share(rq)
			vsh, ok2 := share(vq)
			if !ok1 || !ok2 {
				continue
			}
			for r := 0; r < 3; r++ {
				if !involved[r] || rsh.FairShare[r] < 0 || vsh.FairShare[r] <= 0 {
					continue
				}
				ra, va := after[rq].all[r], after[vq].all[r]
				var rr float64
				switch {
				case rsh.FairShare[r] == 0 && ra > tol:
					rr = math.Inf(1)
				case rsh.FairShare[r] == 0:
					rr = 0
				default:
					rr = ra / rsh.FairShare[r]
				}
				vr := va / vsh.FairShare[r]
				if rr > 1+tol && rr >= vr+tol {
					// Shape of the recorded known finding: the ancestor's excess is covered by what other workloads of its
					// own subtree were given in this same cycle - bound / nominated before this decision, or evicted and
					// placed again by it - i.e. the reclaim was judged as if those placements were not there.
					own := 0.0
					var ownPods []string
					inSubtree := func(workload string) bool {
						wl := wls[workload]
						if wl == nil || workload == d.preemptor {
							return false
						}
						for _, qn := range pathFromRoot(tree, wl.Queue) {
							if qn.Name == rq {
								return true
							}
						}
						return false
					}
					for pod, ch := range replaced {
						if pv := rec.Before.ByName[pod]; pv != nil && inSubtree(pv.Workload) {
							own += ch[r]
							ownPods = append(ownPods, pod)
						}
					}
					for k := 0; k < d.from; k++ {
						c := rec.Calls[k]
						if (c.Kind != "bind" && c.Kind != "pipeline") || c.Err != "" {
							continue
						}
						if _, again := replaced[c.Pod]; again {
							continue
						}
						if pv := rec.Before.ByName[c.Pod]; pv != nil && inSubtree(pv.Workload) {
							if ch, still := charged[c.Pod]; still {
								own += ch[r]
								ownPods = append(ownPods, c.Pod)
							}
						}
					}
					// ... or by pods of the victims' workloads that were still pending and that the decision itself places
					// while it re-allocates those workloads (elastic victims): the scenario is validated on the victims and
					// the reclaimer only
					grown := 0.0
					var grownPods []string
					for k := d.from; k < d.to; k++ {
						c := rec.Calls[k]
						if (c.Kind != "bind" && c.Kind != "pipeline") || c.Err != "" {
							continue
						}
						if _, again := replaced[c.Pod]; again {
							continue
						}
						if pv := rec.Before.ByName[c.Pod]; pv != nil && inSubtree(pv.Workload) {
							grown += Charge(pv.Req, caps[c.Node])[r]
							grownPods = append(grownPods, c.Pod)
						}
					}
					sort.Strings(grownPods)
					if grown > 0 && rsh.FairShare[r] > 0 && (ra-own-grown)/rsh.FairShare[r] <= 1+tol {
						out = append(out, Finding{"c07-ancestor-overshoot-covered-by-pending-pods-of-victim-workloads-placed-by-the-decision", fmt.Sprintf(
							"after reclaim for %s, queue %s holds %v %s of fair share %v while the sibling %s it took from holds %v of %v: the excess is what %v, pending pods of the victims' workloads in %s's subtree, were given by this very decision; decision: %v; before it: %v",
							d.preemptor, rq, ra, ResNames[r], rsh.FairShare[r], vq, va, vsh.FairShare[r], grownPods, rq, TraceStrings(rec.Calls[d.from:d.to]), TraceStrings(rec.Calls[:d.from])), rec.Index})
						continue
					}
					sort.Strings(ownPods)
					if own > 0 && rsh.FairShare[r] > 0 && (ra-own)/rsh.FairShare[r] <= 1+tol {
						out = append(out, Finding{"c07-ancestor-overshoot-covered-by-same-cycle-placements-of-its-subtree", fmt.Sprintf(
							"after reclaim for %s, queue %s holds %v %s of fair share %v while the sibling %s it took from holds %v of %v: the excess is what %v, other pods of %s's subtree, were given earlier in this cycle (or were evicted and placed again by this decision); decision: %v; before it: %v",
							d.preemptor, rq, ra, ResNames[r], rsh.FairShare[r], vq, va, vsh.FairShare[r], ownPods, rq, TraceStrings(rec.Calls[d.from:d.to]), TraceStrings(rec.Calls[:d.from])), rec.Index})
						continue
					}
					out = append(out, Finding{"c07-reclaimer-more-saturated-than-victim", fmt.Sprintf(
						"after reclaim for %s, queue %s holds %v %s of fair share %v (saturation %.3f) while the sibling %s it took from holds %v of %v (saturation %.3f); decision: %v; before it: %v",
						d.preemptor, rq, ra, ResNames[r], rsh.FairShare[r], rr, vq, va, vsh.FairShare[r], vr, TraceStrings(rec.Calls[d.from:d.to]), TraceStrings(rec.Calls[:d.from])), rec.Index})
				}
			}
		}
	}
	return dedupe(out), facts
}

func JudgeReclaim(w *World) *Verdict {
	h := Run(w, &Options{CaptureShares: true})
	v := &Verdict{History: h, Findings: EngineFindings(h)}
	var tot ReclaimFacts
	for _, rec := range h.Cycles {
		if rec.Panic != "" || rec.Hung || rec.Starved {
			continue
		}
		fs, f := CheckReclaim(w, rec)
		v.Findings = append(v.Findings, fs...)
		tot.Decisions += f.Decisions
		tot.MultiUnit += f.MultiUnit
		tot.CrossSubtree += f.CrossSubtree
		tot.NonPreemptibleReclaimer += f.NonPreemptibleReclaimer
		tot.Skipped += f.Skipped
	}
	add := func(b bool, s string) {
		if b {
			v.Classes = append(v.Classes, s)
		}
	}
	add(tot.Decisions > 0, "reclaim-decision")
	add(tot.MultiUnit > 0, "decision-with->=2-victim-workloads")
	add(tot.CrossSubtree > 0, "victim-in-another-sub-tree-below-a-common-ancestor")
	add(tot.NonPreemptibleReclaimer > 0, "non-preemptible-reclaimer")
	v.Nontrivial = tot.MultiUnit > 0 || tot.CrossSubtree > 0 || tot.Decisions > 0
	return v
}
