package sim

import (
	"fmt"
	"os"
	"regexp"
	"sort"
	"strings"
	"sync"

	"github.com/NVIDIA/KAI-scheduler/pkg/scheduler/api/pod_status"
	"github.com/NVIDIA/KAI-scheduler/pkg/scheduler/framework"
)

// C13: statements. The real actions run; a build-tag guarded hook in framework.Statement reports the life cycle
// of every statement (first operation, checkpoint, rollback, discard, commit). The oracle:
//
//	restore : after Discard the session dump equals the dump taken before the statement's first operation;
//	          after Rollback(cp) it equals the dump taken at Checkpoint() == cp
//	silence : no Bind / Evict / TaskPipelined reaches the cache outside a Commit (session-level evictions of the
//	          stale-gang action excepted), in particular none during a Discard or Rollback
//	commit  : the calls emitted by a Commit are the net effect of the statement, derived from task states alone
//	          (state before the first operation vs state when Commit starts): a task back in its old state gets
//	          no call; a newly releasing task one Evict; a newly allocated one Bind; a newly nominated one
//	          TaskPipelined (plus one Evict if it held resources before); never two calls of one kind for a pod.

type taskState struct {
	Status pod_status.PodStatus
	Node   string
	Groups string
}

func taskStates(ssn *framework.Session) map[string]taskState {
	out := map[string]taskState{}
	for _, job := range ssn.ClusterInfo.PodGroupInfos {
		for _, t := range job.GetAllPodsMap() {
			g := append([]string(nil), t.GPUGroups...)
			sort.Strings(g)
			out[t.Name] = taskState{t.Status, t.NodeName, strings.Join(g, ",")}
		}
	}
	return out
}

type stmtTrack struct {
	start       [3]string
	startTasks  map[string]taskState
	cps         map[int][3]string
	foreign     bool
	commitFrom  int
	commitTasks map[string]taskState
	ops         int
}

// StatementFacts feeds the evidence counters.
type StatementFacts struct {
	Statements, Discards, DiscardsCompared, Rollbacks, RollbacksCompared, Commits, CommitsJudged int
	CommitsWithEvictAndPlace, DiscardsWithMove, OpsUndone, Foreign                               int
}

func isOccupying(s pod_status.PodStatus) bool {
	switch s {
	case pod_status.Running, pod_status.Allocated, pod_status.Binding, pod_status.Bound:
		return true
	}
	return false
}

// JudgeStatements runs the world and checks C13 on every statement the actions create.
func JudgeStatements(w *World) *Verdict {
	var mu sync.Mutex
	var findings []Finding
	seen := map[string]bool{}
	var facts StatementFacts
	trace := os.Getenv("VERIF_TRACE_STMT") != ""
	add := func(cycle int, sig, format string, a ...any) {
		if !seen[sig] {
			seen[sig] = true
			findings = append(findings, Finding{Sig: sig, Msg: fmt.Sprintf(format, a...), Cycle: cycle})
		}
	}
	var curSsn *framework.Session
	var curCycle int
	live := map[*framework.Statement]*stmtTrack{}
	inCommit, inUndo := 0, 0
	reEvictions := 0
	evictedThisCycle := map[string]int{}
	boundThisCycle := map[string]int{}
	calls := func() []Call {
		rc, ok := curSsn.Cache.(*recordingCache)
		if !ok {
			return nil
		}
		rc.mu.Lock()
		defer rc.mu.Unlock()
		return append([]Call(nil), rc.calls...)
	}
	dumps := func() [3]string {
		return [3]string{
			DumpSessionWith(curSsn, DumpOptions{NodeStatusClass: true}),
			DumpSessionWith(curSsn, DumpOptions{NodeStatusClass: true, BlankPendingGroup: true}),
			DumpSessionWith(curSsn, DumpOptions{NodeStatusClass: true, BlankPendingGroup: true, MaskWholeGPU: true}),
		}
	}
	callsSeen := 0
	// every call must fall into a commit window (or be a session-level eviction)
	sweepCalls := func(where string) {
		cs := calls()
		for i := callsSeen; i < len(cs); i++ {
			c := cs[i]
			if inCommit == 0 && !(c.Kind == "evict" && c.Action == "") && !(c.Kind == "evict" && inUndo == 0 && len(live) == 0) {
				add(curCycle, "c13-call-outside-commit", "%s: call %q reached the cluster outside any Commit (%s)", where, c.String(), where)
			}
			if inUndo > 0 {
				add(curCycle, "c13-call-during-undo", "%s: call %q reached the cluster while a statement was being discarded / rolled back", where, c.String())
			}
		}
		callsSeen = len(cs)
	}
	hook := func(event string, s *framework.Statement, arg int) {
		mu.Lock()
		defer mu.Unlock()
		if curSsn == nil {
			return
		}
		if trace {
			fmt.Printf("STMT c%d %p %s %d ops=%d\n", curCycle, s, event, arg, len(framework.VerifOperations(s)))
			if tn := os.Getenv("VERIF_TRACE_NODE"); tn != "" {
				for _, l := range strings.Split(DumpSession(curSsn), "\n") {
					if strings.Contains(l, tn) {
						fmt.Printf("      %s\n", l)
					}
				}
			}
		}
		tr := live[s]
		switch event {
		case "operation":
			sweepCalls("before an operation")
			if tr == nil {
				tr = &stmtTrack{start: dumps(), startTasks: taskStates(curSsn), cps: map[int][3]string{}}
				live[s] = tr
				facts.Statements++
			}
			tr.ops++
			for o, t := range live {
				if o == s {
					continue
				}
				if t.ops == 0 || len(framework.VerifOperations(o)) == 0 {
					// a statement that never operated or was rolled back to its beginning: its Discard / Commit
					// return silently, it holds nothing any more
					delete(live, o)
					continue
				}
				if !t.foreign {
					t.foreign = true
					facts.Foreign++
					add(curCycle, "c13-abandoned-statement-still-holds-operations", "statement with operations %v was neither committed nor discarded when another statement started to operate: its scenario stays in the session", framework.VerifOperations(o))
					if trace {
						fmt.Printf("FOREIGN c%d: statement %p (ops %v) still live while %p operates\n", curCycle, o, framework.VerifOperations(o), s)
					}
				}
			}
		case "checkpoint":
			if tr == nil {
				// a checkpoint before any operation: the statement starts here
				tr = &stmtTrack{start: dumps(), startTasks: taskStates(curSsn), cps: map[int][3]string{}}
				live[s] = tr
				facts.Statements++
			}
			tr.cps[arg] = dumps()
		case "rollback":
			facts.Rollbacks++
			sweepCalls("after a rollback")
			if tr == nil || tr.foreign {
				return
			}
			ref, ok := tr.cps[arg]
			if !ok {
				return
			}
			facts.RollbacksCompared++
			compareDumps(add, curCycle, "rollback to a checkpoint", ref, dumps())
			for k := range tr.cps {
				if k > arg {
					delete(tr.cps, k)
				}
			}
		case "discard-begin":
			inUndo++
			sweepCalls("before a discard")
			for _, op := range framework.VerifOperations(s) {
				if !op.Valid {
					facts.OpsUndone++
				}
			}
		case "discard-end":
			inUndo--
			facts.Discards++
			sweepCalls("during a discard")
			delete(live, s)
			if tr == nil || tr.foreign {
				return
			}
			facts.DiscardsCompared++
			compareDumps(add, curCycle, "discard", tr.start, dumps())
		case "commit-begin":
			sweepCalls("before a commit")
			inCommit++
			if tr != nil {
				tr.commitFrom = callsSeen
				tr.commitTasks = taskStates(curSsn)
			}
		case "commit-end":
			inCommit--
			facts.Commits++
			cs := calls()
			from := callsSeen
			if tr != nil {
				from = tr.commitFrom
			}
			window := cs[from:]
			callsSeen = len(cs)
			delete(live, s)
			// at most once, per commit and per cycle
			per := map[string]int{}
			bindFailed := false
			evictFailed := map[string]bool{}
			for _, c := range window {
				per[c.Kind+" "+c.Pod]++
				if c.Kind == "evict" && c.Err != "" {
					evictFailed[c.Pod] = true
				}
				if c.Kind == "bind" && c.Err != "" {
					bindFailed = true
				}
				if c.Kind == "evict" && c.Err == "" {
					evictedThisCycle[c.Pod]++
					if evictedThisCycle[c.Pod] > 1 {
						// a later statement may evict a pod again that an earlier one evicted and re-nominated: the
						// statement of C13 speaks of one Commit, so this is only counted
						reEvictions++
					}
				}
				if c.Kind == "bind" && c.Err == "" {
					boundThisCycle[c.Pod]++
					if boundThisCycle[c.Pod] > 1 {
						add(curCycle, "c13-bound-twice-in-cycle", "pod %s is bound a second time in the same cycle (commit window %v)", c.Pod, window)
					}
				}
			}
			for k, n := range per {
				if n > 1 {
					add(curCycle, "c13-emitted-twice", "one Commit emitted %q %d times: %v", k, n, window)
				}
			}
			if tr == nil || tr.foreign || tr.commitTasks == nil {
				return
			}
			facts.CommitsJudged++
			evictAndPlace := false
			for name, now := range tr.commitTasks {
				was, ok := tr.startTasks[name]
				if !ok {
					continue
				}
				wantEvict, wantBind, wantPipe := -1, -1, -1 // -1 = not asserted
				same := was == now
				switch {
				case same:
					wantEvict, wantBind, wantPipe = 0, 0, 0
				case now.Status == pod_status.Releasing && was.Status != pod_status.Releasing && was.Status != pod_status.Pipelined && was.Status != pod_status.Pending:
					wantEvict, wantBind, wantPipe = 1, 0, 0
				case now.Status == pod_status.Allocated && was.Status == pod_status.Pending:
					wantEvict, wantBind, wantPipe = 0, 1, 0
				case now.Status == pod_status.Pipelined && was.Status == pod_status.Pending:
					wantEvict, wantBind, wantPipe = 0, 0, 1
				case now.Status == pod_status.Pipelined && isOccupying(was.Status):
					wantEvict, wantBind, wantPipe = 1, 0, 1
					evictAndPlace = true
				}
				if bindFailed && !same {
					// Commit stops at a failed bind: what follows it is not emitted
					continue
				}
				if evictFailed[name] {
					// the pod could not be evicted: it stays where it is, its re-placement is dropped
					wantBind, wantPipe = 0, 0
				}
				for _, chk := range []struct {
					kind string
					want int
				}{{"evict", wantEvict}, {"bind", wantBind}, {"pipeline", wantPipe}} {
					if chk.want < 0 {
						continue
					}
					if got := per[chk.kind+" "+name]; got != chk.want {
						add(curCycle, "c13-commit-not-net-effect", "pod %s went from %v@%s[%s] to %v@%s[%s] in this statement: expected %d %s call(s), Commit emitted %d; window %v; operations %v",
							name, was.Status, was.Node, was.Groups, now.Status, now.Node, now.Groups, chk.want, chk.kind, got, window, framework.VerifOperations(s))
					}
				}
			}
			if evictAndPlace {
				facts.CommitsWithEvictAndPlace++
			}
		}
	}
	opt := &Options{Hooks: Hooks{
		AfterOpen: func(ssn *framework.Session, cycle int) {
			mu.Lock()
			curSsn, curCycle = ssn, cycle
			live = map[*framework.Statement]*stmtTrack{}
			inCommit, inUndo, callsSeen = 0, 0, 0
			evictedThisCycle = map[string]int{}
			boundThisCycle = map[string]int{}
			mu.Unlock()
		},
		BeforeClose: func(ssn *framework.Session, cycle int) {
			mu.Lock()
			curSsn = nil
			mu.Unlock()
		},
		Statement: func(event string, s *framework.Statement, arg int) {
			mu.Lock()
			on := curSsn != nil
			mu.Unlock()
			if on {
				hook(event, s, arg)
			}
		},
	}}
	h := Run(w, opt)
	v := &Verdict{History: h, Findings: append(EngineFindings(h), findings...)}
	if facts.DiscardsCompared > 0 {
		v.Classes = append(v.Classes, "discard-compared")
	}
	if facts.RollbacksCompared > 0 {
		v.Classes = append(v.Classes, "rollback-compared")
	}
	if facts.CommitsJudged > 0 {
		v.Classes = append(v.Classes, "commit-judged")
	}
	if facts.CommitsWithEvictAndPlace > 0 {
		v.Classes = append(v.Classes, "commit-with-evicted-and-replaced-pod")
	}
	if facts.OpsUndone > 0 {
		v.Classes = append(v.Classes, "discard-with-already-undone-operations")
	}
	if reEvictions > 0 {
		v.Classes = append(v.Classes, "pod-evicted-again-by-a-later-statement")
	}
	if facts.Foreign > 0 {
		v.Classes = append(v.Classes, "interleaved-statements-skipped")
	}
	if w.HasDRA() {
		v.Classes = append(v.Classes, "world-with-dra")
		for _, rec := range h.Cycles {
			for _, c := range rec.Calls {
				if len(c.Claims) > 0 {
					v.Classes = append(v.Classes, "call-for-pod-with-claim:"+c.Kind)
				}
			}
		}
	}
	v.Classes = append(v.Classes, "statements:"+bucket(facts.Statements))
	v.Nontrivial = facts.DiscardsCompared+facts.RollbacksCompared > 0 && facts.CommitsJudged > 0
	return v
}

func compareDumps(add func(int, string, string, ...any), cycle int, what string, ref, now [3]string) {
	if ref[0] == now[0] {
		return
	}
	if ref[1] == now[1] {
		add(cycle, "c13-pending-task-keeps-gpu-groups", "after %s a pending task still carries the GPU groups of the undone placement: %s", what, FirstDiff(ref[0], now[0]))
		return
	}
	if ref[2] == now[2] {
		add(cycle, "c13-restore-differs-whole-gpu-counters", "after %s only the whole-GPU idle/releasing counters (and 'shared GPU releasing' markers) differ from the reference state: %s", what, FirstDiff(ref[1], now[1]))
		return
	}
	// listed known finding: the only difference is the GPU-group list written on the task object of a victim that
	// is shown as releasing on the node it was moved to (IsVirtualStatus) - the node's own pod table entry is right
	if maskVirtualGroups(ref[2]) == maskVirtualGroups(now[2]) {
		add(cycle, "c13-restore-differs-gpu-groups-on-task-of-moved-victim", "after %s only the GPU groups written on the task object of a moved victim (virtual status) differ: %s", what, FirstDiff(ref[2], now[2]))
		return
	}
	add(cycle, "c13-restore-differs", "after %s the session is not as it was: %s", what, FirstDiff(ref[2], now[2]))
}

var virtualGroupsRe = regexp.MustCompile(`(:Releasing@[^\s\[]*)\[[^\]]*\]( virtual=true)`)

func maskVirtualGroups(dump string) string {
	return virtualGroupsRe.ReplaceAllString(dump, "$1[*]$2")
}
