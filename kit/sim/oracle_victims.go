package sim

import (
	"fmt"
	"time"
)

// parseDur parses the plugin's duration arguments ("1h", "0s"); 0 on error, like the plugin.
func parseDur(s string) time.Duration {
	d, err := time.ParseDuration(s)
	if err != nil || d < 0 {
		return 0
	}
	return d
}

// pathFromRoot returns root ... leaf.
func pathFromRoot(tree map[string]*QNode, leaf string) []*QNode {
	ch := Chain(tree, leaf)
	out := make([]*QNode, len(ch))
	for i, q := range ch {
		out[len(ch)-1-i] = q
	}
	return out
}

// MinRuntime resolves the documented (docs/plugins/minruntime.md) minimum runtime protecting a victim of queue
// victimQ against action ("preempt" | "reclaim") by a workload of queue preemptorQ.
func (w *World) MinRuntime(tree map[string]*QNode, action, preemptorQ, victimQ string) time.Duration {
	args := w.Config.MinRuntimeArgs
	val := func(q *QNode) *int {
		if q == nil || q.Spec == nil {
			return nil
		}
		if action == "preempt" {
			return q.Spec.PreemptMinRuntime
		}
		return q.Spec.ReclaimMinRuntime
	}
	def := parseDur(args["defaultReclaimMinRuntime"])
	if action == "preempt" {
		def = parseDur(args["defaultPreemptMinRuntime"])
	}
	walkUp := func(path []*QNode, from int) time.Duration {
		for i := from; i >= 0; i-- {
			if v := val(path[i]); v != nil {
				return time.Duration(*v) * time.Second
			}
		}
		return def
	}
	vp := pathFromRoot(tree, victimQ)
	if len(vp) == 0 {
		return def
	}
	method := args["reclaimResolveMethod"]
	if action == "preempt" || method == "queue" {
		return walkUp(vp, len(vp)-1)
	}
	// LCA: one step down from the lowest common ancestor towards the victim, then up
	pp := pathFromRoot(tree, preemptorQ)
	common := -1 // index of the LCA in both paths; -1 = virtual root above different top-level queues
	for i := 0; i < len(vp) && i < len(pp) && vp[i].Name == pp[i].Name; i++ {
		common = i
	}
	idx := common + 1
	if idx >= len(vp) {
		idx = len(vp) - 1
	}
	return walkUp(vp, idx)
}

type VictimFacts struct {
	Evicts, Reclaim, Preempt, Consolidation, StaleGang                 int
	IneligiblePresent, ProtectedPresent, ProtectedElasticShrunk, Moved int
	KeptByNomination                                                   int
}

type decision struct {
	preemptor string
	action    string
	from, to  int
}

// Decisions splits a cycle's calls into committed eviction decisions. Every call carries the number of the
// Statement.Commit that emitted it (stamped by the engine through the statement hook), so a decision is exactly the
// calls of one commit that contains an Evict naming a preemptor: the victims, the (re-)placements of the victims'
// workloads and the placements of the preemptor. Placements made by a later commit - e.g. the preempt action
// nominating one more pod of the same workload onto capacity that is already releasing - are not part of it.
// Calls without a commit number (records of older replay traces are re-executed, so this is only a fallback)
// are grouped by the old heuristic: a run of Evicts naming one preemptor followed by placements of the involved
// workloads.
func Decisions(calls []Call, workloadOf func(pod string) string) []decision {
	var out []decision
	i := 0
	for i < len(calls) {
		if calls[i].Kind != "evict" || calls[i].Preemptor == "" {
			i++
			continue
		}
		d := decision{preemptor: calls[i].Preemptor, action: calls[i].Action, from: i}
		commit := calls[i].Commit
		if commit != 0 {
			// back up to the first call of this commit (a commit may place before it evicts) and run to its last
			for d.from > 0 && calls[d.from-1].Commit == commit {
				d.from--
			}
			j := i
			for j < len(calls) && calls[j].Commit == commit {
				j++
			}
			d.to = j
			out = append(out, d)
			i = j
			continue
		}
		victimWorkloads := map[string]bool{}
		j := i
		for j < len(calls) && calls[j].Kind == "evict" && calls[j].Preemptor == d.preemptor && calls[j].Action == d.action {
			victimWorkloads[workloadOf(calls[j].Pod)] = true
			j++
		}
		for j < len(calls) && calls[j].Kind != "evict" && (victimWorkloads[workloadOf(calls[j].Pod)] || workloadOf(calls[j].Pod) == d.preemptor) {
			j++
		}
		d.to = j
		out = append(out, d)
		i = j
	}
	return out
}

// CheckVictims is the C06 oracle on one cycle.
func CheckVictims(w *World, rec *CycleRecord) ([]Finding, VictimFacts) {
	w = rec.Effective(w)
	var out []Finding
	var facts VictimFacts
	tree := w.QueueTree()
	wls := w.Workloads()
	mins := w.PodSetMins()
	now := rec.Before.Taken
	fd := FoldCalls(rec.Before, rec.Calls)

	// active pods per pod set at cycle start; evictions are accumulated decision by decision
	evictedPerSet := map[setKey]int{}
	activePerSet := map[setKey]int{}
	for _, pv := range rec.Before.Pods {
		if pv.Active() && pv.Workload != "" {
			activePerSet[setKey{pv.Workload, pv.SubGroup}]++
		}
	}
	_ = fd
	// presence of ineligible candidates (for the non-triviality rule)
	for _, pv := range rec.Before.Pods {
		if wl := wls[pv.Workload]; wl != nil && pv.Active() {
			if !wl.Preemptible {
				facts.IneligiblePresent++
			}
		}
	}

	workloadOf := func(pod string) string {
		if pv := rec.Before.ByName[pod]; pv != nil {
			return pv.Workload
		}
		return ""
	}
	for _, d := range Decisions(rec.Calls, workloadOf) {
		pre := wls[d.preemptor]
		placedPreemptor := false
		moved := map[string]string{} // pod -> node it was nominated to inside this decision
		movedGroups := map[string][]string{}
		for k := d.from; k < d.to; k++ {
			c := rec.Calls[k]
			if (c.Kind == "bind" || c.Kind == "pipeline") && c.Err == "" {
				if pv := rec.Before.ByName[c.Pod]; pv != nil && pv.Workload == d.preemptor {
					placedPreemptor = true
				}
				moved[c.Pod] = c.Node
				movedGroups[c.Pod] = c.Groups
			}
		}
		// net effect of this decision on every pod set: evicted active pods that are not re-placed leave,
		// pods of the set that are placed by the decision (moved victims, nominated siblings) count as members
		placedPerSet := map[setKey]int{}
		// ... and so do pods of the set that earlier decisions of the same cycle bound or nominated and that were not
		// active when the cycle began (the scheduler counts them as members when it shrinks an elastic workload)
		for _, f := range FoldCalls(rec.Before, rec.Calls[:d.from]).Fates {
			if f.Start != StActive && (f.State == StBound || f.State == StNominated) {
				if pv := rec.Before.ByName[f.Pod]; pv != nil {
					placedPerSet[setKey{pv.Workload, pv.SubGroup}]++
				}
			}
		}
		evictedHere := map[string]bool{}
		for k := d.from; k < d.to; k++ {
			c := rec.Calls[k]
			if c.Err != "" {
				continue
			}
			pv := rec.Before.ByName[c.Pod]
			if pv == nil {
				continue
			}
			sk := setKey{pv.Workload, pv.SubGroup}
			if c.Kind == "evict" && !evictedHere[c.Pod] {
				evictedHere[c.Pod] = true
				if pv.Active() {
					evictedPerSet[sk]++
				}
			} else if c.Kind != "evict" {
				placedPerSet[sk]++
			}
		}
		seen := map[string]bool{}
		for k := d.from; k < d.to; k++ {
			c := rec.Calls[k]
			if c.Kind != "evict" {
				break
			}
			if c.Err != "" {
				continue
			}
			facts.Evicts++
			if seen[c.Pod] {
				continue
			}
			seen[c.Pod] = true
			pv := rec.Before.ByName[c.Pod]
			if pv == nil {
				continue
			}
			vic := wls[pv.Workload]
			if vic == nil {
				continue
			}
			switch c.Action {
			case "reclaim":
				facts.Reclaim++
			case "preempt":
				facts.Preempt++
			case "consolidation":
				facts.Consolidation++
			default:
				facts.StaleGang++
				continue
			}
			desc := fmt.Sprintf("call %d (%s): victim workload %s (queue %s, priority %d, preemptible %v)", k, c, pv.Workload, vic.Queue, vic.Priority, vic.Preemptible)
			if !vic.Preemptible {
				out = append(out, Finding{"c06-non-preemptible-victim", desc + " is non-preemptible", rec.Index})
			}
			if pre != nil {
				if c.Action == "preempt" && (vic.Queue != pre.Queue || vic.Priority >= pre.Priority) {
					out = append(out, Finding{"c06-preempt-wrong-victim", fmt.Sprintf("%s is not a strictly lower-priority workload of the preemptor's queue (preemptor %s: queue %s, priority %d)", desc, d.preemptor, pre.Queue, pre.Priority), rec.Index})
				}
				if c.Action == "reclaim" && vic.Queue == pre.Queue {
					out = append(out, Finding{"c06-reclaim-same-queue", fmt.Sprintf("%s belongs to the reclaimer's own queue (reclaimer %s)", desc, d.preemptor), rec.Index})
				}
			}
			if !placedPreemptor {
				out = append(out, Finding{"c06-eviction-without-placement", fmt.Sprintf("%s was evicted for %s, which receives no bind or nomination in the same decision (calls %d..%d)", desc, d.preemptor, d.from, d.to), rec.Index})
			}
			if c.Action == "consolidation" {
				to, ok := moved[c.Pod]
				if !ok {
					out = append(out, Finding{"c06-consolidation-victim-not-replaced", desc + " was evicted by consolidation but not re-placed in the same decision", rec.Index})
				} else {
					facts.Moved++
					// "another node": for a pod on a shared GPU, another device of the same node is a real
					// move as well (the pod must be restarted to change devices); only a no-op move is flagged.
					if to == pv.Node && (!pv.Req.Sharing() || sameStrings(movedGroups[c.Pod], pv.Groups)) {
						out = append(out, Finding{"c06-consolidation-same-node", fmt.Sprintf("%s was 'moved' to the node it already runs on (%s)", desc, to), rec.Index})
					}
				}
			}
			// minimum runtime (reclaim and preempt only: there is no consolidation min-runtime setting)
			if (c.Action == "reclaim" || c.Action == "preempt") && pre != nil {
				if ls, ok := rec.Before.LastStart[pv.Workload]; ok {
					mr := w.MinRuntime(tree, c.Action, pre.Queue, vic.Queue)
					if mr > 0 && now.Before(ls.Add(mr)) {
						facts.ProtectedPresent++
						// elastic workloads may shrink down to their minimum
						ok := true
						for sk, min := range mins {
							if sk.Workload == pv.Workload && evictedPerSet[sk] > 0 && activePerSet[sk]-evictedPerSet[sk]+placedPerSet[sk] < min {
								ok = false
							}
							if sk.Workload == pv.Workload && evictedPerSet[sk] > 0 && activePerSet[sk]-evictedPerSet[sk] < min {
								facts.KeptByNomination++
							}
						}
						if ok {
							facts.ProtectedElasticShrunk++
						} else {
							out = append(out, Finding{"c06-evicted-inside-min-runtime", fmt.Sprintf(
								"%s started %v ago and is protected for %v (%s min-runtime, resolve method %q), yet it is cut below its minimum size",
								desc, now.Sub(ls).Round(time.Minute), mr, c.Action, w.Config.MinRuntimeArgs["reclaimResolveMethod"]), rec.Index})
						}
					}
				}
			}
		}
	}
	return dedupe(out), facts
}

func JudgeVictims(w *World) *Verdict {
	h := Run(w, nil)
	v := &Verdict{History: h, Findings: EngineFindings(h)}
	var tot VictimFacts
	for _, rec := range h.Cycles {
		if rec.Panic != "" || rec.Hung || rec.Starved {
			continue
		}
		fs, f := CheckVictims(w, rec)
		v.Findings = append(v.Findings, fs...)
		tot.Evicts += f.Evicts
		tot.Reclaim += f.Reclaim
		tot.Preempt += f.Preempt
		tot.Consolidation += f.Consolidation
		tot.StaleGang += f.StaleGang
		tot.ProtectedPresent += f.ProtectedPresent
		tot.ProtectedElasticShrunk += f.ProtectedElasticShrunk
		tot.Moved += f.Moved
		tot.KeptByNomination += f.KeptByNomination
		if f.Evicts > 0 {
			tot.IneligiblePresent += f.IneligiblePresent
		}
	}
	add := func(b bool, s string) {
		if b {
			v.Classes = append(v.Classes, s)
		}
	}
	add(tot.Evicts > 0, "has-eviction")
	add(tot.Reclaim > 0, "reclaim-eviction")
	add(tot.Preempt > 0, "preempt-eviction")
	add(tot.Consolidation > 0, "consolidation-eviction")
	add(tot.StaleGang > 0, "stale-gang-eviction")
	add(tot.ProtectedElasticShrunk > 0, "protected-elastic-workload-shrunk-to-minimum")
	add(tot.IneligiblePresent > 0, "eviction-with-non-preemptible-candidates-present")
	add(tot.KeptByNomination > 0, "observed:protected-workload-at-minimum-only-by-nominated-pods")
	v.Nontrivial = tot.Reclaim+tot.Preempt+tot.Consolidation > 0 && tot.IneligiblePresent > 0
	return v
}

func sameStrings(a, b []string) bool {
	if len(a) != len(b) {
		return false
	}
	m := map[string]int{}
	for _, x := range a {
		m[x]++
	}
	for _, x := range b {
		m[x]--
	}
	for _, v := range m {
		if v != 0 {
			return false
		}
	}
	return true
}
