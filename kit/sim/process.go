package sim

// A scheduler process that lives through all cycles of a history (World.PersistentScheduler), and API changes made
// by users / administrators between cycles (CycleScript.Mutations).
//
// The default engine builds a new cache (and new fake API endpoints) for every cycle, i.e. it models a scheduler
// that is restarted before each cycle. The real scheduler is a long-running process: its cache object, the informers,
// the status updater with its in-flight updates and everything such objects memoise survive from one cycle to the
// next. In persistent mode one cache is created for the whole history; before each further cycle the harness waits
// until the informers of that cache have caught up with the API store (compared object by object), so that what a
// cycle sees is exactly the store content - stale informers are not part of any property here.

import (
	"context"
	"encoding/json"
	"fmt"
	"os"
	"strconv"
	"strings"
	"time"

	v1 "k8s.io/api/core/v1"
	schedulingv1 "k8s.io/api/scheduling/v1"
	"k8s.io/apimachinery/pkg/api/equality"
	"k8s.io/apimachinery/pkg/api/resource"
	metav1 "k8s.io/apimachinery/pkg/apis/meta/v1"
	"k8s.io/apimachinery/pkg/runtime/schema"

	"github.com/NVIDIA/KAI-scheduler/pkg/scheduler/cache"
)

// Mutation is one change of an API object between two cycles.
type Mutation struct {
	Kind   string `json:"kind"`   // pc-set | pg-priorityclass | queue-gpu | node-label | node-unschedulable
	Target string `json:"target"` // object name
	Field  string `json:"field,omitempty"`
	Value  string `json:"value,omitempty"`
}

func (m Mutation) String() string {
	return fmt.Sprintf("%s %s %s=%s", m.Kind, m.Target, m.Field, m.Value)
}

type schedProc struct {
	cache cache.Cache
	stop  chan struct{}
}

// Close stops the persistent scheduler process of the store, if any.
func (s *Store) Close() {
	if s.proc != nil {
		close(s.proc.stop)
		s.proc = nil
	}
}

// Effective returns the world model as it is at the start of this cycle (mutations of earlier cycles applied).
func (rec *CycleRecord) Effective(w *World) *World {
	if rec != nil && rec.Model != nil {
		return rec.Model
	}
	return w
}

// HasMutations tells whether any cycle of the world changes API objects.
func (w *World) HasMutations() bool {
	for i := range w.Cycles {
		if len(w.Cycles[i].Mutations) > 0 {
			return true
		}
	}
	return false
}

// At returns a deep copy of the world with the mutations of the cycles before `cycle` applied.
func (w *World) At(cycle int) *World {
	b, _ := json.Marshal(w)
	var c World
	_ = json.Unmarshal(b, &c)
	for i := 0; i < cycle && i < len(c.Cycles); i++ {
		for _, m := range c.Cycles[i].Mutations {
			applyMutationToModel(&c, m)
		}
	}
	return &c
}

func applyMutationToModel(w *World, m Mutation) {
	switch m.Kind {
	case "pc-set":
		if w.PriorityClasses == nil {
			w.PriorityClasses = DefaultPriorityClasses()
		}
		v, _ := strconv.Atoi(m.Value)
		for i := range w.PriorityClasses {
			if w.PriorityClasses[i].Name == m.Target {
				w.PriorityClasses[i].Value = v
				return
			}
		}
		w.PriorityClasses = append(w.PriorityClasses, PriorityClass{Name: m.Target, Value: v})
	case "pg-priorityclass":
		for i := range w.Groups {
			if w.Groups[i].Name == m.Target {
				w.Groups[i].PriorityClass = m.Value
			}
		}
	case "queue-gpu":
		f, _ := strconv.ParseFloat(m.Value, 64)
		for i := range w.Queues {
			if w.Queues[i].Name != m.Target {
				continue
			}
			switch m.Field {
			case "quota":
				w.Queues[i].GPU.Quota = f
			case "limit":
				w.Queues[i].GPU.Limit = f
			case "weight":
				w.Queues[i].GPU.Weight = f
			}
		}
	case "node-label":
		for i := range w.Nodes {
			if w.Nodes[i].Name != m.Target {
				continue
			}
			if w.Nodes[i].Labels == nil {
				w.Nodes[i].Labels = map[string]string{}
			}
			if m.Value == "" {
				delete(w.Nodes[i].Labels, m.Field)
			} else {
				w.Nodes[i].Labels[m.Field] = m.Value
			}
		}
	case "node-unschedulable":
		for i := range w.Nodes {
			if w.Nodes[i].Name == m.Target {
				w.Nodes[i].Unschedulable = m.Value == "true"
			}
		}
	case "node-cpu", "node-gpus":
		v, _ := strconv.Atoi(m.Value)
		for i := range w.Nodes {
			if w.Nodes[i].Name != m.Target {
				continue
			}
			if m.Kind == "node-cpu" {
				w.Nodes[i].CPU = v
			} else {
				w.Nodes[i].GPUs = v
			}
		}
	case "pod-finish":
		for gi := range w.Groups {
			for pi := range w.Groups[gi].Pods {
				if p := &w.Groups[gi].Pods[pi]; p.Name == m.Target && p.State == Running {
					p.State = Succeeded
				}
			}
		}
	case "pg-queue":
		for i := range w.Groups {
			if w.Groups[i].Name == m.Target {
				w.Groups[i].Queue = m.Value
			}
		}
	case "pod-replace":
		v, _ := strconv.Atoi(m.Value)
		for gi := range w.Groups {
			for pi := range w.Groups[gi].Pods {
				if p := &w.Groups[gi].Pods[pi]; p.Name == m.Target {
					p.CPU, p.State, p.Node, p.Groups = v, Pending, "", nil
					p.Incarnation++
					for ci := range p.Claims {
						p.Claims[ci].Devices = nil
					}
				}
			}
		}
	case "pg-minmember":
		v, _ := strconv.Atoi(m.Value)
		for i := range w.Groups {
			if w.Groups[i].Name == m.Target {
				w.Groups[i].MinMember = v
			}
		}
	}
}

var (
	nodeGVR  = schema.GroupVersionResource{Version: "v1", Resource: "nodes"}
	queueGVR = schema.GroupVersionResource{Group: "scheduling.run.ai", Version: "v2", Resource: "queues"}
	pcGVR    = schema.GroupVersionResource{Group: "scheduling.k8s.io", Version: "v1", Resource: "priorityclasses"}
)

// ApplyMutations performs the API changes of a cycle script on the store.
func ApplyMutations(s *Store, sc *CycleScript, after *World) {
	ctx := context.Background()
	for _, m := range sc.Mutations {
		switch m.Kind {
		case "pc-set":
			v, _ := strconv.Atoi(m.Value)
			cur, err := s.Kube.SchedulingV1().PriorityClasses().Get(ctx, m.Target, metav1.GetOptions{})
			if err != nil {
				_ = s.Kube.Tracker().Add(&schedulingv1.PriorityClass{ObjectMeta: metav1.ObjectMeta{Name: m.Target}, Value: int32(v)})
				continue
			}
			// the value of a priority class is immutable in the API: users delete the class and create it again
			_ = s.Kube.Tracker().Delete(pcGVR, "", m.Target)
			nc := cur.DeepCopy()
			nc.Value = int32(v)
			_ = s.Kube.Tracker().Add(nc)
		case "pg-priorityclass":
			cur, err := s.Kai.SchedulingV2alpha2().PodGroups(Namespace).Get(ctx, m.Target, metav1.GetOptions{})
			if err != nil {
				continue
			}
			n := cur.DeepCopy()
			n.Spec.PriorityClassName = m.Value
			_ = s.Kai.Tracker().Update(podGroupGVR, n, Namespace)
		case "queue-gpu":
			cur, err := s.Kai.SchedulingV2().Queues("").Get(ctx, m.Target, metav1.GetOptions{})
			if err != nil || cur.Spec.Resources == nil {
				continue
			}
			f, _ := strconv.ParseFloat(m.Value, 64)
			n := cur.DeepCopy()
			switch m.Field {
			case "quota":
				n.Spec.Resources.GPU.Quota = f
			case "limit":
				n.Spec.Resources.GPU.Limit = f
			case "weight":
				n.Spec.Resources.GPU.OverQuotaWeight = f
			}
			_ = s.Kai.Tracker().Update(queueGVR, n, "")
		case "pod-replace":
			// the workload controller deletes the pod object and creates it again under the same name (new UID) with
			// another template; pods with DRA claims are left alone (their claims are owned by the old object)
			if after == nil {
				continue
			}
			for gi := range after.Groups {
				g := &after.Groups[gi]
				for pi := range g.Pods {
					p := &g.Pods[pi]
					if p.Name != m.Target || len(p.Claims) > 0 {
						continue
					}
					_ = s.Kube.Tracker().Delete(podGVR, Namespace, p.Name)
					_ = s.Kai.SchedulingV1alpha2().BindRequests(Namespace).Delete(ctx, p.Name, metav1.DeleteOptions{})
					delete(s.linger, p.Name)
					_ = s.Kube.Tracker().Add(BuildPod(g, p, s.Now))
				}
			}
		case "pod-finish":
			// the containers of a running pod exit successfully (only pods the scheduler has not touched meanwhile)
			cur, err := s.Kube.CoreV1().Pods(Namespace).Get(ctx, m.Target, metav1.GetOptions{})
			if err != nil || cur.Status.Phase != v1.PodRunning || cur.DeletionTimestamp != nil {
				continue
			}
			n := cur.DeepCopy()
			n.Status.Phase = v1.PodSucceeded
			_ = s.Kube.Tracker().Update(podGVR, n, Namespace)
		case "pg-queue", "pg-minmember":
			cur, err := s.Kai.SchedulingV2alpha2().PodGroups(Namespace).Get(ctx, m.Target, metav1.GetOptions{})
			if err != nil {
				continue
			}
			n := cur.DeepCopy()
			if m.Kind == "pg-minmember" {
				v, _ := strconv.Atoi(m.Value)
				n.Spec.MinMember = int32(v)
			} else {
				n.Spec.Queue = m.Value
			}
			_ = s.Kai.Tracker().Update(podGroupGVR, n, Namespace)
		case "node-label", "node-unschedulable", "node-cpu", "node-gpus":
			cur, err := s.Kube.CoreV1().Nodes().Get(ctx, m.Target, metav1.GetOptions{})
			if err != nil {
				continue
			}
			n := cur.DeepCopy()
			if m.Kind == "node-cpu" {
				v, _ := strconv.Atoi(m.Value)
				q := *resource.NewMilliQuantity(int64(v), resource.DecimalSI)
				n.Status.Allocatable[v1.ResourceCPU], n.Status.Capacity[v1.ResourceCPU] = q, q
			} else if m.Kind == "node-gpus" {
				v, _ := strconv.Atoi(m.Value)
				if _, has := n.Status.Allocatable[GPUResource]; has {
					n.Status.Allocatable[GPUResource], n.Status.Capacity[GPUResource] = qty(int64(v)), qty(int64(v))
					n.Labels["nvidia.com/gpu.count"] = m.Value
				}
			} else if m.Kind == "node-unschedulable" {
				n.Spec.Unschedulable = m.Value == "true"
			} else {
				if n.Labels == nil {
					n.Labels = map[string]string{}
				}
				if m.Value == "" {
					delete(n.Labels, m.Field)
				} else {
					n.Labels[m.Field] = m.Value
				}
			}
			_ = s.Kube.Tracker().Update(nodeGVR, n, "")
		}
	}
}

// waitCaughtUp blocks until the informers behind the cache show exactly the content of the store for every kind the
// scheduler reads, or gives up after a generous bound (the cycle is then dropped as inconclusive by the caller).
func waitCaughtUp(c cache.Cache, s *Store, pool string) (bool, string) {
	inPool := func(l map[string]string) bool { return pool == "" || l[PoolLabelKey] == pool }
	dl := c.GetDataLister()
	if dl == nil {
		return false, "no data lister"
	}
	metaEq := func(a, b *metav1.ObjectMeta) bool {
		return equality.Semantic.DeepEqual(a.Labels, b.Labels) && equality.Semantic.DeepEqual(a.Annotations, b.Annotations) &&
			(a.DeletionTimestamp == nil) == (b.DeletionTimestamp == nil) && a.UID == b.UID
	}
	check := func() string {
		ctx := context.Background()
		// pods
		pods, err := dl.ListPods()
		if err != nil {
			return "pods: " + err.Error()
		}
		have := map[string]*v1.Pod{}
		for _, p := range pods {
			have[p.Namespace+"/"+p.Name] = p
		}
		want := s.Pods()
		if len(have) != len(want) {
			return fmt.Sprintf("pods: %d vs %d", len(have), len(want))
		}
		for _, p := range want {
			h := have[p.Namespace+"/"+p.Name]
			if h == nil || !metaEq(&h.ObjectMeta, &p.ObjectMeta) || h.Spec.NodeName != p.Spec.NodeName || h.Status.Phase != p.Status.Phase ||
				!sameConditions(h.Status.Conditions, p.Status.Conditions) {
				d := "missing in lister"
				if h != nil {
					d = fmt.Sprintf("lister: labels=%v ann=%v node=%q phase=%s del=%v cond=%v | store: labels=%v ann=%v node=%q phase=%s del=%v cond=%v",
						h.Labels, h.Annotations, h.Spec.NodeName, h.Status.Phase, h.DeletionTimestamp != nil, h.Status.Conditions,
						p.Labels, p.Annotations, p.Spec.NodeName, p.Status.Phase, p.DeletionTimestamp != nil, p.Status.Conditions)
				}
				return "pod " + p.Name + " " + d
			}
		}
		// nodes
		nodes, err := dl.ListNodes()
		if err != nil {
			return "nodes: " + err.Error()
		}
		hn := map[string]*v1.Node{}
		for _, n := range nodes {
			hn[n.Name] = n
		}
		var wn []*v1.Node
		for _, n := range s.NodesList() {
			if inPool(n.Labels) {
				wn = append(wn, n)
			}
		}
		if len(hn) != len(wn) {
			return fmt.Sprintf("nodes: %d vs %d", len(hn), len(wn))
		}
		for _, n := range wn {
			h := hn[n.Name]
			if h == nil || !metaEq(&h.ObjectMeta, &n.ObjectMeta) || !equality.Semantic.DeepEqual(h.Spec, n.Spec) ||
				!equality.Semantic.DeepEqual(h.Status.Allocatable, n.Status.Allocatable) || !equality.Semantic.DeepEqual(h.Status.Conditions, n.Status.Conditions) {
				return "node " + n.Name
			}
		}
		// queues
		if l, err := s.Kai.SchedulingV2().Queues("").List(ctx, metav1.ListOptions{}); err == nil {
			qs, err := dl.ListQueues()
			if err != nil {
				return "queues: " + err.Error()
			}
			nq := 0
			for i := range l.Items {
				if inPool(l.Items[i].Labels) {
					nq++
				}
			}
			if len(qs) != nq {
				return fmt.Sprintf("queues: %d vs %d", len(qs), nq)
			}
			for i := range l.Items {
				if !inPool(l.Items[i].Labels) {
					continue
				}
				ok := false
				for _, q := range qs {
					if q.Name != l.Items[i].Name {
						continue
					}
					// without full-hierarchy fairness the snapshot rewrites spec.parentQueue of the informer's own
					// object to "default" (cluster_info/queue.go); that is the scheduler's doing, not informer lag
					a, b := q.Spec.DeepCopy(), l.Items[i].Spec.DeepCopy()
					if a.ParentQueue == "default" && b.ParentQueue != "" {
						a.ParentQueue = b.ParentQueue
					}
					if equality.Semantic.DeepEqual(a, b) {
						ok = true
					}
				}
				if !ok {
					d := ""
					for _, q := range qs {
						if q.Name == l.Items[i].Name {
							d = fmt.Sprintf(" lister=%+v store=%+v", q.Spec, l.Items[i].Spec)
						}
					}
					return "queue " + l.Items[i].Name + d
				}
			}
		}
		// pod groups
		if l, err := s.Kai.SchedulingV2alpha2().PodGroups("").List(ctx, metav1.ListOptions{}); err == nil {
			pgs, err := dl.ListPodGroups()
			if err != nil {
				return "podgroups: " + err.Error()
			}
			npg := 0
			for i := range l.Items {
				if inPool(l.Items[i].Labels) {
					npg++
				}
			}
			if len(pgs) != npg {
				return fmt.Sprintf("podgroups: %d vs %d", len(pgs), npg)
			}
			for i := range l.Items {
				if !inPool(l.Items[i].Labels) {
					continue
				}
				ok := false
				for _, pg := range pgs {
					if pg.Name == l.Items[i].Name && metaEq(&pg.ObjectMeta, &l.Items[i].ObjectMeta) && equality.Semantic.DeepEqual(pg.Spec, l.Items[i].Spec) &&
						sameIgnoringTimes(pg.Status, l.Items[i].Status) {
						ok = true
					}
				}
				if !ok {
					d := ""
					for _, pg := range pgs {
						if pg.Name == l.Items[i].Name {
							a, _ := json.Marshal(pg)
							b, _ := json.Marshal(l.Items[i])
							d = fmt.Sprintf(" lister=%s store=%s", a, b)
						}
					}
					return "podgroup " + l.Items[i].Name + d
				}
			}
		}
		// bind requests
		brs, err := dl.ListBindRequests()
		if err != nil {
			return "bindrequests: " + err.Error()
		}
		wbr := s.BindRequests()
		if len(brs) != len(wbr) {
			return fmt.Sprintf("bindrequests: %d vs %d", len(brs), len(wbr))
		}
		for _, w := range wbr {
			ok := false
			for _, b := range brs {
				if b.Name == w.Name && b.Namespace == w.Namespace && equality.Semantic.DeepEqual(b.Spec, w.Spec) && equality.Semantic.DeepEqual(b.Status, w.Status) {
					ok = true
				}
			}
			if !ok {
				return "bindrequest " + w.Name
			}
		}
		// priority classes
		if l, err := s.Kube.SchedulingV1().PriorityClasses().List(ctx, metav1.ListOptions{}); err == nil {
			pcs, err := dl.ListPriorityClasses()
			if err != nil {
				return "priorityclasses: " + err.Error()
			}
			if len(pcs) != len(l.Items) {
				return fmt.Sprintf("priorityclasses: %d vs %d", len(pcs), len(l.Items))
			}
			for i := range l.Items {
				ok := false
				for _, pc := range pcs {
					if pc.Name == l.Items[i].Name && pc.Value == l.Items[i].Value && pc.GlobalDefault == l.Items[i].GlobalDefault {
						ok = true
					}
				}
				if !ok {
					return "priorityclass " + l.Items[i].Name
				}
			}
		}
		// resource claims
		claims, err := dl.ListResourceClaims()
		if err == nil {
			wc := s.Claims()
			if len(claims) != len(wc) {
				return fmt.Sprintf("claims: %d vs %d", len(claims), len(wc))
			}
			for _, w := range wc {
				ok := false
				for _, c := range claims {
					if c.Name == w.Name && c.Namespace == w.Namespace && equality.Semantic.DeepEqual(c.Status, w.Status) {
						ok = true
					}
				}
				if !ok {
					return "claim " + w.Name
				}
			}
		}
		return ""
	}
	deadline := time.Now().Add(30 * time.Second)
	if os.Getenv("VERIF_DEBUG") != "" {
		deadline = time.Now().Add(3 * time.Second)
	}
	last := ""
	for i := 0; ; i++ {
		last = check()
		if last == "" {
			return true, ""
		}
		if time.Now().After(deadline) {
			break
		}
		if i < 50 {
			time.Sleep(time.Millisecond)
		} else {
			time.Sleep(20 * time.Millisecond)
		}
	}
	fmt.Fprintln(os.Stderr, "waitCaughtUp: informers never matched the store:", strings.TrimSpace(last))
	if i := strings.Index(last, " "); i > 0 {
		last = last[:i]
	}
	return false, last
}

// BumpClaimVersions gives every ResourceClaim whose content changed since the last call a new, larger
// metadata.resourceVersion - as a real API server does on every write. The client-go fake never changes
// resourceVersion, and the scheduler's DRA claim tracker (the upstream assume cache) ignores informer updates that do
// not carry a newer version: without this, a long-running scheduler process would never see the binder's or the claim
// controller's writes, which is an artefact of the fake and not a behaviour of the scheduler.
func (s *Store) BumpClaimVersions() {
	if s.claimSeen == nil {
		s.claimSeen = map[string]string{}
	}
	for _, rc := range s.Claims() {
		key := rc.Namespace + "/" + rc.Name
		b, _ := json.Marshal(struct {
			M metav1.ObjectMeta
			S any
			T any
		}{M: metav1.ObjectMeta{Labels: rc.Labels, Annotations: rc.Annotations, DeletionTimestamp: rc.DeletionTimestamp, OwnerReferences: rc.OwnerReferences}, S: rc.Spec, T: rc.Status})
		h := string(b)
		if old, seen := s.claimSeen[key]; seen && old == h {
			continue
		} else if !seen {
			s.claimSeen[key] = h
			continue
		}
		s.claimSeen[key] = h
		s.rvCounter++
		n := rc.DeepCopy()
		n.ResourceVersion = strconv.Itoa(1000 + s.rvCounter)
		_ = s.Kube.Tracker().Update(claimGVR, n, n.Namespace)
	}
}

var claimGVR = schema.GroupVersionResource{Group: "resource.k8s.io", Version: "v1", Resource: "resourceclaims"}

// sameConditions compares pod conditions without their timestamps: the status updater stamps the informer's own pod
// object in place with time.Now() and skips the API patch when type / status / reason / message are unchanged, so the
// lister's copy can carry a newer (and finer grained) transition time than the store for ever.
func sameConditions(a, b []v1.PodCondition) bool {
	if len(a) != len(b) {
		return false
	}
	for i := range a {
		if a[i].Type != b[i].Type || a[i].Status != b[i].Status || a[i].Reason != b[i].Reason || a[i].Message != b[i].Message {
			return false
		}
	}
	return true
}

// sameIgnoringTimes compares two API values by their JSON form with every lastTransitionTime removed (see sameConditions:
// the status updater works on the informer's own objects).
func sameIgnoringTimes(a, b any) bool {
	strip := func(v any) any {
		raw, err := json.Marshal(v)
		if err != nil {
			return nil
		}
		var x any
		if json.Unmarshal(raw, &x) != nil {
			return nil
		}
		var walk func(any)
		walk = func(n any) {
			switch t := n.(type) {
			case map[string]any:
				delete(t, "lastTransitionTime")
				for _, c := range t {
					walk(c)
				}
			case []any:
				for _, c := range t {
					walk(c)
				}
			}
		}
		walk(x)
		return x
	}
	ja, _ := json.Marshal(strip(a))
	jb, _ := json.Marshal(strip(b))
	return string(ja) == string(jb)
}

// waitWatchesEstablished blocks until every informer of a freshly started cache that has listed a resource has also
// registered its watch. client-go's reflector lists first and watches afterwards, and the fake API server has no
// resource versions to resume from: an object written in the gap is never delivered. A real API server does not lose
// it, so for a process that is to live through several cycles the gap must be closed before the first session writes.
func waitWatchesEstablished(s *Store) bool {
	deadline := time.Now().Add(30 * time.Second)
	for {
		listed, watched := map[string]bool{}, map[string]bool{}
		for _, a := range s.Kube.Actions() {
			key := "kube/" + a.GetResource().String()
			if a.GetVerb() == "list" {
				listed[key] = true
			} else if a.GetVerb() == "watch" {
				watched[key] = true
			}
		}
		for _, a := range s.Kai.Actions() {
			key := "kai/" + a.GetResource().String()
			if a.GetVerb() == "list" {
				listed[key] = true
			} else if a.GetVerb() == "watch" {
				watched[key] = true
			}
		}
		missing := 0
		for k := range listed {
			if !watched[k] {
				missing++
			}
		}
		if missing == 0 {
			return true
		}
		if time.Now().After(deadline) {
			return false
		}
		time.Sleep(time.Millisecond)
	}
}
