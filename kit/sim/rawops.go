package sim

// Raw operations on the built API objects (hostile worlds, C10): corruptions that the typed world model cannot
// express. Everything stays well-typed and storable: the API server validates core objects only structurally where
// noted, and custom resources (queues, pod groups, bind requests, topologies) only by their CRD schema when the
// admission webhooks are off or the objects pre-date them.

import (
	"fmt"
	"strconv"
	"time"

	v1 "k8s.io/api/core/v1"
	resourceapi "k8s.io/api/resource/v1"
	metav1 "k8s.io/apimachinery/pkg/apis/meta/v1"
	"k8s.io/apimachinery/pkg/types"
	"pgregory.net/rapid"

	kaiv1alpha1 "github.com/NVIDIA/KAI-scheduler/pkg/apis/kai/v1alpha1"
	schedulingv1alpha2 "github.com/NVIDIA/KAI-scheduler/pkg/apis/scheduling/v1alpha2"
)

type RawOp struct {
	Op     string `json:"op"`
	Target string `json:"target,omitempty"`
	Key    string `json:"key,omitempty"`
	Value  string `json:"value,omitempty"`
}

func (o *Objects) pod(name string) *v1.Pod {
	for _, p := range o.Pods {
		if p.Name == name {
			return p
		}
	}
	return nil
}

func applyRawOps(o *Objects, ops []RawOp) {
	for _, op := range ops {
		switch op.Op {
		case "pod-node": // a pod that claims to run on a node nobody knows
			if p := o.pod(op.Target); p != nil && p.Spec.NodeName != "" {
				p.Spec.NodeName = op.Value
			}
		case "pod-label":
			if p := o.pod(op.Target); p != nil {
				if p.Labels == nil {
					p.Labels = map[string]string{}
				}
				p.Labels[op.Key] = op.Value
			}
		case "pod-ann":
			if p := o.pod(op.Target); p != nil {
				if p.Annotations == nil {
					p.Annotations = map[string]string{}
				}
				p.Annotations[op.Key] = op.Value
			}
		case "pod-priority":
			if p := o.pod(op.Target); p != nil {
				v, _ := strconv.Atoi(op.Value)
				pr := int32(v)
				p.Spec.Priority = &pr
				p.Spec.PriorityClassName = op.Key
			}
		case "pod-missing-claim":
			if p := o.pod(op.Target); p != nil {
				p.Spec.ResourceClaims = append(p.Spec.ResourceClaims, v1.PodResourceClaim{Name: "ghost", ResourceClaimName: ptrTo("no-such-claim")})
			}
		case "pg-ann":
			for _, pg := range o.PodGroups {
				if pg.Name == op.Target {
					if pg.Annotations == nil {
						pg.Annotations = map[string]string{}
					}
					pg.Annotations[op.Key] = op.Value
				}
			}
		case "pg-field":
			for _, pg := range o.PodGroups {
				if pg.Name != op.Target {
					continue
				}
				switch op.Key {
				case "priorityClassName":
					pg.Spec.PriorityClassName = op.Value
				case "markUnschedulable":
					b := op.Value == "true"
					pg.Spec.MarkUnschedulable = &b
				case "schedulingBackoff":
					v, _ := strconv.Atoi(op.Value)
					x := int32(v)
					pg.Spec.SchedulingBackoff = &x
				}
			}
		case "resv-ann": // reservation pod without / with a garbage device index
			for _, p := range o.Pods {
				if p.Namespace == ReservationNS && p.Labels[GPUGroupLabel] == op.Target {
					if op.Value == "" {
						delete(p.Annotations, "run.ai/reserve_for_gpu_index")
					} else {
						p.Annotations["run.ai/reserve_for_gpu_index"] = op.Value
					}
				}
			}
		case "resv-extra": // a reservation pod for a group nobody uses, or a second one for a used group
			rp := BuildReservationPod(op.Target, op.Value, stubNow)
			rp.Name = "gpu-reservation-extra-" + op.Key
			rp.UID = types.UID("uid-resv-extra-" + op.Key)
			o.Pods = append(o.Pods, rp)
		case "topology":
			for _, t := range o.Topologies {
				if t.Name != op.Target {
					continue
				}
				switch op.Value {
				case "no-levels":
					t.Spec.Levels = nil
				case "duplicate-level":
					if len(t.Spec.Levels) > 0 {
						t.Spec.Levels = append(t.Spec.Levels, t.Spec.Levels[0])
					}
				case "blank-level":
					t.Spec.Levels = append(t.Spec.Levels, kaiv1alpha1.TopologyLevel{NodeLabel: ""})
				}
			}
		case "claim-class":
			for _, rc := range o.ResourceClaims {
				if rc.Name == op.Target && len(rc.Spec.Devices.Requests) > 0 && rc.Spec.Devices.Requests[0].Exactly != nil {
					rc.Spec.Devices.Requests[0].Exactly.DeviceClassName = op.Value
				}
			}
		case "claim-ghost-device": // allocated to a device / pool no slice publishes
			for _, rc := range o.ResourceClaims {
				if rc.Name == op.Target {
					rc.Status.Allocation = ClaimAllocation(op.Key, op.Value, []int{97})
					rc.Status.ReservedFor = []resourceapi.ResourceClaimConsumerReference{{Resource: "pods", Name: "no-such-pod", UID: "uid-none"}}
				}
			}
		case "claim-same-device": // two claims hold the same device
			var first *resourceapi.ResourceClaim
			for _, rc := range o.ResourceClaims {
				if rc.Status.Allocation != nil {
					first = rc
					break
				}
			}
			for _, rc := range o.ResourceClaims {
				if first != nil && rc.Name == op.Target && rc != first {
					rc.Status.Allocation = first.Status.Allocation.DeepCopy()
				}
			}
		case "slice":
			for _, sl := range o.ResourceSlices {
				if sl.Name != op.Target {
					continue
				}
				switch op.Value {
				case "no-devices":
					sl.Spec.Devices = nil
				case "unknown-node":
					sl.Spec.NodeName = ptrTo("ghost-node")
				case "duplicate-device":
					if len(sl.Spec.Devices) > 0 {
						sl.Spec.Devices = append(sl.Spec.Devices, sl.Spec.Devices[0])
					}
				}
			}
		case "bindrequest":
			for _, br := range o.BindRequests {
				if br.Name != op.Target {
					continue
				}
				switch op.Key {
				case "groups":
					br.Spec.SelectedGPUGroups = []string{"ghost-group", "ghost-group"}
				case "portion":
					br.Spec.ReceivedGPU = &schedulingv1alpha2.ReceivedGPU{Count: -3, Portion: op.Value}
					br.Spec.ReceivedResourceType = "Fraction"
				case "type":
					br.Spec.ReceivedResourceType = op.Value
				case "claim":
					br.Spec.ResourceClaimAllocations = append(br.Spec.ResourceClaimAllocations, schedulingv1alpha2.ResourceClaimAllocation{Name: "no-such-claim"})
				case "phase":
					br.Status.Phase = op.Value
				}
			}
		case "node-alloc":
			for _, n := range o.Nodes {
				if n.Name != op.Target {
					continue
				}
				switch op.Key {
				case "drop":
					delete(n.Status.Allocatable, v1.ResourceName(op.Value))
				case "nil":
					n.Status.Allocatable = nil
				default:
					v, _ := strconv.ParseInt(op.Value, 10, 64)
					if n.Status.Allocatable == nil {
						n.Status.Allocatable = v1.ResourceList{}
					}
					n.Status.Allocatable[v1.ResourceName(op.Key)] = qty(v)
				}
			}
		case "queue-minruntime":
			for _, q := range o.Queues {
				if q.Name == op.Target {
					v, _ := strconv.ParseInt(op.Value, 10, 64)
					d := metav1.Duration{Duration: time.Duration(v) * time.Second}
					q.Spec.PreemptMinRuntime, q.Spec.ReclaimMinRuntime = &d, &d
				}
			}
		case "queue-priority":
			for _, q := range o.Queues {
				if q.Name == op.Target {
					v, _ := strconv.Atoi(op.Value)
					q.Spec.Priority = &v
				}
			}
		}
	}
}

// HostilizeRaw adds raw corruptions to a world (called by the C10 generator after Hostilize).
func HostilizeRaw(t *rapid.T, w *World) []string {
	var applied []string
	var pods, running, sharers, groups []string
	var claims []string
	for gi := range w.Groups {
		g := &w.Groups[gi]
		groups = append(groups, g.Name)
		for pi := range g.Pods {
			p := &g.Pods[pi]
			pods = append(pods, p.Name)
			if p.State == Running || p.State == Terminating {
				running = append(running, p.Name)
				sharers = append(sharers, p.Groups...)
			}
			for _, c := range p.Claims {
				claims = append(claims, ClaimObjectName(p.Name, c.Name))
			}
		}
	}
	pick := func(l []string, label string) string {
		if len(l) == 0 {
			return ""
		}
		return l[uniform(t, len(l), label)]
	}
	n := between(t, 0, 4, "nRawOps")
	for i := 0; i < n; i++ {
		var op RawOp
		switch uniform(t, 20, "rawOp") {
		case 0:
			op = RawOp{Op: "pod-node", Target: pick(running, "rp0"), Value: "ghost-node"}
		case 1:
			op = RawOp{Op: "pod-label", Target: pick(pods, "rp1"), Key: pickS(t, "rawLabelKey", GPUGroupLabel, GPUGroupLabel+"/ghost", "app", SubGroupLabel, "kai.scheduler/queue"),
				Value: pickS(t, "rawLabelVal", "ghost", "kai-resource-reservation", "", "no-such-subgroup")}
		case 2:
			op = RawOp{Op: "pod-ann", Target: pick(pods, "rp2"), Key: pickS(t, "rawAnnKey", PodGroupAnn, "received-resource-type", "kai.scheduler/gpu-fraction-container-name", "runai-gpu-group"),
				Value: pickS(t, "rawAnnVal", "no-such-podgroup", "Fraction", "GpuMemory", "garbage", "")}
		case 3:
			op = RawOp{Op: "pod-priority", Target: pick(pods, "rp3"), Key: pickS(t, "rawPC", "no-such-class", "inference", ""), Value: pickS(t, "rawPrio", "-2147483648", "2147483647", "0")}
		case 4:
			op = RawOp{Op: "pod-missing-claim", Target: pick(pods, "rp4")}
		case 5:
			op = RawOp{Op: "pg-ann", Target: pick(groups, "rg5"), Key: pickS(t, "rawPgAnn", "kai.scheduler/last-start-timestamp", "kai.scheduler/stale-podgroup-timestamp"),
				Value: pickS(t, "rawTime", "not-a-time", "9999-99-99T00:00:00Z", "", "0001-01-01T00:00:00Z", "2999-01-01T00:00:00Z")}
		case 6:
			op = RawOp{Op: "pg-field", Target: pick(groups, "rg6"), Key: pickS(t, "rawPgField", "priorityClassName", "markUnschedulable", "schedulingBackoff"),
				Value: pickS(t, "rawPgVal", "no-such-class", "true", "-5", "0", "2147483647")}
		case 7:
			op = RawOp{Op: "resv-ann", Target: pick(sharers, "rs7"), Value: pickS(t, "rawIdx", "", "abc", "-1", "99", "GPU-uuid,GPU-uuid")}
		case 8:
			op = RawOp{Op: "resv-extra", Target: pickS(t, "rawGrp", "ghost-group", pick(sharers, "rs8")), Key: strconv.Itoa(i), Value: pickS(t, "rawResvNode", w.Nodes[0].Name, "ghost-node")}
		case 9:
			// (the Topology CRD schema itself enforces 1..16 unique, non-empty levels: nothing storable to corrupt)
			op = RawOp{Op: "pod-label", Target: pick(pods, "rp9"), Key: "kai.scheduler/topology", Value: "no-such-topology"}
		case 10:
			op = RawOp{Op: "claim-class", Target: pick(claims, "rc10"), Value: pickS(t, "rawClass", "no-such-class", "")}
		case 11:
			op = RawOp{Op: "claim-ghost-device", Target: pick(claims, "rc11"), Key: DRAClass, Value: pickS(t, "rawPool", "ghost-node", w.Nodes[0].Name)}
		case 12:
			op = RawOp{Op: "claim-same-device", Target: pick(claims, "rc12")}
		case 13:
			for _, nd := range w.Nodes {
				for c := range nd.DRA {
					op = RawOp{Op: "slice", Target: nd.Name + "-" + c, Value: pickS(t, "rawSlice", "no-devices", "unknown-node")}
				}
			}
		case 14, 15:
			var brs []string
			for gi := range w.Groups {
				for pi := range w.Groups[gi].Pods {
					if w.Groups[gi].Pods[pi].State == Binding {
						brs = append(brs, w.Groups[gi].Pods[pi].Name)
					}
				}
			}
			op = RawOp{Op: "bindrequest", Target: pick(brs, "rb14"), Key: pickS(t, "rawBrKey", "groups", "portion", "type", "claim", "phase"),
				Value: pickS(t, "rawBrVal", "NaN", "-1", "Garbage", "Failed", "Succeeded", "")}
		case 16, 17:
			op = RawOp{Op: "node-alloc", Target: w.Nodes[uniform(t, len(w.Nodes), "rn16")].Name, Key: pickS(t, "rawAllocKey", "drop", "nil", GPUResource, "pods", "cpu"),
				Value: pickS(t, "rawAllocVal", "cpu", "pods", "memory", "0", "1000000")}
		case 18:
			op = RawOp{Op: "queue-minruntime", Target: w.Queues[uniform(t, len(w.Queues), "rq18")].Name, Value: pickS(t, "rawMinRt", "-3600", "9000000000", "0")}
		case 19:
			op = RawOp{Op: "queue-priority", Target: w.Queues[uniform(t, len(w.Queues), "rq19")].Name, Value: pickS(t, "rawQPrio", "-2147483648", "2147483647", "1000000")}
		}
		if op.Op == "" || (op.Target == "" && op.Op != "resv-extra") {
			continue
		}
		w.RawOps = append(w.RawOps, op)
		applied = append(applied, fmt.Sprintf("raw:%s:%s", op.Op, op.Key))
	}
	return applied
}
