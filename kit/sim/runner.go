package sim

import (
	"encoding/json"
	"fmt"
	"os"
	"testing"

	"pgregory.net/rapid"

	kit "github.com/NVIDIA/KAI-scheduler/zz_verif/verifkit"
)

// Verdict of one history under one oracle.
type Verdict struct {
	Findings   []Finding
	Classes    []string
	Nontrivial bool
	History    *History
}

// Judge runs a world through the engine and applies an oracle.
type Judge func(w *World) *Verdict

func Traces(h *History) [][]string {
	var out [][]string
	for _, c := range h.Cycles {
		out = append(out, TraceStrings(c.Calls))
	}
	return out
}

// EngineFindings reports panics and hangs of a history (reported by every E1 check under its own id).
func EngineFindings(h *History) []Finding {
	var out []Finding
	for _, rec := range h.Cycles {
		if rec.Panic != "" {
			out = append(out, Finding{Sig: "panic", Msg: rec.Panic, Cycle: rec.Index})
		}
		if rec.Hung && os.Getenv("VERIF_IGNORE_HANG") == "" { // the switch exists for diagnosing seeded changes only
			out = append(out, Finding{Sig: "hang", Msg: "scheduling cycle did not finish - " + rec.HangKind, Cycle: rec.Index})
		}
	}
	return out
}

// CheckProperty is the common body of the E1 checks: generate, judge, record, fail with a saved case.
func CheckProperty(t *testing.T, prop string, b kit.Budget, gen func(*rapid.T) *World, judge Judge) {
	kit.Run(t, b, func(t *rapid.T) {
		w := gen(t)
		v := judge(w)
		classes := append([]string{fmt.Sprintf("cycles:%d", len(v.History.Cycles))}, v.Classes...)
		if w.PersistentScheduler {
			classes = append(classes, "one-scheduler-process-for-all-cycles")
		}
		if w.HasMutations() {
			classes = append(classes, "api-objects-changed-between-cycles")
		}
		staleEvict := false
		for _, rec := range v.History.Cycles {
			for _, c := range rec.Calls {
				if c.Kind == "evict" && c.Action == "stalegangeviction" {
					staleEvict = true
				}
			}
		}
		if staleEvict {
			classes = append(classes, "stale-gang-eviction")
		}
		for _, rec := range v.History.Cycles {
			if rec.NotCaughtUp {
				classes = append(classes, "inconclusive:informers-never-matched-store:"+rec.NotCaughtUpWhy)
				kit.Inconclusive()
			} else if rec.Starved {
				classes = append(classes, "inconclusive:cycle-starved-of-cpu")
				kit.Inconclusive()
			}
		}
		kit.Eval(kit.HexKey(w), v.Nontrivial, classes...)
		if v.Nontrivial && kit.WantSample() {
			kit.Sample(map[string]any{"world": w, "calls_per_cycle": Traces(v.History)})
		}
		var fresh []Finding
		for _, f := range v.Findings {
			if !kit.Known(prop, f.Sig) {
				fresh = append(fresh, f)
			}
		}
		if len(fresh) > 0 {
			f := fresh[0]
			msg := fmt.Sprintf("cycle %d: %s", f.Cycle, f.Msg)
			path := kit.Violation(prop, f.Sig, msg, w, Traces(v.History))
			t.Fatalf("VIOLATION %s: %s (%s)", f.Sig, msg, path)
		}
	})
}

// ReplayProperty re-executes a saved world reps times (the scheduler is not deterministic) through judge.
func ReplayProperty(t *testing.T, judge Judge, reps int) {
	kit.ReplayMain(t, func(rf *kit.ReplayFile) kit.ReplayResult {
		var w World
		if err := json.Unmarshal(rf.Case, &w); err != nil {
			t.Fatalf("bad case: %v", err)
		}
		res := kit.ReplayResult{}
		for r := 0; r < reps; r++ {
			v := judge(&w)
			res.Runs++
			if len(v.Findings) > 0 {
				// prefer reporting a finding that is not a listed known one
				f := v.Findings[0]
				for _, g := range v.Findings {
					if !kit.Known(rf.Property, g.Sig) {
						f = g
						break
					}
				}
				res.Bad++
				res.Violated, res.Signature = true, f.Sig
				res.Message = fmt.Sprintf("cycle %d: %s", f.Cycle, f.Msg)
			}
		}
		return res
	})
}

// JudgeNodes is the oracle of C01 (shared=false) and C02 (shared=true).
func JudgeNodes(shared bool) Judge {
	return func(w *World) *Verdict {
		h := Run(w, nil)
		v := &Verdict{History: h, Findings: EngineFindings(h)}
		var tot NodeFacts
		resvSlot := 0
		draBinds := 0
		for _, rec := range h.Cycles {
			if rec.Panic != "" || rec.Hung || rec.Starved {
				continue
			}
			fs, facts := CheckNodes(rec, shared)
			v.Findings = append(v.Findings, fs...)
			if !shared {
				dfs, n := CheckDevices(rec)
				v.Findings = append(v.Findings, dfs...)
				draBinds += n
			}
			// outside the statement (the reservation pod is created by the binder, not bound by the scheduler):
			// observed and counted, never a verdict. See DESIGN.md section 5 item 9.
			if !shared && len(ReservationSlotClause(rec)) > 0 {
				resvSlot++
			}
			tot.Binds += facts.Binds
			tot.BindsNearFull += facts.BindsNearFull
			tot.BindsNextToTerminating += facts.BindsNextToTerminating
			tot.FailedBinds += facts.FailedBinds
			tot.OpenGroup += facts.OpenGroup
			tot.JoinGroup += facts.JoinGroup
			tot.OpenWhileReleasing += facts.OpenWhileReleasing
			tot.StartInconsistent = tot.StartInconsistent || facts.StartInconsistent
		}
		add := func(b bool, s string) {
			if b {
				v.Classes = append(v.Classes, s)
			}
		}
		add(tot.Binds > 0, "has-bind")
		add(tot.BindsNearFull > 0, "bind-near-full")
		add(tot.BindsNextToTerminating > 0, "bind-next-to-terminating-or-evicted")
		add(tot.FailedBinds > 0, "failed-bind-api-call")
		add(tot.OpenGroup > 0, "opens-gpu-group")
		add(tot.JoinGroup > 0, "joins-gpu-group")
		add(tot.OpenWhileReleasing > 0, "opens-group-while-another-releases")
		add(tot.StartInconsistent, "a-node-started-oversubscribed(node-skipped)")
		add(resvSlot > 0, "observed:new-group-bound-without-idle-slot-for-reservation-pod")
		add(w.HasDRA(), "world-with-dra")
		add(draBinds > 0, "bind-of-pod-with-dra-claim")
		if shared {
			v.Nontrivial = tot.JoinGroup > 0 || tot.OpenWhileReleasing > 0
		} else {
			v.Nontrivial = tot.BindsNearFull > 0 || tot.BindsNextToTerminating > 0
		}
		return v
	}
}
