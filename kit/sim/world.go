// Package sim is engine E1 (cyclesim) of /verif: a JSON-serialisable world model, builders that turn
// it into Kubernetes / KAI API objects, a driver that runs whole scheduling cycles of the real
// scheduler through the real cache over fake clientsets, and the folded observation record the
// oracles read. See DESIGN.md section 3.
package sim

import (
	"fmt"
	"sort"
	"strconv"
	"time"

	v1 "k8s.io/api/core/v1"
	resourceapi "k8s.io/api/resource/v1"
	schedulingv1 "k8s.io/api/scheduling/v1"
	"k8s.io/apimachinery/pkg/api/resource"
	metav1 "k8s.io/apimachinery/pkg/apis/meta/v1"
	"k8s.io/apimachinery/pkg/types"

	kaiv1alpha1 "github.com/NVIDIA/KAI-scheduler/pkg/apis/kai/v1alpha1"
	schedulingv1alpha2 "github.com/NVIDIA/KAI-scheduler/pkg/apis/scheduling/v1alpha2"
	enginev2 "github.com/NVIDIA/KAI-scheduler/pkg/apis/scheduling/v2"
	enginev2alpha2 "github.com/NVIDIA/KAI-scheduler/pkg/apis/scheduling/v2alpha2"
)

const (
	SchedulerName  = "kai-scheduler"
	Namespace      = "ws"
	ReservationNS  = "kai-resource-reservation"
	PodGroupAnn    = "pod-group-name"
	SubGroupLabel  = "kai.scheduler/subgroup-name"
	GPUGroupLabel  = "runai-gpu-group"
	GPUFractionAnn = "gpu-fraction"
	GPUMemoryAnn   = "gpu-memory"
	GPUDevicesAnn  = "gpu-fraction-num-devices"
	GPUResource    = "nvidia.com/gpu"
	PoolLabelKey   = "kai.scheduler/node-pool"
	HostnameLabel  = "kubernetes.io/hostname"
)

// ---------------------------------------------------------------------------------------------
// model

type Taint struct {
	Key    string `json:"key"`
	Value  string `json:"value,omitempty"`
	Effect string `json:"effect"`
}

type Node struct {
	Name          string            `json:"name"`
	GPUs          int               `json:"gpus"`
	GPUMem        int               `json:"gpuMem,omitempty"` // nvidia.com/gpu.memory label (MiB); 0 = absent
	CPU           int               `json:"cpu"`              // millicpu
	MemMB         int               `json:"memMB"`
	Pods          int               `json:"pods"`
	Labels        map[string]string `json:"labels,omitempty"`
	Taints        []Taint           `json:"taints,omitempty"`
	NotReady      bool              `json:"notReady,omitempty"`
	Unschedulable bool              `json:"unschedulable,omitempty"`
	Ext           map[string]int    `json:"ext,omitempty"` // extended resources incl. MIG instances
	MigStrategy   string            `json:"migStrategy,omitempty"`
	DRA           map[string]int    `json:"dra,omitempty"` // DRA devices of the node per device class (one ResourceSlice each)
	// hostile worlds
	NoLabels  bool              `json:"noLabels,omitempty"`  // strip every label (incl. hostname, gpu.count)
	RawLabels map[string]string `json:"rawLabels,omitempty"` // applied last, may overwrite nvidia.com/gpu.count etc.
	NoStatus  bool              `json:"noStatus,omitempty"`  // no conditions at all
}

type QRes struct {
	Quota  float64 `json:"quota"`
	Limit  float64 `json:"limit"`
	Weight float64 `json:"weight"`
}

type Queue struct {
	Name              string `json:"name"`
	Parent            string `json:"parent,omitempty"`
	GPU               QRes   `json:"gpu"`
	CPU               QRes   `json:"cpu"` // millicpu
	Mem               QRes   `json:"mem"` // MB
	Priority          *int   `json:"priority,omitempty"`
	PreemptMinRuntime *int   `json:"preemptMinRuntimeSec,omitempty"`
	ReclaimMinRuntime *int   `json:"reclaimMinRuntimeSec,omitempty"`
	CreatedMin        int    `json:"createdMin,omitempty"` // minutes before "now"
	NilResources      bool   `json:"nilResources,omitempty"`
	// Raw overrides of resource numbers that JSON cannot carry ("NaN", "+Inf", "-Inf", "1e308"): keys
	// "gpu.quota", "gpu.limit", "gpu.weight", "cpu.quota", ... parsed with strconv.ParseFloat at build time.
	Raw map[string]string `json:"raw,omitempty"`
}

type TopoConstraint struct {
	Topology  string `json:"topology"`
	Required  string `json:"required,omitempty"`
	Preferred string `json:"preferred,omitempty"`
}

type SubGroup struct {
	Name   string          `json:"name"`
	Min    int             `json:"min"`
	Parent string          `json:"parent,omitempty"`
	Topo   *TopoConstraint `json:"topo,omitempty"`
}

type AffinityTerm struct {
	Key    string   `json:"key"`
	Op     string   `json:"op"` // In, NotIn, Exists, DoesNotExist
	Values []string `json:"values,omitempty"`
}

type PodAffinityTerm struct {
	Anti        bool              `json:"anti,omitempty"`
	TopologyKey string            `json:"topologyKey"`
	MatchLabels map[string]string `json:"matchLabels"`
}

type Toleration struct {
	Key      string `json:"key,omitempty"`
	Operator string `json:"operator"` // Exists | Equal
	Value    string `json:"value,omitempty"`
	Effect   string `json:"effect,omitempty"`
}

// Pod states of the initial store.
const (
	Pending     = "pending"
	Running     = "running"
	Terminating = "terminating" // running + deletionTimestamp
	Binding     = "binding"     // pending + live BindRequest
	BoundP      = "bound"       // pending phase, spec.nodeName set
	Succeeded   = "succeeded"
	Failed      = "failed"
	Gated       = "gated"
)

type Pod struct {
	Name     string `json:"name"`
	SubGroup string `json:"subGroup,omitempty"`
	// request
	CPU       int            `json:"cpu"`
	MemMB     int            `json:"memMB"`
	GPUs      int            `json:"gpus,omitempty"`
	Fraction  string         `json:"fraction,omitempty"`
	GPUMemory int            `json:"gpuMemory,omitempty"`
	Devices   int            `json:"devices,omitempty"`
	Ext       map[string]int `json:"ext,omitempty"`
	InitCPU   int            `json:"initCpu,omitempty"`
	InitGPUs  int            `json:"initGpus,omitempty"`
	InitMemMB int            `json:"initMemMB,omitempty"`
	// pod overhead of the runtime class (spec.overhead): added on top of max(containers, init containers)
	OverheadCPU   int     `json:"overheadCpu,omitempty"`
	OverheadMemMB int     `json:"overheadMemMB,omitempty"`
	Claims        []Claim `json:"claims,omitempty"` // DRA resource claims (one ResourceClaim object per entry, owned by the pod)
	// raw annotation overrides (hostile worlds)
	RawAnnotations map[string]string `json:"rawAnnotations,omitempty"`
	NoContainers   bool              `json:"noContainers,omitempty"`
	// constraints
	Labels       map[string]string `json:"labels,omitempty"`
	NodeSelector map[string]string `json:"nodeSelector,omitempty"`
	Affinity     []AffinityTerm    `json:"affinity,omitempty"` // one required node-selector term (ANDed expressions)
	Tolerations  []Toleration      `json:"tolerations,omitempty"`
	PodAffinity  []PodAffinityTerm `json:"podAffinity,omitempty"`
	// state
	State      string   `json:"state"`
	Node       string   `json:"node,omitempty"`
	Groups     []string `json:"groups,omitempty"` // GPU groups of an active sharer
	CreatedMin int      `json:"createdMin,omitempty"`
	Scheduler  string   `json:"scheduler,omitempty"` // other scheduler's pod when set
	// Incarnation > 0: the pod object was deleted and created again under the same name (new UID), as a StatefulSet does
	Incarnation int `json:"incarnation,omitempty"`
}

// Claim is one DRA resource claim of a pod: Count devices of a device class. Devices is set for pods that
// already hold the claim (running / terminating / binding): indices of the node's devices of that class.
type Claim struct {
	Name    string `json:"name"`
	Class   string `json:"class"`
	Count   int    `json:"count"`
	Devices []int  `json:"devices,omitempty"`
}

// ClaimObjectName is the name of the ResourceClaim object behind a pod's claim.
func ClaimObjectName(pod, claim string) string { return pod + "-" + claim }

type Group struct {
	Name           string          `json:"name"`
	Queue          string          `json:"queue"`
	PriorityClass  string          `json:"priorityClass,omitempty"`
	Preemptibility string          `json:"preemptibility,omitempty"`
	MinMember      int             `json:"minMember"`
	SubGroups      []SubGroup      `json:"subGroups,omitempty"`
	Topo           *TopoConstraint `json:"topo,omitempty"`
	CreatedMin     int             `json:"createdMin,omitempty"`   // minutes before now
	LastStartMin   int             `json:"lastStartMin,omitempty"` // minutes before now; 0 = no annotation
	StaleMin       int             `json:"staleMin,omitempty"`
	Pods           []Pod           `json:"pods"`
	NoPodGroup     bool            `json:"noPodGroup,omitempty"`
	Family         string          `json:"family,omitempty"` // C16: identical workloads of one queue
}

type Topology struct {
	Name   string   `json:"name"`
	Levels []string `json:"levels"` // label keys, coarsest first
}

type PriorityClass struct {
	Name          string `json:"name"`
	Value         int    `json:"value"`
	GlobalDefault bool   `json:"globalDefault,omitempty"`
}

// Config is the scheduler configuration of a case.
type Config struct {
	Actions               []string          `json:"actions"`
	PlacementGPU          string            `json:"placementGpu,omitempty"` // binpack | spread
	PlacementCPU          string            `json:"placementCpu,omitempty"`
	MaxConsolidation      int               `json:"maxConsolidationPreemptees"`
	ConsolidatingReclaim  bool              `json:"allowConsolidatingReclaim,omitempty"`
	Signatures            bool              `json:"useSchedulingSignatures,omitempty"`
	FullHierarchy         bool              `json:"fullHierarchyFairness,omitempty"`
	SaturationMultiplier  string            `json:"saturationMultiplier,omitempty"`
	KValue                string            `json:"kValue,omitempty"`
	MinRuntimeArgs        map[string]string `json:"minRuntimeArgs,omitempty"`
	Pool                  string            `json:"pool,omitempty"` // node-pool label value the scheduler is restricted to
	QueueDepth            map[string]int    `json:"queueDepth,omitempty"`
	GPUSpread             bool              `json:"gpuSpread,omitempty"` // gpuspread instead of gpupack
	StalenessGraceSeconds int               `json:"stalenessGraceSeconds,omitempty"`
}

// CycleScript is the environment's behaviour after one scheduler cycle, and the faults injected in it.
type CycleScript struct {
	BindMode        int  `json:"bindMode"`        // 0 all succeed, 1 none progress, 2 per-pod hash, 3 all fail
	KeepRequests    bool `json:"keepRequests"`    // succeeded BindRequests stay (phase Succeeded) instead of being deleted
	TermLinger      int  `json:"termLinger"`      // cycles a terminating pod survives (0 = gone before next cycle)
	FailBindCreate  int  `json:"failBindCreate"`  // fail the k-th BindRequest create of the cycle (0 = none)
	FailEvictCall   int  `json:"failEvictCall"`   // make the k-th Cache.Evict return an error (0 = none)
	FailPodDelete   int  `json:"failPodDelete"`   // fail the k-th pod delete API call (0 = none)
	RecreateEvicted bool `json:"recreateEvicted"` // closed-system mode: evicted pods come back as new pending pods
	Salt            int  `json:"salt"`
	// DeleteNodes: nodes that leave the cluster after this cycle (their bound pods go with them, BindRequests stay)
	DeleteNodes []string `json:"deleteNodes,omitempty"`
	// Mutations: API changes made by users / administrators after this cycle (process.go)
	Mutations []Mutation `json:"mutations,omitempty"`
}

type World struct {
	Nodes           []Node          `json:"nodes"`
	Queues          []Queue         `json:"queues"`
	Groups          []Group         `json:"groups"`
	Topologies      []Topology      `json:"topologies,omitempty"`
	PriorityClasses []PriorityClass `json:"priorityClasses,omitempty"`
	Config          Config          `json:"config"`
	Cycles          []CycleScript   `json:"cycles"`
	// raw extra objects (hostile worlds)
	ExtraBindRequests []RawBindRequest `json:"extraBindRequests,omitempty"`
	Family            string           `json:"family,omitempty"`  // C05 clause (b): reclaim | preempt
	Family2           string           `json:"family2,omitempty"` // variant of the constructed family
	RawOps            []RawOp          `json:"rawOps,omitempty"`  // corruptions of the built objects (rawops.go)
	// PersistentScheduler: one scheduler process lives through all cycles instead of a restart per cycle (process.go)
	PersistentScheduler bool `json:"persistentScheduler,omitempty"`
}

type RawBindRequest struct {
	Pod            string `json:"pod"`
	Node           string `json:"node"`
	Phase          string `json:"phase,omitempty"` // "", Pending, Failed, Succeeded
	FailedAttempts int32  `json:"failedAttempts,omitempty"`
	BackoffLimit   *int32 `json:"backoffLimit,omitempty"`
}

// DefaultPriorityClasses as installed by the product.
func DefaultPriorityClasses() []PriorityClass {
	return []PriorityClass{{Name: "train", Value: 50}, {Name: "build-preemptible", Value: 75}, {Name: "build", Value: 100}, {Name: "inference", Value: 125}}
}

// ---------------------------------------------------------------------------------------------
// builders

type Objects struct {
	Nodes           []*v1.Node
	Pods            []*v1.Pod
	Queues          []*enginev2.Queue
	PodGroups       []*enginev2alpha2.PodGroup
	BindRequests    []*schedulingv1alpha2.BindRequest
	PriorityClasses []*schedulingv1.PriorityClass
	Topologies      []*kaiv1alpha1.Topology
	DeviceClasses   []*resourceapi.DeviceClass
	ResourceSlices  []*resourceapi.ResourceSlice
	ResourceClaims  []*resourceapi.ResourceClaim
}

// HasDRA tells whether the world uses dynamic resource allocation at all.
func (w *World) HasDRA() bool {
	for i := range w.Nodes {
		if len(w.Nodes[i].DRA) > 0 {
			return true
		}
	}
	for gi := range w.Groups {
		for pi := range w.Groups[gi].Pods {
			if len(w.Groups[gi].Pods[pi].Claims) > 0 {
				return true
			}
		}
	}
	return false
}

// ClaimAllocation is the allocation result of a claim that holds the given devices of a node.
func ClaimAllocation(class, node string, devices []int) *resourceapi.AllocationResult {
	a := &resourceapi.AllocationResult{
		NodeSelector: &v1.NodeSelector{NodeSelectorTerms: []v1.NodeSelectorTerm{{
			MatchFields: []v1.NodeSelectorRequirement{{Key: "metadata.name", Operator: v1.NodeSelectorOpIn, Values: []string{node}}}}}},
	}
	for _, d := range devices {
		a.Devices.Results = append(a.Devices.Results, resourceapi.DeviceRequestAllocationResult{
			Request: "request", Driver: class, Pool: node, Device: strconv.Itoa(d)})
	}
	return a
}

// BuildDRA renders device classes, one ResourceSlice per (node, class) and one ResourceClaim per pod claim.
func (w *World) BuildDRA(o *Objects) {
	classes := map[string]bool{}
	for i := range w.Nodes {
		n := &w.Nodes[i]
		cls := make([]string, 0, len(n.DRA))
		for c := range n.DRA {
			cls = append(cls, c)
		}
		sort.Strings(cls)
		for _, c := range cls {
			classes[c] = true
			sl := &resourceapi.ResourceSlice{
				ObjectMeta: metav1.ObjectMeta{Name: n.Name + "-" + c, ResourceVersion: "0"},
				Spec:       resourceapi.ResourceSliceSpec{Driver: c, Pool: resourceapi.ResourcePool{Name: n.Name, ResourceSliceCount: 1}, NodeName: ptrTo(n.Name)},
			}
			for d := 0; d < n.DRA[c]; d++ {
				sl.Spec.Devices = append(sl.Spec.Devices, resourceapi.Device{Name: strconv.Itoa(d)})
			}
			o.ResourceSlices = append(o.ResourceSlices, sl)
		}
	}
	for gi := range w.Groups {
		g := &w.Groups[gi]
		for pi := range g.Pods {
			p := &g.Pods[pi]
			for _, c := range p.Claims {
				classes[c.Class] = true
				rc := &resourceapi.ResourceClaim{
					ObjectMeta: metav1.ObjectMeta{Name: ClaimObjectName(p.Name, c.Name), Namespace: Namespace, ResourceVersion: "0", UID: types.UID("claim-" + p.Name + "-" + c.Name),
						OwnerReferences: []metav1.OwnerReference{{APIVersion: "v1", Kind: "Pod", Name: p.Name, UID: types.UID("uid-" + p.Name)}}},
					Spec: resourceapi.ResourceClaimSpec{Devices: resourceapi.DeviceClaim{Requests: []resourceapi.DeviceRequest{{Name: "request",
						Exactly: &resourceapi.ExactDeviceRequest{DeviceClassName: c.Class, AllocationMode: resourceapi.DeviceAllocationModeExactCount, Count: int64(c.Count)}}}}},
				}
				// a pod that is on its node holds its claims; a pod that is being bound gets them from its BindRequest
				if len(c.Devices) > 0 && p.Node != "" && (p.State == Running || p.State == Terminating || p.State == BoundP) {
					rc.Status.Allocation = ClaimAllocation(c.Class, p.Node, c.Devices)
					rc.Status.ReservedFor = []resourceapi.ResourceClaimConsumerReference{{Resource: "pods", Name: p.Name, UID: types.UID("uid-" + p.Name)}}
				}
				o.ResourceClaims = append(o.ResourceClaims, rc)
			}
		}
	}
	cls := make([]string, 0, len(classes))
	for c := range classes {
		cls = append(cls, c)
	}
	sort.Strings(cls)
	for _, c := range cls {
		o.DeviceClasses = append(o.DeviceClasses, &resourceapi.DeviceClass{
			ObjectMeta: metav1.ObjectMeta{Name: c, ResourceVersion: "0"},
			Spec:       resourceapi.DeviceClassSpec{Selectors: []resourceapi.DeviceSelector{{CEL: &resourceapi.CELDeviceSelector{Expression: fmt.Sprintf("device.driver == %q", c)}}}},
		})
	}
}

func podUID(p *Pod) types.UID {
	if p.Incarnation > 0 {
		return types.UID(fmt.Sprintf("uid-%s-i%d", p.Name, p.Incarnation))
	}
	return types.UID("uid-" + p.Name)
}

func ptrTo[T any](v T) *T { return &v }

func qty(n int64) resource.Quantity { return *resource.NewQuantity(n, resource.DecimalSI) }

func (w *World) Build(now time.Time) *Objects {
	o := &Objects{}
	for i := range w.Nodes {
		o.Nodes = append(o.Nodes, BuildNode(&w.Nodes[i]))
	}
	for i := range w.Queues {
		o.Queues = append(o.Queues, BuildQueue(&w.Queues[i], now))
	}
	pcs := w.PriorityClasses
	if pcs == nil {
		pcs = DefaultPriorityClasses()
	}
	for _, pc := range pcs {
		o.PriorityClasses = append(o.PriorityClasses, &schedulingv1.PriorityClass{
			ObjectMeta: metav1.ObjectMeta{Name: pc.Name}, Value: int32(pc.Value), GlobalDefault: pc.GlobalDefault})
	}
	for _, t := range w.Topologies {
		tp := &kaiv1alpha1.Topology{ObjectMeta: metav1.ObjectMeta{Name: t.Name}}
		for _, l := range t.Levels {
			tp.Spec.Levels = append(tp.Spec.Levels, kaiv1alpha1.TopologyLevel{NodeLabel: l})
		}
		o.Topologies = append(o.Topologies, tp)
	}
	reservations := map[string]string{} // group -> node
	for gi := range w.Groups {
		g := &w.Groups[gi]
		if !g.NoPodGroup {
			o.PodGroups = append(o.PodGroups, BuildPodGroup(g, now))
		}
		for pi := range g.Pods {
			p := &g.Pods[pi]
			pod := BuildPod(g, p, now)
			o.Pods = append(o.Pods, pod)
			if p.State == Binding {
				o.BindRequests = append(o.BindRequests, BuildBindRequest(pod, p.Node, p.Groups, p))
			}
			if p.State == Running || p.State == Terminating || p.State == BoundP {
				for _, grp := range p.Groups {
					reservations[grp] = p.Node
				}
			}
		}
	}
	grps := make([]string, 0, len(reservations))
	for grp := range reservations {
		grps = append(grps, grp)
	}
	sort.Strings(grps)
	for _, grp := range grps {
		o.Pods = append(o.Pods, BuildReservationPod(grp, reservations[grp], now))
	}
	haveBR := map[string]bool{}
	for _, br := range o.BindRequests {
		haveBR[br.Name] = true
	}
	for _, rb := range w.ExtraBindRequests {
		if haveBR[rb.Pod] {
			continue // object names are unique in the API
		}
		haveBR[rb.Pod] = true
		o.BindRequests = append(o.BindRequests, &schedulingv1alpha2.BindRequest{
			ObjectMeta: metav1.ObjectMeta{Name: rb.Pod, Namespace: Namespace, Labels: map[string]string{"selected-node": rb.Node}},
			Spec:       schedulingv1alpha2.BindRequestSpec{PodName: rb.Pod, SelectedNode: rb.Node, BackoffLimit: rb.BackoffLimit, ReceivedResourceType: "Regular"},
			Status:     schedulingv1alpha2.BindRequestStatus{Phase: rb.Phase, FailedAttempts: rb.FailedAttempts},
		})
	}
	w.BuildDRA(o)
	applyRawOps(o, w.RawOps)
	return o
}

func BuildNode(n *Node) *v1.Node {
	alloc := v1.ResourceList{
		v1.ResourceCPU:    *resource.NewMilliQuantity(int64(n.CPU), resource.DecimalSI),
		v1.ResourceMemory: qty(int64(n.MemMB) * 1000 * 1000),
		v1.ResourcePods:   qty(int64(n.Pods)),
	}
	labels := map[string]string{HostnameLabel: n.Name}
	for k, v := range n.Labels {
		labels[k] = v
	}
	if n.GPUs > 0 || n.MigStrategy == "mixed" {
		if n.MigStrategy != "mixed" {
			alloc[GPUResource] = qty(int64(n.GPUs))
		}
		labels["nvidia.com/gpu.count"] = strconv.Itoa(n.GPUs)
		labels["node-role.kubernetes.io/gpu-worker"] = "true"
		if n.GPUMem > 0 {
			labels["nvidia.com/gpu.memory"] = strconv.Itoa(n.GPUMem)
		}
	} else {
		labels["node-role.kubernetes.io/cpu-worker"] = "true"
	}
	if n.MigStrategy != "" {
		labels["nvidia.com/mig.strategy"] = n.MigStrategy
	}
	for k, v := range n.Ext {
		alloc[v1.ResourceName(k)] = qty(int64(v))
	}
	if n.NoLabels {
		labels = map[string]string{}
	}
	for k, v := range n.RawLabels {
		labels[k] = v
	}
	node := &v1.Node{
		ObjectMeta: metav1.ObjectMeta{Name: n.Name, Labels: labels, UID: types.UID("node-" + n.Name)},
		Spec:       v1.NodeSpec{Unschedulable: n.Unschedulable},
		Status:     v1.NodeStatus{Allocatable: alloc, Capacity: alloc.DeepCopy()},
	}
	for _, t := range n.Taints {
		node.Spec.Taints = append(node.Spec.Taints, v1.Taint{Key: t.Key, Value: t.Value, Effect: v1.TaintEffect(t.Effect)})
	}
	ready := v1.ConditionTrue
	if n.NotReady {
		ready = v1.ConditionFalse
	}
	node.Status.Conditions = []v1.NodeCondition{{Type: v1.NodeReady, Status: ready}}
	if n.NoStatus {
		node.Status.Conditions = nil
	}
	return node
}

func BuildQueue(q *Queue, now time.Time) *enginev2.Queue {
	out := &enginev2.Queue{
		ObjectMeta: metav1.ObjectMeta{Name: q.Name, UID: types.UID("queue-" + q.Name),
			CreationTimestamp: metav1.NewTime(now.Add(-time.Duration(q.CreatedMin+600) * time.Minute))},
		Spec: enginev2.QueueSpec{ParentQueue: q.Parent, Priority: q.Priority},
	}
	if !q.NilResources {
		out.Spec.Resources = &enginev2.QueueResources{
			GPU:    enginev2.QueueResource{Quota: q.GPU.Quota, Limit: q.GPU.Limit, OverQuotaWeight: q.GPU.Weight},
			CPU:    enginev2.QueueResource{Quota: q.CPU.Quota, Limit: q.CPU.Limit, OverQuotaWeight: q.CPU.Weight},
			Memory: enginev2.QueueResource{Quota: q.Mem.Quota, Limit: q.Mem.Limit, OverQuotaWeight: q.Mem.Weight},
		}
	}
	for k, v := range q.Raw {
		f, err := strconv.ParseFloat(v, 64)
		if err != nil || out.Spec.Resources == nil {
			continue
		}
		var r *enginev2.QueueResource
		switch {
		case len(k) > 4 && k[:4] == "gpu.":
			r = &out.Spec.Resources.GPU
		case len(k) > 4 && k[:4] == "cpu.":
			r = &out.Spec.Resources.CPU
		case len(k) > 4 && k[:4] == "mem.":
			r = &out.Spec.Resources.Memory
		}
		if r == nil {
			continue
		}
		switch k[4:] {
		case "quota":
			r.Quota = f
		case "limit":
			r.Limit = f
		case "weight":
			r.OverQuotaWeight = f
		}
	}
	if q.PreemptMinRuntime != nil {
		out.Spec.PreemptMinRuntime = &metav1.Duration{Duration: time.Duration(*q.PreemptMinRuntime) * time.Second}
	}
	if q.ReclaimMinRuntime != nil {
		out.Spec.ReclaimMinRuntime = &metav1.Duration{Duration: time.Duration(*q.ReclaimMinRuntime) * time.Second}
	}
	return out
}

func buildTopo(t *TopoConstraint) enginev2alpha2.TopologyConstraint {
	return enginev2alpha2.TopologyConstraint{Topology: t.Topology, RequiredTopologyLevel: t.Required, PreferredTopologyLevel: t.Preferred}
}

func BuildPodGroup(g *Group, now time.Time) *enginev2alpha2.PodGroup {
	pg := &enginev2alpha2.PodGroup{
		ObjectMeta: metav1.ObjectMeta{Name: g.Name, Namespace: Namespace, UID: types.UID("pg-" + g.Name),
			CreationTimestamp: metav1.NewTime(now.Add(-time.Duration(g.CreatedMin) * time.Minute)), Annotations: map[string]string{}},
		Spec: enginev2alpha2.PodGroupSpec{
			MinMember: int32(g.MinMember), Queue: g.Queue, PriorityClassName: g.PriorityClass,
			Preemptibility: enginev2alpha2.Preemptibility(g.Preemptibility),
		},
	}
	if g.Topo != nil {
		pg.Spec.TopologyConstraint = buildTopo(g.Topo)
	}
	for _, sg := range g.SubGroups {
		s := enginev2alpha2.SubGroup{Name: sg.Name, MinMember: int32(sg.Min)}
		if sg.Parent != "" {
			p := sg.Parent
			s.Parent = &p
		}
		if sg.Topo != nil {
			tc := buildTopo(sg.Topo)
			s.TopologyConstraint = &tc
		}
		pg.Spec.SubGroups = append(pg.Spec.SubGroups, s)
	}
	if g.LastStartMin > 0 {
		pg.Annotations["kai.scheduler/last-start-timestamp"] = now.Add(-time.Duration(g.LastStartMin) * time.Minute).UTC().Format(time.RFC3339)
	}
	if g.StaleMin > 0 {
		pg.Annotations["kai.scheduler/stale-podgroup-timestamp"] = now.Add(-time.Duration(g.StaleMin) * time.Minute).UTC().Format(time.RFC3339)
	}
	return pg
}

func BuildPod(g *Group, p *Pod, now time.Time) *v1.Pod {
	labels := map[string]string{"app": g.Name}
	for k, v := range p.Labels {
		labels[k] = v
	}
	if p.SubGroup != "" {
		labels[SubGroupLabel] = p.SubGroup
	}
	ann := map[string]string{PodGroupAnn: g.Name}
	if p.Fraction != "" {
		ann[GPUFractionAnn] = p.Fraction
	}
	if p.GPUMemory > 0 {
		ann[GPUMemoryAnn] = strconv.Itoa(p.GPUMemory)
	}
	if p.Devices > 0 {
		ann[GPUDevicesAnn] = strconv.Itoa(p.Devices)
	}
	for k, v := range p.RawAnnotations {
		ann[k] = v
	}
	sched := SchedulerName
	if p.Scheduler != "" {
		sched = p.Scheduler
	}
	pod := &v1.Pod{
		ObjectMeta: metav1.ObjectMeta{Name: p.Name, Namespace: Namespace, UID: podUID(p), Labels: labels, Annotations: ann,
			CreationTimestamp: metav1.NewTime(now.Add(-time.Duration(p.CreatedMin) * time.Minute))},
		Spec: v1.PodSpec{SchedulerName: sched, NodeSelector: p.NodeSelector},
	}
	req := v1.ResourceList{}
	if p.CPU > 0 {
		req[v1.ResourceCPU] = *resource.NewMilliQuantity(int64(p.CPU), resource.DecimalSI)
	}
	if p.MemMB > 0 {
		req[v1.ResourceMemory] = qty(int64(p.MemMB) * 1000 * 1000)
	}
	lim := v1.ResourceList{}
	if p.GPUs > 0 {
		req[GPUResource] = qty(int64(p.GPUs))
		lim[GPUResource] = qty(int64(p.GPUs))
	}
	for k, v := range p.Ext {
		req[v1.ResourceName(k)] = qty(int64(v))
		lim[v1.ResourceName(k)] = qty(int64(v))
	}
	if !p.NoContainers {
		pod.Spec.Containers = []v1.Container{{Name: "main", Image: "x", Resources: v1.ResourceRequirements{Requests: req, Limits: lim}}}
	}
	if p.OverheadCPU > 0 || p.OverheadMemMB > 0 {
		pod.Spec.Overhead = v1.ResourceList{}
		if p.OverheadCPU > 0 {
			pod.Spec.Overhead[v1.ResourceCPU] = *resource.NewMilliQuantity(int64(p.OverheadCPU), resource.DecimalSI)
		}
		if p.OverheadMemMB > 0 {
			pod.Spec.Overhead[v1.ResourceMemory] = qty(int64(p.OverheadMemMB) * 1000 * 1000)
		}
	}
	if p.InitCPU > 0 || p.InitGPUs > 0 || p.InitMemMB > 0 {
		ireq := v1.ResourceList{}
		if p.InitMemMB > 0 {
			ireq[v1.ResourceMemory] = qty(int64(p.InitMemMB) * 1000 * 1000)
		}
		if p.InitCPU > 0 {
			ireq[v1.ResourceCPU] = *resource.NewMilliQuantity(int64(p.InitCPU), resource.DecimalSI)
		}
		if p.InitGPUs > 0 {
			ireq[GPUResource] = qty(int64(p.InitGPUs))
		}
		pod.Spec.InitContainers = []v1.Container{{Name: "init", Image: "x", Resources: v1.ResourceRequirements{Requests: ireq, Limits: ireq.DeepCopy()}}}
	}
	for _, c := range p.Claims {
		pod.Spec.ResourceClaims = append(pod.Spec.ResourceClaims, v1.PodResourceClaim{Name: c.Name, ResourceClaimName: ptrTo(ClaimObjectName(p.Name, c.Name))})
		if len(pod.Spec.Containers) > 0 {
			pod.Spec.Containers[0].Resources.Claims = append(pod.Spec.Containers[0].Resources.Claims, v1.ResourceClaim{Name: c.Name})
		}
	}
	if len(p.Affinity) > 0 {
		term := v1.NodeSelectorTerm{}
		for _, a := range p.Affinity {
			term.MatchExpressions = append(term.MatchExpressions, v1.NodeSelectorRequirement{Key: a.Key, Operator: v1.NodeSelectorOperator(a.Op), Values: a.Values})
		}
		pod.Spec.Affinity = &v1.Affinity{NodeAffinity: &v1.NodeAffinity{
			RequiredDuringSchedulingIgnoredDuringExecution: &v1.NodeSelector{NodeSelectorTerms: []v1.NodeSelectorTerm{term}}}}
	}
	for _, t := range p.Tolerations {
		pod.Spec.Tolerations = append(pod.Spec.Tolerations, v1.Toleration{Key: t.Key, Operator: v1.TolerationOperator(t.Operator), Value: t.Value, Effect: v1.TaintEffect(t.Effect)})
	}
	for _, pa := range p.PodAffinity {
		if pod.Spec.Affinity == nil {
			pod.Spec.Affinity = &v1.Affinity{}
		}
		term := v1.PodAffinityTerm{TopologyKey: pa.TopologyKey, LabelSelector: &metav1.LabelSelector{MatchLabels: pa.MatchLabels}}
		if pa.Anti {
			if pod.Spec.Affinity.PodAntiAffinity == nil {
				pod.Spec.Affinity.PodAntiAffinity = &v1.PodAntiAffinity{}
			}
			pod.Spec.Affinity.PodAntiAffinity.RequiredDuringSchedulingIgnoredDuringExecution = append(pod.Spec.Affinity.PodAntiAffinity.RequiredDuringSchedulingIgnoredDuringExecution, term)
		} else {
			if pod.Spec.Affinity.PodAffinity == nil {
				pod.Spec.Affinity.PodAffinity = &v1.PodAffinity{}
			}
			pod.Spec.Affinity.PodAffinity.RequiredDuringSchedulingIgnoredDuringExecution = append(pod.Spec.Affinity.PodAffinity.RequiredDuringSchedulingIgnoredDuringExecution, term)
		}
	}
	switch p.State {
	case Pending, Binding:
		pod.Status.Phase = v1.PodPending
	case Gated:
		pod.Status.Phase = v1.PodPending
		pod.Spec.SchedulingGates = []v1.PodSchedulingGate{{Name: "gate"}}
	case BoundP:
		pod.Status.Phase = v1.PodPending
		pod.Spec.NodeName = p.Node
	case Running:
		pod.Status.Phase = v1.PodRunning
		pod.Spec.NodeName = p.Node
	case Terminating:
		pod.Status.Phase = v1.PodRunning
		pod.Spec.NodeName = p.Node
		ts := metav1.NewTime(now.Add(-time.Minute))
		pod.DeletionTimestamp = &ts
		pod.Finalizers = []string{"verif/terminating"}
	case Succeeded:
		pod.Status.Phase = v1.PodSucceeded
		pod.Spec.NodeName = p.Node
	case Failed:
		pod.Status.Phase = v1.PodFailed
		pod.Spec.NodeName = p.Node
	default:
		pod.Status.Phase = v1.PodPending
	}
	if p.State == Running || p.State == Terminating || p.State == BoundP {
		SetGroupLabels(pod, p.Groups)
		if len(p.Groups) > 0 {
			pod.Annotations["received-resource-type"] = "Fraction"
		}
	}
	return pod
}

// SetGroupLabels writes the GPU-group labels exactly as the binder does (resourcereservation.updatePodGPUGroup):
// a single-device sharer gets `runai-gpu-group: <group>`, a multi-device sharer gets one
// `runai-gpu-group/<group>: <group>` label per device and no plain label.
func SetGroupLabels(pod *v1.Pod, groups []string) {
	if len(groups) == 0 {
		return
	}
	if pod.Labels == nil {
		pod.Labels = map[string]string{}
	}
	multi := false
	if n, err := strconv.ParseInt(pod.Annotations[GPUDevicesAnn], 10, 64); err == nil && n > 1 {
		multi = true
	}
	if !multi {
		pod.Labels[GPUGroupLabel] = groups[0]
		return
	}
	for _, g := range groups {
		pod.Labels[GPUGroupLabel+"/"+g] = g
	}
}

func BuildReservationPod(group, node string, now time.Time) *v1.Pod {
	return &v1.Pod{
		ObjectMeta: metav1.ObjectMeta{Name: "gpu-reservation-" + node + "-" + group, Namespace: ReservationNS, UID: types.UID("uid-resv-" + group),
			Labels:            map[string]string{"app": "kai-resource-reservation", GPUGroupLabel: group},
			Annotations:       map[string]string{"run.ai/reserve_for_gpu_index": "0"},
			CreationTimestamp: metav1.NewTime(now.Add(-time.Hour))},
		Spec: v1.PodSpec{NodeName: node, SchedulerName: SchedulerName, Containers: []v1.Container{{Name: "resv", Image: "x",
			Resources: v1.ResourceRequirements{Requests: v1.ResourceList{GPUResource: qty(1)}, Limits: v1.ResourceList{GPUResource: qty(1)}}}}},
		Status: v1.PodStatus{Phase: v1.PodRunning},
	}
}

func BuildBindRequest(pod *v1.Pod, node string, groups []string, p *Pod) *schedulingv1alpha2.BindRequest {
	br := &schedulingv1alpha2.BindRequest{
		ObjectMeta: metav1.ObjectMeta{Name: pod.Name, Namespace: pod.Namespace, Labels: map[string]string{"selected-node": node},
			OwnerReferences: []metav1.OwnerReference{{APIVersion: "v1", Kind: "Pod", Name: pod.Name, UID: pod.UID}}},
		Spec: schedulingv1alpha2.BindRequestSpec{PodName: pod.Name, SelectedNode: node, SelectedGPUGroups: groups, ReceivedResourceType: "Regular"},
	}
	if len(groups) > 0 {
		br.Spec.ReceivedResourceType = "Fraction"
		portion := p.Fraction
		if portion == "" {
			portion = "0"
		}
		n := p.Devices
		if n == 0 {
			n = 1
		}
		br.Spec.ReceivedGPU = &schedulingv1alpha2.ReceivedGPU{Count: n, Portion: portion}
	}
	for _, c := range p.Claims {
		if len(c.Devices) > 0 {
			br.Spec.ResourceClaimAllocations = append(br.Spec.ResourceClaimAllocations,
				schedulingv1alpha2.ResourceClaimAllocation{Name: c.Name, Allocation: ClaimAllocation(c.Class, node, c.Devices)})
		}
	}
	return br
}

func (w *World) String() string {
	return fmt.Sprintf("world{%d nodes, %d queues, %d groups, %d cycles}", len(w.Nodes), len(w.Queues), len(w.Groups), len(w.Cycles))
}
