//go:build verif

// Export shim for the /verif checks C11 and C17 (overlaid into pkg/binder/controllers at build time,
// never written into the repository). Read-only accessors, no behaviour.
package controllers

import (
	"sigs.k8s.io/controller-runtime/pkg/handler"
)

// VerifEventHandlers exposes the pod controller's event handlers (create/update/delete/generic).
func (r *PodReconciler) VerifEventHandlers() handler.Funcs { return r.eventHandlers() }

// VerifEventHandlers exposes the BindRequest controller's event handlers.
func (r *BindRequestReconciler) VerifEventHandlers() handler.Funcs { return r.eventHandlers() }
