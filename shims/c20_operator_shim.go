//go:build verif

// Export shim for the C20 check (injected by -overlay into pkg/operator/controller; no behaviour of its own):
// builds a ConfigReconciler wired exactly as SetupWithManager wires it, minus the manager (indexes and watches
// are provided by the fake client / the harness).
package controller

import (
	admissionv1 "k8s.io/api/admissionregistration/v1"
	"k8s.io/apimachinery/pkg/runtime"
	"sigs.k8s.io/controller-runtime/pkg/client"

	"github.com/NVIDIA/KAI-scheduler/pkg/operator/controller/status_reconciler"
	"github.com/NVIDIA/KAI-scheduler/pkg/operator/operands"
	"github.com/NVIDIA/KAI-scheduler/pkg/operator/operands/known_types"
)

func VerifNewConfigReconciler(c client.Client, scheme *runtime.Scheme, ops []operands.Operand) *ConfigReconciler {
	r := &ConfigReconciler{Client: c, Scheme: scheme}
	r.SetOperands(ops)
	r.deployable.RegisterFieldsInheritFromClusterObjects(&admissionv1.ValidatingWebhookConfiguration{},
		known_types.ValidatingWebhookConfigurationFieldInherit)
	r.deployable.RegisterFieldsInheritFromClusterObjects(&admissionv1.MutatingWebhookConfiguration{},
		known_types.MutatingWebhookConfigurationFieldInherit)
	r.StatusReconciler = status_reconciler.New(r.Client, r.deployable)
	return r
}
