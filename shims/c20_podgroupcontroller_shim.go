//go:build verif

// Export shim for the C20 check (injected by -overlay into pkg/podgroupcontroller/controllers; no behaviour).
package controllers

import (
	"context"

	"sigs.k8s.io/controller-runtime/pkg/client"
	"sigs.k8s.io/controller-runtime/pkg/reconcile"
)

// VerifMapPodEventToPodGroup exposes the Pod -> PodGroup watch mapping the controller registers in SetupWithManager.
func VerifMapPodEventToPodGroup(ctx context.Context, p client.Object) []reconcile.Request {
	return mapPodEventToPodGroup(ctx, p)
}
