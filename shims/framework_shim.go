//go:build verif

package framework

// VerifPlugin returns the live plugin instance of a session by name (read-only export for /verif,
// injected by -overlay, never part of the repository).
func VerifPlugin(ssn *Session, name string) Plugin {
	if ssn == nil {
		return nil
	}
	return ssn.plugins[name]
}

// VerifOp is a read-only view of one recorded statement operation.
type VerifOp struct {
	Kind  string
	Task  string
	Valid bool
}

// VerifOperations lists the operations a statement holds, with the statement's own validity verdict.
func VerifOperations(s *Statement) []VerifOp {
	out := make([]VerifOp, 0, len(s.operations))
	for i, op := range s.operations {
		out = append(out, VerifOp{Kind: op.Name(), Task: string(op.TaskInfo().UID), Valid: s.operationValid(i)})
	}
	return out
}
