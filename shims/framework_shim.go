//go:build verif

package framework

// VerifPlugin returns the live plugin instance of a session by name (read-only export for /verif,
// injected by -overlay, never part of the repository).
func VerifPlugin(ssn *Session, name string) Plugin {
	if ssn == nil {
		return nil
	}
	return ssn.plugins[name]
}
