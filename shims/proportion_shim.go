//go:build verif

package proportion

import (
	"github.com/NVIDIA/KAI-scheduler/pkg/scheduler/api/common_info"
	"github.com/NVIDIA/KAI-scheduler/pkg/scheduler/framework"
	rs "github.com/NVIDIA/KAI-scheduler/pkg/scheduler/plugins/proportion/resource_share"
)

// VerifSetFairShare runs the plugin's own hierarchical fair-share recursion on the given queues.
// Read-only export for /verif (injected by -overlay, never part of the repository).
func VerifSetFairShare(total rs.ResourceQuantities, kValue float64, queues map[common_info.QueueID]*rs.QueueAttributes) {
	pp := &proportionPlugin{totalResource: total, queues: queues, kValue: kValue}
	pp.setFairShare()
}

// VerifQueues exposes the queue attributes of a live proportion plugin instance.
func VerifQueues(p framework.Plugin) map[common_info.QueueID]*rs.QueueAttributes {
	pp, ok := p.(*proportionPlugin)
	if !ok {
		return nil
	}
	return pp.queues
}

// VerifTotal exposes the total resources the plugin divides.
func VerifTotal(p framework.Plugin) rs.ResourceQuantities {
	pp, ok := p.(*proportionPlugin)
	if !ok {
		return nil
	}
	return pp.totalResource
}
